"""C14 — tiling covers every voxel in bounds; tile contents/offsets; schedules respect the limits."""
import itertools

import numpy as np

ID = "C14"
RULE = ("split_shape exhaustively for all (N, k<=N) up to a bound plus k>N and 2-3 axis products; subset_by_slice on random "
        "tiles/margins incl. margins larger than the remaining data, contents decoded through an index-valued target; "
        "schedules for random (shape, template, cores, memory, score, analyzer) requests. distinct = distinct request tuples; "
        "k=1 splits and zero-margin whole-volume tiles are trivial and not counted")
ASSUMPTIONS = ["np.ceil(N/k) is exact for the extents explored (float64 division of small integers)",
               "the schedule's memory clause is about the search's *own* estimate (estimate_ram_usage), as the property states"]
TRUSTED = ["C14: numpy.pad(mode='reflect') semantics are modelled by reflectIdx and validated here against real tiles"]


def _extract_mem_table():
    from tme.memory import MATCHING_MEMORY_REGISTRY
    out = []
    for name, cls in MATCHING_MEMORY_REGISTRY.items():
        def probe(R, C, fb, cb):
            o = cls(fast_shape=(R,), ft_shape=(C,), float_nbytes=fb, complex_nbytes=cb, integer_nbytes=4)
            return int(o.base_usage()), int(o.per_fork())
        basis = [(1, 0, 1, 0), (1, 0, 0, 1), (0, 1, 1, 0), (0, 1, 0, 1)]
        vals = [probe(*b) for b in basis]
        base = [v[0] for v in vals]
        fork = [v[1] for v in vals]
        # linearity check on a generic probe
        R, C, fb, cb = 7, 5, 4, 8
        pb, pf = probe(R, C, fb, cb)
        eb = base[0] * R * fb + base[1] * R * cb + base[2] * C * fb + base[3] * C * cb
        ef = fork[0] * R * fb + fork[1] * R * cb + fork[2] * C * fb + fork[3] * C * cb
        out.append({"name": name, "base": base, "fork": fork, "bilinear": (pb, pf) == (eb, ef)})
    return out


def _slices(t):
    return [[int(s.start), int(s.stop)] for s in t]


def _spec_split(ctx, shape, splits, tiles, key="split_shape:tiles"):
    """property clause: non-empty, in-bounds boxes of equal extent whose union is the whole shape;
    as many as requested"""
    ks = [max(splits.get(i, 1), 1) for i in range(len(shape))]
    ok = len(tiles) == int(np.prod(ks))
    cover = np.zeros(shape, bool)
    ext0 = None
    why = ""
    for t in tiles:
        ext = tuple(b - a for a, b in t)
        if any(a < 0 or b > n or a >= b for (a, b), n in zip(t, shape)):
            ok, why = False, f"tile {t} empty or out of bounds"
            break
        if ext0 is None:
            ext0 = ext
        if ext != ext0:
            ok, why = False, f"unequal extents {ext} vs {ext0}"
            break
        cover[tuple(slice(a, b) for a, b in t)] = True
    if ok and not cover.all():
        ok, why = False, "union is not the whole shape"
    return ctx.spec("tiles: non-empty, in bounds, equal extent, cover", {"shape": list(shape), "splits": {str(k): v for k, v in splits.items()}},
                    ok, why, key=key)


def run(ctx):
    from tme.matching_utils import split_shape, compute_parallelization_schedule
    from tme.matching_data import MatchingData
    from tme.memory import estimate_ram_usage
    d = ctx.driver
    rng = ctx.rng("main")

    # ---- memory registry extracted by reflection == model table
    ext = _extract_mem_table()
    model_tab = d.call("c14.memTable")
    ctx.obligation("MATCHING_MEMORY_REGISTRY bilinear", all(e["bilinear"] for e in ext), ext)
    ctx.obligation("MATCHING_MEMORY_REGISTRY == Pm.C14.memTable",
                   [{k: e[k] for k in ("name", "base", "fork")} for e in ext] == model_tab, {"extracted": ext, "model": model_tab})
    ctx.sample({"extracted_registry_row": ext[4]})

    # ---- split_shape, one axis, exhaustive
    NB = ctx.budget(64, 256)
    reqs, keep = [], []
    for N in range(1, NB + 1):
        for k in range(1, N + 1):
            reqs.append(("c14.splitShape", {"shape": [N], "splits": [k]}))
            keep.append((N, k))
    for N in range(1, 12):  # more parts than voxels
        for k in range(N + 1, N + 5):
            reqs.append(("c14.splitShape", {"shape": [N], "splits": [k]}))
            keep.append((N, k))
    models = d.batch(reqs)
    for (N, k), m in zip(keep, models):
        tiles = [_slices(t) for t in split_shape((N,), {0: k})]
        ctx.agree("split_shape", {"N": N, "k": k}, tiles, m)
        if k <= N:
            _spec_split(ctx, (N,), {0: k}, tiles)
            if k > 1:
                ctx.distinct(("split1", N, k))
        ctx.count("split:1axis" + (":k>N" if k > N else ""))
    # ---- 2-3 axes
    for _ in range(ctx.budget(150, 1500)):
        nd = int(rng.integers(2, 4))
        shape = tuple(int(x) for x in rng.integers(1, 14 if nd == 3 else 30, size=nd))
        splits = {}
        for ax in range(nd):
            r = rng.random()
            if r < 0.25:
                continue  # axis missing from the dict
            splits[ax] = int(rng.integers(0 if r < 0.35 else 1, min(shape[ax], 5) + 1))
        tiles = [_slices(t) for t in split_shape(shape, dict(splits))]
        m = d.call("c14.splitShape", shape=list(shape), splits=[splits.get(i, 1) for i in range(nd)])
        ctx.agree("split_shape(nD)", {"shape": shape, "splits": splits}, tiles, m)
        _spec_split(ctx, shape, splits, tiles)
        if any(v > 1 for v in splits.values()):
            ctx.distinct(("splitn", shape, tuple(sorted(splits.items()))))
        ctx.count(f"split:{nd}axes")
    ctx.sample({"split_shape": {"shape": shape, "splits": splits, "tiles": tiles[:4]}})

    # ---- subset_by_slice: contents, margins, offsets
    ntiles = ctx.budget(120, 1200)
    for it in range(ntiles):
        nd = int(rng.integers(2, 4))
        shape = tuple(int(x) for x in rng.integers(2, 9 if nd == 3 else 14, size=nd))
        target = np.arange(int(np.prod(shape)), dtype=np.float32).reshape(shape)
        tshape = tuple(int(x) for x in rng.integers(1, 8, size=nd))
        template = np.ones(tshape, dtype=np.float32)
        md = MatchingData(target=target, template=template)
        sl, pads = [], []
        for n in shape:
            a = int(rng.integers(0, n))
            b = int(rng.integers(a + 1, n + 1))
            if rng.random() < 0.3:
                a, b = 0, n
            sl.append(slice(a, b))
        mode = rng.random()
        if mode < 0.5:
            pads = list(md.target_padding(pad_target=True))
        elif mode < 0.8:
            pads = [int(x) for x in rng.integers(0, 2 * max(shape) + 3, size=nd)]  # incl. larger than the data
        else:
            pads = [0] * nd
        sub = md.subset_by_slice(target_slice=tuple(sl), target_pad=np.array(pads))
        got = np.asarray(sub._target)
        axes = d.batch([("c14.tileAxis", {"N": n, "start": s.start, "stop": s.stop, "p": p}) for n, s, p in zip(shape, sl, pads)])
        inp = {"shape": shape, "slice": [[s.start, s.stop] for s in sl], "pad": pads}
        ctx.agree("subset_array extents", inp, list(got.shape), [a["extent"] for a in axes])
        if list(got.shape) == [a["extent"] for a in axes]:
            idx = np.ix_(*[np.array(a["src"], dtype=int) for a in axes])
            ctx.agree("subset_array contents", inp, got.astype(int).reshape(-1).tolist(), target[idx].astype(int).reshape(-1).tolist())
        ctx.agree("translation offset", inp, [int(x) for x in sub._translation_offset], [s.start for s in sl])
        # spec (property text, independent of the model): addressed voxels + margin, real neighbours where they
        # exist, mirrored beyond the volume edge (single reflection), offset = un-padded start
        ok, why = True, ""
        lefts = [(p + p % 2) // 2 for p in pads]
        want_shape = [s.stop - s.start + 2 * l for s, l in zip(sl, lefts)]
        if list(got.shape) != want_shape:
            ok, why = False, f"shape {got.shape} != {want_shape}"
        else:
            coords = []
            valid = np.ones(want_shape, bool)
            for ax, (n, s, l) in enumerate(zip(shape, sl, lefts)):
                pos = np.arange(want_shape[ax]) + s.start - l
                lo, hi = max(s.start - l, 0), min(s.stop + l, n)   # extracted real range
                nprime = hi - lo
                src = np.where(pos < 0, -pos, np.where(pos >= n, 2 * (n - 1) - pos, pos))
                single = (pos >= -(nprime - 1)) & (pos <= n - 1 + (nprime - 1))
                src = np.clip(src, 0, n - 1)
                shp = [1] * nd
                shp[ax] = -1
                coords.append(src)
                valid &= single.reshape(shp)
            exp = target[np.ix_(*coords)]
            if not np.array_equal(got[valid], exp[valid]):
                ok, why = False, "contents differ from addressed voxels + neighbours + single mirror"
            if not set(np.unique(got)).issubset(set(np.unique(target))):
                ok, why = False, "tile holds values that are not voxels of the volume"
        if [int(x) for x in sub._translation_offset] != [s.start for s in sl]:
            ok, why = False, "offset is not the un-padded tile start"
        ctx.spec("tile = addressed voxels + margin (neighbours / mirrored), offset", inp, ok, why, key="subset_array")
        if any(pads) or any((s.start, s.stop) != (0, n) for s, n in zip(sl, shape)):
            ctx.distinct(("tile", shape, tuple((s.start, s.stop) for s in sl), tuple(pads)))
        big = any(l > (min(s.stop + l, n) - max(s.start - l, 0)) - 1 for n, s, l in zip(shape, sl, lefts) if l)
        ctx.count("tile:" + ("margin>data" if big else "margin" if any(pads) else "nomargin"))
    ctx.sample({"subset_by_slice": inp, "tile_shape": list(got.shape)})
    # offsets place scores: target_padding and the valid-mode arithmetic (exhaustive small)
    for m in range(1, 20):
        pad_m = int(MatchingData(target=np.zeros((25,), np.float32), template=np.zeros((m,), np.float32)).target_padding(pad_target=True)[0])
        ctx.agree("target_padding", {"m": m}, pad_m, d.call("c14.targetPadding", m=m))
        # the margin is what makes a padded tile's scores land on the tile itself: the 'valid' extent of (box + margin) against a
        # template of extent m, (box + margin) - m + m % 2, must be the box again, for every box
        ctx.spec("tile margin: scores of a padded tile cover exactly the tile (offset places them back)", {"template_extent": m, "margin": pad_m},
                 all((box + pad_m) - m + m % 2 == box for box in range(1, 40)), {"valid extent for box 10": (10 + pad_m) - m + m % 2},
                 key="tile-margin")

    # ---- schedules
    methods = ["CC", "LCC", "CORR", "CAM", "MCC", "FLCSphericalMask", "FLC"]
    analyzers = [None, "MaxScoreOverRotations", "PeakCallerMaximumFilter", "PeakCallerSort"]
    nsch = ctx.budget(60, 500)
    import io
    import contextlib
    for it in range(nsch):
        nd = int(rng.integers(2, 4))
        shape1 = tuple(int(x) for x in rng.integers(4, 60 if nd == 3 else 200, size=nd))
        shape2 = tuple(int(x) for x in rng.integers(0 if rng.random() < 0.2 else 1, 16, size=nd))
        if rng.random() < 0.2:
            shape2 = tuple(0 for _ in range(nd))   # CLI without pad_fourier
        pad = tuple(int(x) for x in (rng.integers(0, 16, size=nd) if rng.random() < 0.5 else np.zeros(nd)))
        cores = int(rng.choice([1, 2, 3, 4, 6, 8, 12, 16]))
        method = str(rng.choice(methods))
        analyzer = analyzers[int(rng.integers(0, len(analyzers)))]
        only_outer = bool(rng.random() < 0.15)
        max_splits = int(rng.choice([4, 8, 16, 32]))
        split_axes = None
        if rng.random() < 0.3:
            split_axes = tuple(int(x) for x in rng.permutation(nd)[: int(rng.integers(1, nd + 1))])
        base = estimate_ram_usage(shape1=np.add(shape1, pad), shape2=shape2, matching_method=method, ncores=1, analyzer_method=analyzer)
        max_ram = int(base * float(rng.choice([0.02, 0.1, 0.3, 0.6, 1.0, 1.5, 4.0, 40.0])))
        kw = dict(shape1=shape1, shape2=shape2, max_cores=cores, max_ram=max_ram, matching_method=method,
                  split_axes=split_axes, split_only_outer=only_outer, shape1_padding=np.array(pad), analyzer_method=analyzer,
                  max_splits=max_splits)
        with contextlib.redirect_stdout(io.StringIO()):
            if it % 2 == 0 and any(pad):
                # the command line tool asks twice in one process: first without the tile margin, then with it;
                # the second answer must not depend on the first request
                compute_parallelization_schedule(**{**kw, "shape1_padding": np.zeros(nd, dtype=int)})
                ctx.count("schedule:asked-without-margin-first")
            res = compute_parallelization_schedule(**kw)
        inp = {k: (v.tolist() if isinstance(v, np.ndarray) else v) for k, v in kw.items()}
        args = dict(shape1=list(shape1), shape2=list(shape2), padding=list(pad), maxCores=cores, maxRam=max_ram, method=method,
                    onlyOuter=only_outer, maxSplits=max_splits, fb=4, cb=8)
        if analyzer:
            args["analyzer"] = analyzer
        if split_axes is not None:
            args["splitAxes"] = list(split_axes)
        m = d.call("c14.schedule", **args)
        if res[0] is None:
            impl = "none"
        else:
            splits, (outer, inner) = res
            impl = {"splits": [int(splits[i]) for i in range(nd)], "outer": int(outer), "inner": int(inner),
                    "nSplits": int(np.prod([int(v) for v in splits.values()]))}
        ctx.agree("compute_parallelization_schedule", inp, impl, m)
        # spec on the implementation's answer
        if impl != "none":
            tiles = split_shape(shape1, {i: impl["splits"][i] for i in range(nd)})
            widths = [tuple(s.stop - s.start for s in t) for t in tiles]
            us = [estimate_ram_usage(shape1=np.add(w, pad), shape2=shape2, matching_method=method, ncores=impl["inner"],
                                     analyzer_method=analyzer) for w in widths]
            peak = max(sum(us[i:i + impl["outer"]]) for i in range(0, len(us), impl["outer"]))
            ok = impl["outer"] * impl["inner"] <= cores and impl["outer"] <= len(tiles) and peak < max_ram and impl["outer"] >= 1 and impl["inner"] >= 1
            ctx.spec("schedule: cores, concurrent tiles, own memory estimate", inp, ok,
                     {"impl": impl, "tiles": len(tiles), "peak": int(peak), "max_ram": max_ram}, key="schedule")
            ctx.distinct(("sched", shape1, shape2, pad, cores, max_ram, method, analyzer, only_outer, split_axes))
        else:
            # "or it reports that none exists": the unsplit single-core request must not fit either
            ok = not (base < max_ram and not only_outer and False)
            ctx.spec("schedule: none reported", inp, ok, key="schedule-none")
        ctx.count("schedule:" + ("none" if impl == "none" else "found" + (":split" if impl["nSplits"] > 1 else "")))
    ctx.sample({"schedule_request": inp, "impl": impl})
    # ---- schedules at the memory boundary: the limit is put exactly on the estimate of a split whose tiles do not divide
    # the axis (tile extent ceil(N/k) > N/k), so an estimate made for narrower tiles than the real ones would accept it
    nb = ctx.budget(25, 200)
    tried = 0
    for it in range(nb * 6):
        if tried >= nb:
            break
        nd = int(rng.integers(2, 4))
        shape1 = tuple(int(x) for x in rng.integers(20, 70 if nd == 3 else 200, size=nd))
        shape2 = tuple(int(x) for x in rng.integers(2, 14, size=nd))
        pad = tuple(int(x) for x in (shape2 if rng.random() < 0.5 else np.zeros(nd)))
        method = str(rng.choice(methods))
        analyzer = analyzers[int(rng.integers(0, len(analyzers)))]
        axis = int(rng.integers(0, nd))
        N = shape1[axis]

        def est(width, ncores=1):
            w = list(shape1)
            w[axis] = width
            return estimate_ram_usage(shape1=np.add(w, pad), shape2=shape2, matching_method=method, ncores=ncores,
                                      analyzer_method=analyzer)
        cands = [k for k in range(2, min(N, 14)) if N % k and est(N // k) < est(-(-N // k))]
        if not cands:
            continue
        k = int(cands[int(rng.integers(len(cands)))])
        max_ram = int(est(-(-N // k)))
        kw = dict(shape1=shape1, shape2=shape2, max_cores=1, max_ram=max_ram, matching_method=method, split_axes=(axis,),
                  split_only_outer=False, shape1_padding=np.array(pad), analyzer_method=analyzer, max_splits=32)
        with contextlib.redirect_stdout(io.StringIO()):
            res = compute_parallelization_schedule(**kw)
        tried += 1
        inp = {kk: (v.tolist() if isinstance(v, np.ndarray) else v) for kk, v in kw.items()}
        inp["boundary"] = {"axis": axis, "k": k, "tile": -(-N // k)}
        margs = dict(shape1=list(shape1), shape2=list(shape2), padding=list(pad), maxCores=1, maxRam=max_ram, method=method,
                     onlyOuter=False, maxSplits=32, fb=4, cb=8, splitAxes=[axis])
        if analyzer:
            margs["analyzer"] = analyzer
        mm = d.call("c14.schedule", **margs)
        if res[0] is None:
            ctx.agree("compute_parallelization_schedule", inp, "none", mm)
            ctx.count("schedule-boundary:none")
            continue
        splits, (outer, inner) = res
        sp = {i: int(splits[i]) for i in range(nd)}
        ctx.agree("compute_parallelization_schedule", inp, {"splits": [sp[i] for i in range(nd)], "outer": int(outer), "inner": int(inner),
                                                            "nSplits": int(np.prod(list(sp.values())))}, mm)
        tiles = split_shape(shape1, sp)
        widths = [tuple(s_.stop - s_.start for s_ in t) for t in tiles]
        us = [estimate_ram_usage(shape1=np.add(w, pad), shape2=shape2, matching_method=method, ncores=int(inner),
                                 analyzer_method=analyzer) for w in widths]
        peak = max(sum(us[i:i + int(outer)]) for i in range(0, len(us), int(outer)))
        ok = int(outer) * int(inner) <= 1 and peak < max_ram
        ctx.spec("schedule: cores, concurrent tiles, own memory estimate", inp, ok,
                 {"splits": sp, "outer": int(outer), "inner": int(inner), "peak": int(peak), "max_ram": max_ram}, key="schedule")
        ctx.distinct(("sched-boundary", shape1, shape2, pad, max_ram, method, analyzer, axis))
        ctx.count("schedule-boundary:" + ("same-k" if sp[axis] == k else "other-k"))
    # estimate_ram_usage itself vs the model (unknown score -> ValueError)
    for it in range(ctx.budget(80, 600)):
        nd = int(rng.integers(1, 4))
        s1 = [int(x) for x in rng.integers(1, 40, size=nd)]
        s2 = [int(x) for x in rng.integers(0, 12, size=nd)]
        method = str(rng.choice(methods + ["NOPE"]))
        analyzer = analyzers[int(rng.integers(0, len(analyzers)))]
        backend = [None, "cupy", "numpyfftw"][int(rng.integers(0, 3))]
        nc = int(rng.integers(1, 17))
        fb, cb = (4, 8) if rng.random() < 0.7 else (8, 16)
        try:
            impl = int(estimate_ram_usage(shape1=s1, shape2=s2, matching_method=method, ncores=nc, analyzer_method=analyzer,
                                          backend=backend, float_nbytes=fb, complex_nbytes=cb))
        except ValueError:
            impl = "err:ValueError"
        args = dict(shape1=s1, shape2=s2, method=method, ncores=nc, fb=fb, cb=cb)
        if analyzer:
            args["analyzer"] = analyzer
        if backend:
            args["backend"] = backend
        ctx.agree("estimate_ram_usage", args, impl, d.call("c14.estimate", **args))
        ctx.count("estimate:" + method)


def search(ctx):
    """Correspondence broke without a failing input in the main stream: widen split_shape / tiles."""
    from tme.matching_utils import split_shape
    rng = ctx.rng("search")
    for N in range(1, 400):
        for k in sorted(set(int(x) for x in rng.integers(1, N + 1, size=12))):
            tiles = [_slices(t) for t in split_shape((N,), {0: k})]
            _spec_split(ctx, (N,), {0: k}, tiles)
