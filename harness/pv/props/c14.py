"""C14 — tiling covers every voxel in bounds; tile contents/offsets; schedules respect the limits."""
import contextlib
import io
import operator
import os
import types

import numpy as np

ID = "C14"
RULE = ("split_shape exhaustively for all (N, k<=N) up to a bound plus k>N, 2-3 axis products with every container / integer type "
        "the callers use (tuple, list, ndarray, numpy integers, splits handed back from a schedule, the block-wise peak finder's "
        "N//d requests), extents up to 2^26 and the unequal-extent variant; subset_by_slice on random tiles/margins incl. margins "
        "larger than the remaining data, contents decoded through an index-valued target, for every kind of matching data the API "
        "accepts (C/Fortran/strided/reversed/offset/read-only arrays, five dtypes, numpy.memmap with offset / Fortran order / views, "
        "Density in memory and memory-mapped from an MRC file), target masks, template sub-boxes, inverted targets, default "
        "arguments, several tiles cut from one object in sequence, and whole tilings reassembled from their valid crops; "
        "schedules for random (shape, template, cores, memory, score, analyzer, backend, byte widths, split axes, default and given "
        "max_splits) requests, sessions of requests sharing their shapes, limits placed exactly on an estimate, and the command "
        "line tool's compute_schedule. distinct = distinct request tuples; k=1 splits and zero-margin whole-volume tiles are "
        "trivial and not counted")
ASSUMPTIONS = ["np.ceil(N/k) is exact for the extents explored (float64 division of integers below 2^53)",
               "the schedule's memory clause is about the search's *own* estimate (estimate_ram_usage), as the property states",
               "an inverted target (invert_target=True) is expected to hold the negated voxels at the same positions"]
TRUSTED = ["C14: numpy.pad(mode='reflect') semantics are modelled by reflectIdx and validated here against real tiles"]

_quiet = contextlib.redirect_stdout


def _extract_mem_table():
    from tme.memory import MATCHING_MEMORY_REGISTRY
    out = []
    for name, cls in MATCHING_MEMORY_REGISTRY.items():
        def probe(R, C, fb, cb):
            o = cls(fast_shape=(R,), ft_shape=(C,), float_nbytes=fb, complex_nbytes=cb, integer_nbytes=4)
            return int(o.base_usage()), int(o.per_fork())
        basis = [(1, 0, 1, 0), (1, 0, 0, 1), (0, 1, 1, 0), (0, 1, 0, 1)]
        vals = [probe(*b) for b in basis]
        base = [v[0] for v in vals]
        fork = [v[1] for v in vals]
        # linearity check on a generic probe
        R, C, fb, cb = 7, 5, 4, 8
        pb, pf = probe(R, C, fb, cb)
        eb = base[0] * R * fb + base[1] * R * cb + base[2] * C * fb + base[3] * C * cb
        ef = fork[0] * R * fb + fork[1] * R * cb + fork[2] * C * fb + fork[3] * C * cb
        out.append({"name": name, "base": base, "fork": fork, "bilinear": (pb, pf) == (eb, ef)})
    return out


def _call(fn, *a, **kw):
    """run library code; an exception is an outcome (the kind is part of it), never a crash of the check"""
    try:
        with _quiet(io.StringIO()):
            return True, fn(*a, **kw)
    except SystemExit as e:
        return False, f"SystemExit({e.code})"
    except Exception as e:  # noqa
        return False, f"{type(e).__name__}: {str(e)[:160]}"


def _slices(t):
    return [[int(s.start), int(s.stop)] for s in t]


def _tiles_wellformed(tiles, nd):
    """every tile is a tuple of nd slice objects with integral bounds and no (or unit) step"""
    for t in tiles:
        if not isinstance(t, tuple) or len(t) != nd:
            return f"tile {t!r} is not a {nd}-tuple"
        for s in t:
            if not isinstance(s, slice) or s.step not in (None, 1):
                return f"{s!r} is not a plain slice"
            for v in (s.start, s.stop):
                if isinstance(v, (bool, np.bool_)):
                    return f"{s!r} has a boolean bound"
                try:
                    operator.index(v)
                except TypeError:
                    return f"{s!r} has a non-integral bound ({type(v).__name__})"
    return ""


def _spec_split(ctx, shape, splits, tiles, key="split_shape:tiles", extra=None):
    """property clause: non-empty, in-bounds boxes of equal extent whose union is the whole shape;
    as many as requested"""
    shape = tuple(int(x) for x in shape)
    ks = [max(int(splits.get(i, 1)), 1) for i in range(len(shape))]
    ok = len(tiles) == int(np.prod(ks))
    why = "" if ok else f"{len(tiles)} tiles for {ks} parts"
    cover = np.zeros(shape, bool)
    ext0 = None
    for t in tiles:
        if not ok:
            break
        ext = tuple(b - a for a, b in t)
        if any(a < 0 or b > n or a >= b for (a, b), n in zip(t, shape)):
            ok, why = False, f"tile {t} empty or out of bounds"
            break
        if ext0 is None:
            ext0 = ext
        if ext != ext0:
            ok, why = False, f"unequal extents {ext} vs {ext0}"
            break
        cover[tuple(slice(a, b) for a, b in t)] = True
    if ok and not cover.all():
        ok, why = False, "union is not the whole shape"
    inp = {"shape": list(shape), "splits": {str(k): int(v) for k, v in splits.items()}}
    if extra:
        inp.update(extra)
    return ctx.spec("tiles: non-empty, in bounds, equal extent, cover", inp, ok, why, key=key)


def _spec_split_long(ctx, N, k, tiles, extra=None):
    """the same clause for one long axis, by interval arithmetic (no array of N voxels)"""
    ok, why = True, ""
    if len(tiles) != k:
        ok, why = False, f"{len(tiles)} tiles for {k} parts"
    else:
        L = tiles[0][1] - tiles[0][0]
        reach = 0
        for a, b in sorted(tiles):
            if a < 0 or b > N or a >= b:
                ok, why = False, f"tile {[a, b]} empty or out of bounds"
                break
            if b - a != L:
                ok, why = False, f"unequal extents {b - a} vs {L}"
                break
            if a > reach:
                ok, why = False, f"voxels {reach}..{a - 1} in no tile"
                break
            reach = max(reach, b)
        if ok and reach != N:
            ok, why = False, f"voxels {reach}..{N - 1} in no tile"
    inp = {"shape": [N], "splits": {"0": k}}
    if extra:
        inp.update(extra)
    return ctx.spec("tiles: non-empty, in bounds, equal extent, cover", inp, ok, why, key="split_shape:tiles")


def _spec_split_unequal(ctx, shape, ks, tiles):
    """equal_shape=False: as many boxes as requested, non-empty, in bounds, disjoint, union = shape"""
    ok = len(tiles) == int(np.prod(ks))
    why = "" if ok else f"{len(tiles)} tiles for {ks} parts"
    cover = np.zeros(shape, np.int32)
    for t in tiles:
        if not ok:
            break
        if any(a < 0 or b > n or a >= b for (a, b), n in zip(t, shape)):
            ok, why = False, f"tile {t} empty or out of bounds"
            break
        cover[tuple(slice(a, b) for a, b in t)] += 1
    if ok and not (cover == 1).all():
        ok, why = False, "tiles overlap or leave voxels out"
    return ctx.spec("tiles (equal_shape=False): non-empty, in bounds, disjoint, cover", {"shape": list(shape), "splits": list(ks)},
                    ok, why, key="split_shape:unequal")


# ------------------------------------------------------------------------------------------------ split_shape

def _as_shape(rng, shape):
    r = int(rng.integers(0, 5))
    if r == 0:
        return tuple(shape), "tuple"
    if r == 1:
        return list(shape), "list"
    if r == 2:
        return np.array(shape, dtype=np.int64), "int64-array"
    if r == 3:
        return np.array(shape, dtype=np.int32), "int32-array"
    return tuple(np.int64(x) for x in shape), "numpy-ints"


def _as_count(rng, k):
    r = int(rng.integers(0, 3))
    return (int(k), np.int64(k), np.int32(k))[r]


def _run_split(ctx, d, rng):
    from tme.matching_utils import split_shape
    # ---- one axis, exhaustive
    NB = ctx.budget(64, 256)
    reqs, keep = [], []
    for N in range(1, NB + 1):
        for k in range(1, N + 1):
            reqs.append(("c14.splitShape", {"shape": [N], "splits": [k]}))
            keep.append((N, k))
    for N in range(1, 12):  # more parts than voxels
        for k in range(N + 1, N + 5):
            reqs.append(("c14.splitShape", {"shape": [N], "splits": [k]}))
            keep.append((N, k))
    models = d.batch(reqs)
    for (N, k), m in zip(keep, models):
        ok, tl = _call(split_shape, (N,), {0: k})
        if not ok:
            ctx.spec("tiles: non-empty, in bounds, equal extent, cover", {"shape": [N], "splits": {"0": k}}, k > N, tl, key="split_shape:tiles")
            continue
        tiles = [_slices(t) for t in tl]
        ctx.agree("split_shape", {"N": N, "k": k}, tiles, m)
        if k <= N:
            _spec_split(ctx, (N,), {0: k}, tiles)
            if k > 1:
                ctx.distinct(("split1", N, k))
        ctx.count("split:1axis" + (":k>N" if k > N else ""))
    # ---- 1-3 axes; containers and integer types of the callers; part counts up to the extent and beyond; keys that are
    # missing, zero, negative or name no axis; the caller's dict and shape stay as they were
    for it in range(ctx.budget(300, 3000)):
        nd = int(rng.integers(1, 4))
        hi = {1: 60, 2: 30, 3: 14}[nd]
        shape = tuple(int(x) for x in rng.integers(1, hi, size=nd))
        splits = {}
        beyond = False
        for ax in range(nd):
            r = rng.random()
            if r < 0.2:
                continue  # axis missing from the dict
            if r < 0.3:
                k = int(rng.choice([0, -1, -3]))
            elif r < 0.55:
                k = int(rng.integers(1, min(shape[ax], 5) + 1))
            elif r < 0.93:
                k = int(rng.integers(1, shape[ax] + 1))
            else:
                k = shape[ax] + int(rng.integers(1, 4))
                beyond = True
            splits[ax] = _as_count(rng, k)
        if rng.random() < 0.15:
            splits[nd + int(rng.integers(0, 2))] = 3  # names no axis of this shape
        if rng.random() < 0.25:
            d_ = int(rng.integers(1, 9))  # the block-wise peak finder: N // min_distance parts on every axis
            splits = {i: x // d_ for i, x in enumerate(shape)}
            beyond = False
            ctx.count("split:peak-finder-request")
        if rng.random() < 0.4:
            splits = {k: splits[k] for k in rng.permutation(list(splits.keys())).tolist()}   # a dict is not ordered by axis
        shp, kind = _as_shape(rng, shape)
        before = (dict(splits), [type(v).__name__ for v in splits.values()], [int(x) for x in shp])
        ok, tl = _call(split_shape, shp, splits)
        inp = {"shape": shape, "splits": {str(k): int(v) for k, v in splits.items()}, "shape_given_as": kind}
        if not ok:
            ctx.spec("tiles: non-empty, in bounds, equal extent, cover", inp, False, tl, key="split_shape:tiles")
            continue
        bad = _tiles_wellformed(tl, nd)
        after = (dict(splits), [type(v).__name__ for v in splits.values()], [int(x) for x in shp])
        ctx.spec("tiles are plain index boxes; the request is left as it was", inp, not bad and before == after,
                 bad or {"before": before, "after": after}, key="split_shape:boxes")
        if bad:
            continue
        tiles = [_slices(t) for t in tl]
        m = d.call("c14.splitShape", shape=list(shape), splits=[max(int(splits.get(i, 1)), 0) for i in range(nd)])
        ctx.agree("split_shape(nD)", inp, tiles, m)
        if not beyond:
            _spec_split(ctx, shape, {k: int(v) for k, v in splits.items() if k < nd}, tiles, extra={"shape_given_as": kind})
        if any(int(v) > 1 for v in splits.values()):
            ctx.distinct(("splitn", shape, tuple(sorted((int(k), int(v)) for k, v in splits.items()))))
        ctx.count(f"split:{nd}axes" + (":k>N" if beyond else ""))
        ctx.count("split:shape-as-" + kind)
    ctx.sample({"split_shape": inp, "tiles": tiles[:4]})
    # ---- long axes (the float division behind ceil(N/k) must stay exact), many parts
    for it in range(ctx.budget(60, 400)):
        e = rng.random()
        N = int(rng.integers(1000, 100000)) if e < 0.3 else int(rng.integers(10 ** 5, 2 ** 24)) if e < 0.55 else int(rng.integers(2 ** 24, 2 ** 26))
        r = rng.random()
        if N >= 2 ** 22 and r < 0.55:
            k = int(rng.integers(2, 13))   # quotients that single precision cannot tell from the next integer
        elif r < 0.4:
            k = int(rng.integers(2, 60))
        elif r < 0.7:
            k = int(rng.integers(60, 3000))
        else:
            q = int(rng.integers(2, 3000))  # N just above / below a multiple of k
            k = max(2, min(3000, N // q + int(rng.integers(-1, 2))))
        ok, tl = _call(split_shape, (N,), {0: k})
        if not ok:
            ctx.spec("tiles: non-empty, in bounds, equal extent, cover", {"shape": [N], "splits": {"0": k}}, False, tl, key="split_shape:tiles")
            continue
        tiles = [_slices(t)[0] for t in tl]
        _spec_split_long(ctx, N, k, tiles)
        if k <= 400:
            m = d.call("c14.splitShape", shape=[N], splits=[k])
            ctx.agree("split_shape", {"N": N, "k": k}, [[t] for t in tiles], m)
        ctx.distinct(("split-long", N, k))
        ctx.count("split:long-axis")
    for N in (2 ** 24 + 1, 2 ** 24 + 3, 2 ** 25 + 1, 2 ** 25 + 6, 2 ** 26 - 1, 2 ** 26 + 10, 3 * 2 ** 24 + 5):
        for k in (2, 3, 4, 5, 7, 8):
            ok, tl = _call(split_shape, (N,), {0: k})
            if not ok:
                ctx.spec("tiles: non-empty, in bounds, equal extent, cover", {"shape": [N], "splits": {"0": k}}, False, tl, key="split_shape:tiles")
                continue
            _spec_split_long(ctx, N, k, [_slices(t)[0] for t in tl])
            ctx.distinct(("split-long", N, k))
            ctx.count("split:long-axis")
    # ---- equal_shape=False (extent floor(N/k), the last box takes the remainder)
    NU = ctx.budget(24, 64)
    reqs, keep = [], []
    for N in range(1, NU + 1):
        for k in range(1, N + 3):
            reqs.append(("c14.splitShapeU", {"shape": [N], "splits": [k]}))
            keep.append(((N,), (k,)))
    for it in range(ctx.budget(40, 300)):
        nd = int(rng.integers(2, 4))
        shape = tuple(int(x) for x in rng.integers(1, 12, size=nd))
        ks = tuple(int(rng.integers(1, s + 1)) for s in shape)
        reqs.append(("c14.splitShapeU", {"shape": list(shape), "splits": list(ks)}))
        keep.append((shape, ks))
    models = d.batch(reqs)
    for (shape, ks), m in zip(keep, models):
        ok, tl = _call(split_shape, shape, {i: k for i, k in enumerate(ks)}, equal_shape=False)
        fits = all(k <= n for k, n in zip(ks, shape))
        if not ok:
            ctx.spec("tiles (equal_shape=False): non-empty, in bounds, disjoint, cover", {"shape": list(shape), "splits": list(ks)},
                     not fits, tl, key="split_shape:unequal")
            continue
        tiles = [_slices(t) for t in tl]
        ctx.agree("split_shape(equal_shape=False)", {"shape": shape, "splits": ks}, tiles, m)
        if fits:
            _spec_split_unequal(ctx, shape, ks, tiles)
            if any(k > 1 for k in ks):
                ctx.distinct(("splitU", shape, ks))
        ctx.count("split:unequal" + ("" if fits else ":k>N"))


# ------------------------------------------------------------------------------------------------ tiles

_TARGET_KINDS = ["c", "c", "fortran", "strided", "reversed", "offset-view", "read-only", "memmap", "memmap-offset", "memmap-fortran",
                 "memmap-view", "memmap-r+", "density", "density-memmap", "density-memmap.data"]
_DTYPES = [np.float32, np.float32, np.float64, np.int32, np.int64, np.int16]
_fileno = [0]


def _scratch_file(suffix):
    from pv import env
    _fileno[0] += 1
    return os.path.join(env.scratch(), f"c14_{os.getpid()}_{_fileno[0]}{suffix}")


def _make_array(vals, kind):
    """`vals` (C-contiguous) presented the way `kind` says; the values seen through the result are those of `vals`"""
    from tme import Density
    shape, dt = vals.shape, vals.dtype
    nd = vals.ndim
    if kind == "c":
        return vals.copy()
    if kind == "fortran":
        return np.asfortranarray(vals)
    if kind == "strided":
        big = np.full(tuple(2 * s for s in shape), -7, dtype=dt)
        view = big[tuple(slice(None, None, 2) for _ in shape)]
        view[...] = vals
        return view
    if kind == "reversed":
        return np.flip(np.flip(vals).copy())
    if kind == "offset-view":
        big = np.full(tuple(s + 3 for s in shape), -7, dtype=dt)
        view = big[tuple(slice(2, s + 2) for s in shape)]
        view[...] = vals
        return view
    if kind == "read-only":
        a = vals.copy()
        a.setflags(write=False)
        return a
    if kind in ("memmap", "memmap-r+"):
        fn = _scratch_file(".bin")
        vals.tofile(fn)
        return np.memmap(fn, dtype=dt, mode="r" if kind == "memmap" else "r+", shape=shape)
    if kind == "memmap-offset":
        fn = _scratch_file(".bin")
        head = 3 * dt.itemsize + 1024
        with open(fn, "wb") as f:
            f.write(bytes(range(256)) * (head // 256) + bytes(head % 256))
            f.write(vals.tobytes())
        return np.memmap(fn, dtype=dt, mode="r", offset=head, shape=shape)
    if kind == "memmap-fortran":
        fn = _scratch_file(".bin")
        vals.ravel(order="F").tofile(fn)
        return np.memmap(fn, dtype=dt, mode="r", shape=shape, order="F")
    if kind == "memmap-view":
        fn = _scratch_file(".bin")
        big = np.full(tuple(s + 3 for s in shape), -7, dtype=dt)
        big[tuple(slice(2, s + 2) for s in shape)] = vals
        big.tofile(fn)
        return np.memmap(fn, dtype=dt, mode="r", shape=big.shape)[tuple(slice(2, s + 2) for s in shape)]
    if kind == "density":
        return Density(vals.copy(), origin=np.zeros(nd), sampling_rate=np.ones(nd))
    if kind in ("density-memmap", "density-memmap.data"):
        fn = _scratch_file((".mrc", ".mrc", ".em", ".h5")[_fileno[0] % 4])
        Density(vals.copy(), origin=np.zeros(nd), sampling_rate=np.ones(nd)).to_file(fn)
        dens = Density.from_file(fn, use_memmap=True)
        return dens if kind == "density-memmap" else dens.data
    raise ValueError(kind)


def _plain(a):
    from tme import Density
    return np.asarray(a.data if isinstance(a, Density) else a)


def _expect_tile(vol, sl, pads):
    """the property's reading, independent of the model: extent = addressed + 2*margin; wherever the position lies in the
    volume, that voxel; beyond an edge the mirrored voxel (as far as a single reflection of the extracted range reaches)"""
    shape = vol.shape
    nd = vol.ndim
    lefts = [(p + p % 2) // 2 for p in pads]
    want_shape = [s.stop - s.start + 2 * l for s, l in zip(sl, lefts)]
    coords = []
    valid = np.ones(want_shape, bool)
    for ax, (n, s, l) in enumerate(zip(shape, sl, lefts)):
        pos = np.arange(want_shape[ax]) + s.start - l
        lo, hi = max(s.start - l, 0), min(s.stop + l, n)   # extracted real range
        nprime = hi - lo
        src = np.where(pos < 0, -pos, np.where(pos >= n, 2 * (n - 1) - pos, pos))
        single = (pos >= -(nprime - 1)) & (pos <= n - 1 + (nprime - 1))
        src = np.clip(src, 0, n - 1)
        shp = [1] * nd
        shp[ax] = -1
        coords.append(src)
        valid &= single.reshape(shp)
    return want_shape, valid, vol[np.ix_(*coords)]


def _check_tile(ctx, d, vol, got, sl, pads, inp, what, sign=1, key="subset_array"):
    """model agreement and property clause for one extracted array.  vol: the values of the whole array (float64),
    got: the tile (ndarray), sl: python-int slices, pads: effective (non-negative) margins"""
    got = np.asarray(got).astype(np.float64) * sign
    shape = vol.shape
    axes = d.batch([("c14.tileAxis", {"N": n, "start": s.start, "stop": s.stop, "p": p}) for n, s, p in zip(shape, sl, pads)])
    ctx.agree(f"subset_array extents ({what})", inp, list(got.shape), [a["extent"] for a in axes])
    if list(got.shape) == [a["extent"] for a in axes]:
        idx = np.ix_(*[np.array(a["src"], dtype=int) for a in axes])
        ctx.agree(f"subset_array contents ({what})", inp, got.reshape(-1).tolist(), vol[idx].reshape(-1).tolist())
    want_shape, valid, exp = _expect_tile(vol, sl, pads)
    ok, why = True, ""
    if list(got.shape) != want_shape:
        ok, why = False, f"{what}: shape {list(got.shape)} != {want_shape}"
    else:
        if not np.array_equal(got[valid], exp[valid]):
            bad = np.argwhere(valid & (got != exp))
            ok, why = False, (f"{what}: contents differ from addressed voxels + neighbours + single mirror at tile index "
                              f"{bad[0].tolist()}: {got[tuple(bad[0])]} instead of {exp[tuple(bad[0])]}")
        elif not np.isin(got, vol).all():
            ok, why = False, f"{what}: tile holds values that are not voxels of the volume"
    ctx.spec("tile = addressed voxels + margin (neighbours / mirrored), offset", inp, ok, why, key=key)
    return ok


def _rand_slices(rng, shape, p_full=0.3):
    sl = []
    for n in shape:
        a = int(rng.integers(0, n))
        b = int(rng.integers(a + 1, n + 1))
        if rng.random() < p_full:
            a, b = 0, n
        sl.append(slice(a, b))
    return sl


def _run_tiles_basic(ctx, d, rng):
    """C-contiguous float32 targets, random tiles / margins (the stream of the first version)"""
    from tme.matching_data import MatchingData
    ntiles = ctx.budget(200, 1200)
    for it in range(ntiles):
        nd = int(rng.integers(1, 4))
        shape = tuple(int(x) for x in rng.integers(1 if rng.random() < 0.2 else 2, {1: 30, 2: 14, 3: 9}[nd], size=nd))
        target = np.arange(int(np.prod(shape)), dtype=np.float32).reshape(shape)
        tshape = tuple(int(x) for x in rng.integers(1, 8, size=nd))
        template = np.ones(tshape, dtype=np.float32)
        with _quiet(io.StringIO()):
            md = MatchingData(target=target, template=template)
        sl = _rand_slices(rng, shape)
        mode = rng.random()
        if mode < 0.5:
            pads = list(md.target_padding(pad_target=True))
        elif mode < 0.8:
            pads = [int(x) for x in rng.integers(0, 2 * max(shape) + 3, size=nd)]  # incl. larger than the data
        else:
            pads = [0] * nd
        inp = {"shape": shape, "slice": [[s.start, s.stop] for s in sl], "pad": pads}
        ok, sub = _call(md.subset_by_slice, target_slice=tuple(sl), target_pad=np.array(pads))
        if not ok:
            ctx.spec("tile = addressed voxels + margin (neighbours / mirrored), offset", inp, False, sub, key="subset_array")
            continue
        got = np.asarray(sub._target)
        _check_tile(ctx, d, target.astype(np.float64), got, sl, pads, inp, "target")
        off = [int(x) for x in sub._translation_offset]
        ctx.agree("translation offset", inp, off, [s.start for s in sl])
        ctx.spec("tile offset = un-padded start of the tile", inp, off == [s.start for s in sl], {"offset": off}, key="subset_array:offset")
        lefts = [(p + p % 2) // 2 for p in pads]
        if any(pads) or any((s.start, s.stop) != (0, n) for s, n in zip(sl, shape)):
            ctx.distinct(("tile", shape, tuple((s.start, s.stop) for s in sl), tuple(pads)))
        big = any(l > (min(s.stop + l, n) - max(s.start - l, 0)) - 1 for n, s, l in zip(shape, sl, lefts) if l)
        ctx.count("tile:" + ("margin>data" if big else "margin" if any(pads) else "nomargin"))
    ctx.sample({"subset_by_slice": inp})


def _as_pad(rng, pads):
    r = int(rng.integers(0, 5))
    if r == 0:
        return tuple(int(p) for p in pads), "tuple"
    if r == 1:
        return [int(p) for p in pads], "list"
    if r == 2:
        return np.array(pads, dtype=np.int64), "int64-array"
    if r == 3:
        return np.array(pads, dtype=np.int32), "int32-array"
    return tuple(np.int64(p) for p in pads), "numpy-ints"


def _run_tiles_kinds(ctx, d, rng):
    """every kind of matching data the API accepts; masks; template sub-boxes; inversion; defaults; sequences on one object"""
    from tme.matching_data import MatchingData
    nobj = ctx.budget(260, 1600)
    for it in range(nobj):
        nd = int(rng.integers(1, 4))
        kind = _TARGET_KINDS[int(rng.integers(0, len(_TARGET_KINDS)))]
        if kind.startswith("density-memmap"):
            nd = 3
        shape = tuple(int(x) for x in rng.integers(2, {1: 30, 2: 14, 3: 9}[nd], size=nd))
        size = int(np.prod(shape))
        dt = np.dtype(np.float32 if kind.startswith("density-memmap") else _DTYPES[int(rng.integers(0, len(_DTYPES)))])
        base = int(rng.choice([0, 1000, -500]))  # values far from zero, negative values
        if dt.name in ("float64", "int32", "int64") and rng.random() < 0.4:
            base = 2 ** 24 + 1   # voxels that single precision cannot hold: the tile holds the voxels, not roundings of them
        vol = (np.arange(size).reshape(shape) + base).astype(dt)
        target = _make_array(vol, kind)
        # target mask
        mkind = None
        tmask = mvol = None
        if rng.random() < 0.4:
            mkind = str(rng.choice(["c", "fortran", "memmap-offset", "density"] + (["density-memmap"] if nd == 3 else [])))
            mvol = (2 * np.arange(size).reshape(shape) + 5).astype(np.float32)
            tmask = _make_array(mvol, mkind)
        # template (+ mask)
        tshape = tuple(int(x) for x in rng.integers(1, 8, size=nd))
        tvol = (np.arange(int(np.prod(tshape))).reshape(tshape) + 3).astype(np.float32)
        tmvol = None
        if rng.random() < 0.5:
            tmvol = (3 * np.arange(int(np.prod(tshape))).reshape(tshape) + 1).astype(np.float32)
        invert = bool(rng.random() < 0.2)
        kw = dict(target=target, template=tvol.copy())
        if tmask is not None:
            kw["target_mask"] = tmask
        if tmvol is not None:
            kw["template_mask"] = tmvol.copy()
        if invert:
            kw["invert_target"] = True
        head = {"shape": shape, "target": kind, "dtype": dt.name, "value_offset": base, "target_mask": mkind, "template": tshape,
                "template_mask": tmvol is not None, "invert_target": invert}
        ok, md = _call(MatchingData, **kw)
        if not ok:
            ctx.spec("tile = addressed voxels + margin (neighbours / mirrored), offset", head, False, md, key="subset_array")
            continue
        ncalls = int(rng.integers(1, 5))
        history = []
        for c in range(ncalls):
            # a later request may leave out what an earlier one gave: the defaults are the whole array and no margin
            give_slice = rng.random() < 0.85
            give_pad = rng.random() < (0.8 if c == 0 else 0.6)
            sl = _rand_slices(rng, shape) if give_slice else [slice(0, n) for n in shape]
            mode = rng.random()
            if not give_pad:
                pads_req = [0] * nd
            elif mode < 0.45:
                pads_req = list(md.target_padding(pad_target=True))
            elif mode < 0.8:
                pads_req = [int(x) for x in rng.integers(0, 2 * max(shape) + 3, size=nd)]
            elif mode < 0.9:
                pads_req = [int(x) for x in rng.integers(-3, 6, size=nd)]  # a negative request is no margin
            else:
                pads_req = [0] * nd
            pads = [max(p, 0) for p in pads_req]
            call = {}
            np_bounds = bool(rng.random() < 0.4)
            if give_slice:
                call["target_slice"] = tuple(slice(np.int64(s.start), np.int64(s.stop)) if np_bounds else s for s in sl)
            pad_as = None
            if give_pad:
                call["target_pad"], pad_as = _as_pad(rng, pads_req)
            # template sub-box (rare: pads on the template)
            tsl = [slice(0, n) for n in tshape]
            tpads = [0] * nd
            if rng.random() < 0.35:
                tsl = _rand_slices(rng, tshape, p_full=0.4)
                call["template_slice"] = tuple(tsl)
            if rng.random() < 0.12:
                tpads = [int(x) for x in rng.integers(0, 5, size=nd)]
                call["template_pad"] = np.array(tpads)
            inp = dict(head)
            inp.update({"slice": [[s.start, s.stop] for s in sl] if give_slice else None, "pad": pads_req if give_pad else None,
                        "pad_given_as": pad_as, "numpy_slice_bounds": np_bounds and give_slice,
                        "template_slice": [[s.start, s.stop] for s in tsl] if "template_slice" in call else None,
                        "template_pad": tpads if "template_pad" in call else None, "earlier_requests_on_this_object": list(history)})
            history.append({"slice": inp["slice"], "pad": inp["pad"]})
            ok, sub = _call(md.subset_by_slice, **call)
            if not ok:
                ctx.spec("tile = addressed voxels + margin (neighbours / mirrored), offset", inp, False, sub, key="subset_array")
                continue
            sign = -1 if invert else 1
            good = _check_tile(ctx, d, vol.astype(np.float64), _plain(sub._target), sl, pads, inp, "target", sign=sign,
                               key="subset_array:inverted" if invert else "subset_array")
            if mvol is not None:
                good &= _check_tile(ctx, d, mvol.astype(np.float64), _plain(sub._target_mask), sl, pads, inp, "target mask")
            elif getattr(sub, "_target_mask", None) is not None:
                ctx.spec("tile = addressed voxels + margin (neighbours / mirrored), offset", inp, False, "a target mask appeared", key="subset_array")
            good &= _check_tile(ctx, d, tvol.astype(np.float64), _plain(sub._template), tsl, tpads, inp, "template", key="subset_array:template")
            if tmvol is not None:
                good &= _check_tile(ctx, d, tmvol.astype(np.float64), _plain(sub._template_mask), tsl, tpads, inp, "template mask",
                                    key="subset_array:template")
            else:
                tm = _plain(sub._template_mask)
                ctx.spec("tile = addressed voxels + margin (neighbours / mirrored), offset", inp,
                         tm.shape == _plain(sub._template).shape and bool((tm == 1).all()), "default template mask of the tile is not all ones",
                         key="subset_array:template")
            off = [int(x) for x in sub._translation_offset]
            ctx.agree("translation offset", inp, off, [s.start for s in sl])
            ctx.spec("tile offset = un-padded start of the tile", inp, off == [s.start for s in sl], {"offset": off}, key="subset_array:offset")
            if give_pad and min(pads_req) >= 0 or not give_pad:
                # the margin is cropped from the scores in 'valid' mode, which is chosen through this mark
                ctx.spec("a tile that carries a margin is marked as padded (its scores are cropped back to the tile)", inp,
                         bool(getattr(sub, "_is_padded", False)) == any(p > 0 for p in pads), {"_is_padded": bool(getattr(sub, "_is_padded", False))},
                         key="subset_array:padded-mark")
            ctx.distinct(("tile-kind", kind, dt.name, shape, tuple((s.start, s.stop) for s in sl), tuple(pads_req), invert, mkind, c))
            ctx.count("tile-kind:" + kind)
            ctx.count("tile-dtype:" + dt.name)
            if not give_pad and any(h["pad"] and any(h["pad"]) for h in history[:-1]):
                ctx.count("tile:margin-left-out-after-given")
            if invert:
                ctx.count("tile:inverted")
            if mkind:
                ctx.count("tile:target-mask:" + mkind)
        # the matching data itself is as it was
        same = np.array_equal(_plain(md._target), vol) and np.array_equal(_plain(md._template), tvol)
        if mvol is not None:
            same &= np.array_equal(_plain(md._target_mask), mvol)
        ctx.spec("cutting tiles leaves the matching data unchanged", head, bool(same), key="subset_array:source-changed")
        del md, target, tmask
    ctx.sample({"subset_by_slice(kinds)": inp})


def _run_reassemble(ctx, d, rng):
    """the way scan_subsets uses the pieces: tiles from split_shape, the margin from target_padding; the valid crop of every
    padded tile, put back at the tile's offset, rebuilds the volume"""
    from tme.matching_data import MatchingData
    from tme.matching_utils import split_shape
    for it in range(ctx.budget(110, 600)):
        nd = int(rng.integers(1, 4))
        shape = tuple(int(x) for x in rng.integers(2, {1: 40, 2: 18, 3: 10}[nd], size=nd))
        tshape = tuple(int(x) for x in rng.integers(1, 10, size=nd))   # incl. templates larger than a tile / the target
        kind = str(rng.choice(["c", "fortran", "density", "memmap-offset"] + (["density-memmap"] if nd == 3 else [])))
        vol = (np.arange(int(np.prod(shape))).reshape(shape) + 11).astype(np.float32)
        stack = bool(nd > 1 and rng.random() < 0.2)   # a stack of images searched with one image-sized template
        with _quiet(io.StringIO()):
            md = MatchingData(target=_make_array(vol, kind), template=np.ones(tshape[1:] if stack else tshape, np.float32))
            if stack:
                md._set_matching_dimension(target_dims=(0,))
        if stack:
            tshape = (1,) + tshape[1:]    # along the stack every entry is matched on its own
        splits = {ax: _as_count(rng, int(rng.integers(1, min(shape[ax], 6) + 1))) for ax in range(nd) if rng.random() < 0.8}
        padded = bool(rng.random() < 0.8)
        inp = {"shape": shape, "template": tshape, "target": kind, "splits": {str(k): int(v) for k, v in splits.items()}, "pad_target": padded,
               "target_is_a_stack_along_axis_0": stack}
        ok, res = _call(lambda: (split_shape(md._target.shape, splits=splits), md.target_padding(pad_target=padded)))
        if not ok:
            ctx.spec("valid crops of the padded tiles, placed at their offsets, rebuild the volume", inp, False, res, key="tiling:reassembled")
            continue
        tiles, pad = res
        out = np.full(shape, np.nan)
        ok, why = True, ""
        for t in tiles:
            okc, sub = _call(md.subset_by_slice, target_slice=t, target_pad=pad)
            if not okc:
                ok, why = False, sub
                break
            got = _plain(sub._target).astype(np.float64)
            off = [int(x) for x in sub._translation_offset][-nd:]
            ext = [s.stop - s.start for s in t]
            if padded:
                # 'valid' scores of a (padded tile, template m): extent np - m + m % 2, score j sits on tile voxel j + (m - m % 2) // 2
                vext = [g - m + m % 2 for g, m in zip(got.shape, tshape)]
                left = [(m - m % 2) // 2 for m in tshape]
            else:
                vext, left = list(got.shape), [0] * nd
            if vext != ext:
                ok, why = False, f"tile {_slices(t)}: {vext} scores for {ext} voxels"
                break
            try:
                out[tuple(slice(o, o + e) for o, e in zip(off, ext))] = got[tuple(slice(l, l + e) for l, e in zip(left, ext))]
            except (ValueError, IndexError) as e:
                ok, why = False, f"tile {_slices(t)} with offset {off} does not fit into the volume: {e}"
                break
        if ok and not np.array_equal(out, vol.astype(np.float64)):
            bad = np.argwhere(out != vol)
            ok, why = False, f"voxel {bad[0].tolist()} rebuilt as {out[tuple(bad[0])]}, is {vol[tuple(bad[0])]}"
        ctx.spec("valid crops of the padded tiles, placed at their offsets, rebuild the volume", inp, ok, why, key="tiling:reassembled")
        if len(tiles) > 1:
            ctx.distinct(("reassemble", shape, tshape, tuple(sorted(inp["splits"].items())), padded))
        ctx.count("reassemble:" + ("padded" if padded else "plain") + (":stack" if stack else ""))


def _run_padding(ctx, d, rng):
    from tme.matching_data import MatchingData
    for m in range(1, 20):
        with _quiet(io.StringIO()):
            md = MatchingData(target=np.zeros((25,), np.float32), template=np.zeros((m,), np.float32))
        pad_m = int(md.target_padding(pad_target=True)[0])
        ctx.agree("target_padding", {"m": m}, pad_m, d.call("c14.targetPadding", m=m))
        # the margin is what makes a padded tile's scores land on the tile itself: the 'valid' extent of (box + margin) against a
        # template of extent m, (box + margin) - m + m % 2, must be the box again, for every box
        ctx.spec("tile margin: scores of a padded tile cover exactly the tile (offset places them back)", {"template_extent": m, "margin": pad_m},
                 all((box + pad_m) - m + m % 2 == box for box in range(1, 40)), {"valid extent for box 10": (10 + pad_m) - m + m % 2},
                 key="tile-margin")
        ctx.spec("no margin unless asked for", {"template_extent": m}, list(md.target_padding()) == [0] and list(md.target_padding(pad_target=False)) == [0],
                 key="tile-margin:unasked")
    # n-D, mixed parities, templates larger than the target, a batch axis on the target (entries of a batch are no neighbours)
    for it in range(ctx.budget(150, 800)):
        nd = int(rng.integers(1, 4))
        shape = tuple(int(x) for x in rng.integers(1, 20, size=nd))
        tshape = tuple(int(x) for x in rng.integers(1, 24, size=nd))
        with _quiet(io.StringIO()):
            md = MatchingData(target=np.zeros(shape, np.float32), template=np.zeros(tshape, np.float32))
        batch = [0] * nd
        r = rng.random()
        if nd > 1 and r < 0.15:
            with _quiet(io.StringIO()):   # a stack of images and one image-sized template
                md = MatchingData(target=np.zeros(shape, np.float32), template=np.zeros(tshape[1:], np.float32))
        if nd > 1 and r < 0.4:
            okb, _ = _call(md._set_matching_dimension, target_dims=(0,) if rng.random() < 0.7 else 0)
            if not okb:
                ctx.count("padding:batch-request-refused")
                continue
            batch[0] = 1
        inp = {"target": shape, "template": list(md._template.shape), "target_batch_axes": batch}
        ok, pad = _call(md.target_padding, pad_target=True)
        if not ok:
            ctx.spec("tile margin: scores of a padded tile cover exactly the tile (offset places them back)", inp, False, pad, key="tile-margin")
            continue
        ms = [int(x) for x in md._output_template_shape]
        ctx.agree("target_padding(nD)", inp, [int(p) for p in pad], d.call("c14.targetPaddingB", m=ms, batch=batch))
        okm = len(pad) == len(ms) and all(isinstance(p, int) for p in pad)
        for p, m, b in zip(pad, ms, batch):
            okm &= (p == 0) if b else all((box + p) - m + m % 2 == box for box in (1, 2, 7, 10))
        ctx.spec("tile margin: scores of a padded tile cover exactly the tile (offset places them back)", inp, bool(okm),
                 {"margin": [int(p) for p in pad], "template extents seen by the search": ms}, key="tile-margin")
        ctx.count("padding:nD" + (":batch" if any(batch) else ""))


# ------------------------------------------------------------------------------------------------ schedules

_METHODS = ["CC", "LCC", "CORR", "CAM", "MCC", "FLCSphericalMask", "FLC"]
_ANALYZERS = [None, "MaxScoreOverRotations", "PeakCallerMaximumFilter", "PeakCallerSort"]
_CORES = [1, 2, 3, 4, 5, 6, 7, 8, 9, 12, 16, 24, 25, 32, 36, 48, 64]


def _est(shape, pad, shape2, method, ncores, analyzer, backend, nb):
    from tme.memory import estimate_ram_usage
    kw = {}
    if nb is not None:
        kw = dict(float_nbytes=nb[0], complex_nbytes=nb[1], integer_nbytes=nb[2])
    return int(estimate_ram_usage(shape1=np.add(shape, pad), shape2=shape2, matching_method=method, ncores=ncores,
                                  analyzer_method=analyzer, backend=backend, **kw))


def _check_schedule(ctx, d, req, res, inp, clause_key="schedule"):
    """req: dict with shape1, shape2, pad, cores, max_ram, method, analyzer, backend, nb, only_outer, max_splits, split_axes.
    Model agreement + the property's clauses on the implementation's own answer."""
    from tme.matching_utils import split_shape
    nd = len(req["shape1"])
    nb = req["nb"] or (4, 8, 4)
    # an integer estimate is below a fractional limit iff it is below the next whole number
    args = dict(shape1=list(req["shape1"]), shape2=list(req["shape2"]), padding=list(req["pad"]), maxCores=req["cores"], maxRam=int(-(-req["max_ram"] // 1)),
                method=req["method"], onlyOuter=req["only_outer"], maxSplits=req["max_splits"], fb=nb[0], cb=nb[1])
    if req["analyzer"]:
        args["analyzer"] = req["analyzer"]
    if req["backend"]:
        args["backend"] = req["backend"]
    if req["split_axes"] is not None:
        args["splitAxes"] = list(req["split_axes"])
    m = d.call("c14.schedule", **args)
    clause = "schedule: cores, concurrent tiles, own memory estimate"
    if not (isinstance(res, tuple) and len(res) == 2):
        ctx.spec(clause, inp, False, f"answer {res!r} is neither (splits, (outer, inner)) nor (None, None)", key=clause_key)
        return None
    if res[0] is None:
        ctx.agree("compute_parallelization_schedule", inp, "none", m)
        # "or it reports that none exists": then the request as a whole, on all cores of one job, must not fit either
        if not req["only_outer"] or req["cores"] == 1:
            whole = _est(req["shape1"], req["pad"], req["shape2"], req["method"], req["cores"], req["analyzer"], req["backend"], req["nb"])
            ctx.spec("schedule: none reported only when none exists", inp, not whole < req["max_ram"],
                     {"estimate of the unsplit request": whole, "max_ram": req["max_ram"]}, key="schedule-none")
        return "none"
    splits, cores = res
    ok, why = True, ""
    try:
        outer, inner = cores
        if not all(isinstance(v, (int, np.integer)) and not isinstance(v, (bool, np.bool_)) for v in list(splits.values()) + [outer, inner]):
            ok, why = False, "part counts / job counts are not integers: " + repr((splits, cores))
        if sorted(splits.keys()) != list(range(nd)):
            ok, why = False, f"splits {splits!r} do not name the axes 0..{nd - 1}"
    except Exception as e:  # noqa
        ok, why = False, f"malformed answer {res!r}: {type(e).__name__}"
    if not ok:
        ctx.agree("compute_parallelization_schedule", inp, repr(res), m)
        ctx.spec(clause, inp, False, why, key=clause_key)
        return None
    impl = {"splits": [int(splits[i]) for i in range(nd)], "outer": int(outer), "inner": int(inner),
            "nSplits": int(np.prod([int(v) for v in splits.values()]))}
    ctx.agree("compute_parallelization_schedule", inp, impl, m)
    # the answer is handed to split_shape as it is
    okt, tiles = _call(split_shape, req["shape1"], splits)
    if not okt:
        ctx.spec(clause, inp, False, "the returned splits cannot be handed to split_shape: " + tiles, key=clause_key)
        return impl
    widths = [tuple(int(s.stop - s.start) for s in t) for t in tiles]
    us = [_est(w, req["pad"], req["shape2"], req["method"], impl["inner"], req["analyzer"], req["backend"], req["nb"]) for w in widths]
    o = max(impl["outer"], 1)
    peak = max(sum(us[i:i + o]) for i in range(0, len(us), o))
    ok = (impl["outer"] >= 1 and impl["inner"] >= 1 and impl["outer"] * impl["inner"] <= req["cores"] and impl["outer"] <= len(tiles)
          and peak < req["max_ram"])
    ctx.spec(clause, inp, ok, {"impl": impl, "tiles": len(tiles), "peak": int(peak), "max_ram": req["max_ram"]}, key=clause_key)
    return impl


def _rand_request(rng, nd=None, small=False):
    nd = int(rng.integers(1, 4)) if nd is None else nd
    hi = {1: 3000, 2: 200, 3: 60}[nd]
    shape1 = tuple(int(x) for x in rng.integers(4, hi, size=nd))
    shape2 = tuple(int(x) for x in rng.integers(0 if rng.random() < 0.2 else 1, 16, size=nd))
    if rng.random() < 0.2:
        shape2 = tuple(0 for _ in range(nd))   # CLI without pad_fourier
    pad = tuple(int(x) for x in (rng.integers(0, 16, size=nd) if rng.random() < 0.5 else np.zeros(nd)))
    req = dict(shape1=shape1, shape2=shape2, pad=pad, cores=int(rng.choice(_CORES)), method=str(rng.choice(_METHODS)),
               analyzer=_ANALYZERS[int(rng.integers(0, len(_ANALYZERS)))], only_outer=bool(rng.random() < 0.15),
               max_splits=int(rng.choice([4, 8, 16, 32])), split_axes=None, backend=None, nb=None)
    if rng.random() < 0.3:
        req["split_axes"] = tuple(int(x) for x in rng.permutation(nd)[: int(rng.integers(1, nd + 1))])
    if rng.random() < 0.4:
        req["backend"] = str(rng.choice(["cupy", "pytorch", "numpyfftw", "jax"]))
    if rng.random() < 0.4:
        req["nb"] = [(8, 16, 8), (2, 4, 2), (4, 8, 8), (8, 16, 4)][int(rng.integers(0, 4))]
    return req


def _ask(rng, req, vary_types=True):
    """call the real search the way `req` says; defaults are left out when they are the default"""
    from tme.matching_utils import compute_parallelization_schedule
    nd = len(req["shape1"])
    r = int(rng.integers(0, 3)) if vary_types else 0
    conv = (tuple, list, np.array)[r]
    kw = dict(shape1=conv(req["shape1"]), shape2=conv(req["shape2"]), max_cores=req["cores"], max_ram=req["max_ram"],
              matching_method=req["method"])
    given = {"containers": conv.__name__}
    if any(req["pad"]) or rng.random() < 0.7 or not vary_types:
        kw["shape1_padding"] = (np.array, tuple, list)[r](req["pad"])
    else:
        given["shape1_padding"] = "left out"
    if req["split_axes"] is not None:
        kw["split_axes"] = conv(req["split_axes"]) if conv is not np.array else tuple(req["split_axes"])
    if req["only_outer"]:
        kw["split_only_outer"] = True
    if req["analyzer"] is not None or rng.random() < 0.5:
        kw["analyzer_method"] = req["analyzer"]
    if req["backend"] is not None:
        kw["backend"] = req["backend"]
    if req["max_splits"] != 256 or rng.random() < 0.3:
        kw["max_splits"] = req["max_splits"]
    else:
        given["max_splits"] = "left out"
    if req["nb"] is not None:
        kw.update(float_nbytes=req["nb"][0], complex_nbytes=req["nb"][1], integer_nbytes=req["nb"][2])
    ok, res = _call(compute_parallelization_schedule, **kw)
    return ok, res, given


def _inp(req, **extra):
    out = {k: v for k, v in req.items()}
    out.update(extra)
    return out


def _run_schedules(ctx, d, rng):
    from tme.matching_utils import compute_parallelization_schedule
    nsch = ctx.budget(150, 900)
    for it in range(nsch):
        req = _rand_request(rng)
        nd = len(req["shape1"])
        if rng.random() < 0.06 and nd > 1:
            # the default, left out of the call (kept to requests whose search stays short: all axes may be split, few cores)
            req.update(max_splits=256, split_axes=None, cores=int(rng.choice([1, 2, 3, 4, 6, 8])))
        base = _est(req["shape1"], req["pad"], req["shape2"], req["method"], 1, req["analyzer"], req["backend"], req["nb"])
        req["max_ram"] = int(base * float(rng.choice([0.0, 0.02, 0.1, 0.3, 0.6, 1.0, 1.5, 4.0, 40.0])))
        if rng.random() < 0.1:
            # the limit exactly on the estimate of the whole request on all cores: not *below* the limit
            req["max_ram"] = _est(req["shape1"], req["pad"], req["shape2"], req["method"], req["cores"], req["analyzer"], req["backend"], req["nb"])
            ctx.count("schedule:limit-on-unsplit-estimate")
        extra = {}
        if it % 2 == 0 and any(req["pad"]):
            # the command line tool asks twice in one process: first without the tile margin, then with it;
            # the second answer must not depend on the first request
            _call(compute_parallelization_schedule, shape1=req["shape1"], shape2=req["shape2"], max_cores=req["cores"], max_ram=req["max_ram"],
                  matching_method=req["method"], split_axes=req["split_axes"], split_only_outer=req["only_outer"],
                  shape1_padding=np.zeros(nd, dtype=int), analyzer_method=req["analyzer"], max_splits=req["max_splits"])
            ctx.count("schedule:asked-without-margin-first")
            extra["asked_without_margin_first"] = True
        if rng.random() < 0.12:
            req["max_ram"] = req["max_ram"] + 0.5   # a limit that is no whole number of bytes (a fraction of the free memory)
            ctx.count("schedule:fractional-limit")
        ok, res, given = _ask(rng, req)
        inp = _inp(req, given=given, **extra)
        if not ok:
            ctx.spec("schedule: cores, concurrent tiles, own memory estimate", inp, False, res, key="schedule")
            continue
        impl = _check_schedule(ctx, d, req, res, inp)
        if impl not in (None, "none"):
            ctx.distinct(("sched", tuple(sorted((k, str(v)) for k, v in req.items()))))
        ctx.count("schedule:" + ("none" if impl == "none" else "malformed" if impl is None else "found" + (":split" if impl["nSplits"] > 1 else "")))
        ctx.count(f"schedule:{nd}axes")
        if req["backend"]:
            ctx.count("schedule:backend:" + req["backend"])
        if req["nb"]:
            ctx.count("schedule:byte-widths-given")
    ctx.sample({"schedule_request": inp, "impl": impl})


def _run_schedule_boundary(ctx, d, rng):
    """the limit is put exactly on the estimate of a split whose tiles do not divide the axis (tile extent ceil(N/k) > N/k),
    so an estimate made for narrower tiles than the real ones would accept it"""
    nb_ = ctx.budget(25, 200)
    tried = 0
    for it in range(nb_ * 6):
        if tried >= nb_:
            break
        nd = int(rng.integers(2, 4))
        shape1 = tuple(int(x) for x in rng.integers(20, 70 if nd == 3 else 200, size=nd))
        shape2 = tuple(int(x) for x in rng.integers(2, 14, size=nd))
        pad = tuple(int(x) for x in (shape2 if rng.random() < 0.5 else np.zeros(nd)))
        method = str(rng.choice(_METHODS))
        analyzer = _ANALYZERS[int(rng.integers(0, len(_ANALYZERS)))]
        axis = int(rng.integers(0, nd))
        N = shape1[axis]

        def est(width, ncores=1):
            w = list(shape1)
            w[axis] = width
            return _est(w, pad, shape2, method, ncores, analyzer, None, None)
        cands = [k for k in range(2, min(N, 14)) if N % k and est(N // k) < est(-(-N // k))]
        if not cands:
            continue
        k = int(cands[int(rng.integers(len(cands)))])
        req = dict(shape1=shape1, shape2=shape2, pad=pad, cores=1, max_ram=int(est(-(-N // k))), method=method, analyzer=analyzer,
                   only_outer=False, max_splits=32, split_axes=(axis,), backend=None, nb=None)
        ok, res, given = _ask(rng, req, vary_types=False)
        tried += 1
        inp = _inp(req, boundary={"axis": axis, "k": k, "tile": -(-N // k)})
        if not ok:
            ctx.spec("schedule: cores, concurrent tiles, own memory estimate", inp, False, res, key="schedule")
            continue
        impl = _check_schedule(ctx, d, req, res, inp)
        if impl not in (None, "none"):
            ctx.distinct(("sched-boundary", shape1, shape2, pad, req["max_ram"], method, analyzer, axis))
            ctx.count("schedule-boundary:" + ("same-k" if impl["splits"][axis] == k else "other-k"))
        else:
            ctx.count("schedule-boundary:none")


def _run_schedule_sessions(ctx, d, rng):
    """several requests in one process that share their shapes and differ in score / analyzer / backend / byte widths / cores /
    limit / margin: every answer is the answer to its own request (and the same request gets the same answer again)"""
    for s in range(ctx.budget(24, 160)):
        first = _rand_request(rng)
        nreq = int(rng.integers(3, 7))
        hist = []
        for j in range(nreq):
            req = dict(first)
            if j:
                for key, val in _rand_request(rng, nd=len(first["shape1"])).items():
                    if key in ("shape1", "shape2"):
                        continue
                    if key == "pad" and rng.random() < 0.6:
                        continue
                    if key == "split_axes" and rng.random() < 0.7:
                        continue
                    if key in ("method", "cores", "only_outer", "max_splits") and rng.random() < 0.6:
                        continue   # mostly the same score on the same cores: what differs is the analyzer / backend / byte widths / margin
                    if rng.random() < 0.6:
                        req[key] = val
            if j == nreq - 1 and rng.random() < 0.5:
                req = dict(hist[0])   # the first request once more
            else:
                base = _est(req["shape1"], req["pad"], req["shape2"], req["method"], 1, req["analyzer"], req["backend"], req["nb"])
                req["max_ram"] = int(base * float(rng.choice([0.1, 0.3, 0.6, 1.0, 1.5, 4.0])))
            ok, res, given = _ask(rng, req)
            inp = _inp(req, given=given, earlier_requests_in_this_process=[{k: v for k, v in h.items() if k not in ("shape1", "shape2")} for h in hist])
            hist.append(dict(req))
            if not ok:
                ctx.spec("schedule: cores, concurrent tiles, own memory estimate", inp, False, res, key="schedule")
                continue
            impl = _check_schedule(ctx, d, req, res, inp)
            if impl not in (None, "none"):
                ctx.distinct(("sched-session", s, j, tuple(sorted((k, str(v)) for k, v in req.items()))))
            ctx.count("schedule-session:request")


_mt = [None]


def _cli_module():
    """scripts/match_template.py of the repo under test, imported as a module (its main() is not run)"""
    if _mt[0] is None:
        import importlib.util
        from pv import env
        spec = importlib.util.spec_from_file_location("pv_c14_match_template", os.path.join(env.REPO, "scripts", "match_template.py"))
        mod = importlib.util.module_from_spec(spec)
        with _quiet(io.StringIO()):
            spec.loader.exec_module(mod)
        _mt[0] = mod
    return _mt[0]


def _run_cli_schedule(ctx, d, rng):
    """compute_schedule of the command line tool: the margin that tiles will be cut with is part of the estimate of a split
    schedule; the tool leaves (exit) when there is none"""
    from tme.matching_data import MatchingData
    from tme import analyzer as A
    from tme.backends import backend as be
    ok, mt = _call(_cli_module)
    if not ok:
        ctx.obligation("scripts/match_template.py imports", False, mt)
        return
    nbe = (int(be.datatype_bytes(be._float_dtype)), int(be.datatype_bytes(be._complex_dtype)), int(be.datatype_bytes(be._int_dtype)))
    bname = be._backend_name
    classes = [A.MaxScoreOverRotations, A.PeakCallerMaximumFilter, A.PeakCallerSort]
    for it in range(ctx.budget(18, 140)):
        nd = int(rng.integers(2, 4))
        shape = tuple(int(x) for x in rng.integers(8, 70 if nd == 3 else 200, size=nd))
        tshape = tuple(int(x) for x in rng.integers(2, 16, size=nd))
        with _quiet(io.StringIO()):
            md = MatchingData(target=np.zeros(shape, np.float32), template=np.zeros(tshape, np.float32))
        cls = classes[int(rng.integers(0, 3))]
        user_pad = bool(rng.random() < 0.3)
        pad_fourier = bool(rng.random() < 0.5)
        cores = int(rng.choice([1, 2, 3, 4, 5, 6, 8]))   # the tool always searches up to 256 parts: few cores keep that short
        method = str(rng.choice(_METHODS))
        gpu = bool(rng.random() < 0.12)
        box = tshape if pad_fourier else tuple(0 for _ in tshape)
        base = _est(shape, tshape if user_pad else [0] * nd, box, method, cores, cls.__name__, bname, nbe)
        memory = int(base * float(rng.choice([0.03, 0.1, 0.3, 0.6, 0.9, 1.0, 1.2, 3.0, 30.0])))
        args = types.SimpleNamespace(pad_edges=user_pad, pad_fourier=pad_fourier, cores=cores, memory=memory, use_gpu=gpu, score=method)
        inp = {"target": shape, "template": tshape, "pad_edges": user_pad, "pad_fourier": pad_fourier, "cores": cores, "memory": memory,
               "use_gpu": gpu, "score": method, "analyzer": cls.__name__}
        target = types.SimpleNamespace(shape=shape)
        ok, res = _call(mt.compute_schedule, args, target, md, cls)
        # model of the tool's logic on top of the model of the search
        def model(pad):
            a = dict(shape1=list(shape), shape2=list(box), padding=list(pad), maxCores=cores, maxRam=memory, method=method, onlyOuter=gpu,
                     maxSplits=256, fb=nbe[0], cb=nbe[1], analyzer=cls.__name__, backend=bname)
            return d.call("c14.schedule", **a)
        m = model(tshape if user_pad else [0] * nd)
        m_pad = user_pad
        if m != "none" and m["nSplits"] > 1 and not user_pad:
            m = model(tshape)
            m_pad = True
        if not ok:
            ctx.agree("cli compute_schedule", inp, "exit" if res.startswith("SystemExit") else res, "exit" if m == "none" else m)
            if res.startswith("SystemExit"):
                # leaving is right only when even the whole target on all cores of one job does not fit
                if not gpu or cores == 1:
                    whole = _est(shape, tshape if user_pad else [0] * nd, box, method, cores, cls.__name__, bname, nbe)
                    ctx.spec("schedule: none reported only when none exists", inp, not whole < memory,
                             {"estimate of the unsplit request": whole, "memory": memory}, key="schedule-none")
            else:
                ctx.spec("schedule: cores, concurrent tiles, own memory estimate", inp, False, res, key="schedule-cli")
            ctx.count("cli-schedule:exit")
            continue
        try:
            splits, (outer, inner) = res
            impl = {"splits": [int(splits[i]) for i in range(nd)], "outer": int(outer), "inner": int(inner),
                    "nSplits": int(np.prod([int(v) for v in splits.values()]))}
        except Exception as e:  # noqa
            ctx.spec("schedule: cores, concurrent tiles, own memory estimate", inp, False, f"malformed answer {res!r}", key="schedule-cli")
            continue
        ctx.agree("cli compute_schedule", inp, {"schedule": impl, "pad_edges": bool(args.pad_edges)},
                  {"schedule": m, "pad_edges": m_pad} if m != "none" else "exit")
        # clause: the schedule holds for the tiles as they will be cut: with a margin as soon as there is more than one
        will_pad = bool(args.pad_edges)
        okc, why = True, ""
        if impl["nSplits"] > 1 and not will_pad:
            okc, why = False, "several tiles but pad_edges is off: the tiles would be cut without margin"
        req = dict(shape1=shape, shape2=box, pad=tuple(tshape) if will_pad else tuple([0] * nd), cores=cores, max_ram=memory, method=method,
                   analyzer=cls.__name__, backend=bname, nb=nbe, only_outer=gpu, max_splits=256, split_axes=None)
        from tme.matching_utils import split_shape
        okt, tiles = _call(split_shape, shape, {i: impl["splits"][i] for i in range(nd)})
        if not okt:
            ctx.spec("schedule: cores, concurrent tiles, own memory estimate", inp, False, "split_shape refuses the schedule: " + tiles, key="schedule-cli")
            continue
        us = [_est([s.stop - s.start for s in t], req["pad"], box, method, impl["inner"], cls.__name__, bname, nbe) for t in tiles]
        o = max(impl["outer"], 1)
        peak = max(sum(us[i:i + o]) for i in range(0, len(us), o))
        if okc and not (impl["outer"] >= 1 and impl["inner"] >= 1 and impl["outer"] * impl["inner"] <= cores and impl["outer"] <= len(tiles)
                        and peak < memory):
            okc, why = False, {"impl": impl, "tiles": len(tiles), "peak with the margin in use": int(peak), "memory": memory}
        ctx.spec("schedule: cores, concurrent tiles, own memory estimate", inp, okc, why, key="schedule-cli")
        ctx.distinct(("cli-sched", shape, tshape, user_pad, pad_fourier, cores, memory, method, cls.__name__, gpu))
        ctx.count("cli-schedule:" + ("split" if impl["nSplits"] > 1 else "whole"))
    ctx.sample({"cli_schedule": inp})


def _run_estimates(ctx, d, rng):
    from tme.memory import estimate_ram_usage
    for it in range(ctx.budget(300, 1500)):
        nd = int(rng.integers(1, 4))
        big = rng.random() < 0.25
        s1 = [int(x) for x in rng.integers(1, {1: 5000, 2: 900, 3: 300}[nd] if big else 40, size=nd)]
        s2 = [int(x) for x in rng.integers(0, 12, size=nd)]
        method = str(rng.choice(_METHODS + ["NOPE", "cc", "FLCSphericalMas", "MaxScoreOverRotations"]))
        analyzer = _ANALYZERS[int(rng.integers(0, len(_ANALYZERS)))]
        backend = [None, "cupy", "numpyfftw", "pytorch"][int(rng.integers(0, 4))]
        nc = int(rng.integers(1, 65 if rng.random() < 0.3 else 17))
        fb, cb = (4, 8) if rng.random() < 0.6 else (8, 16) if rng.random() < 0.6 else (2, 4)
        ib = int(rng.choice([2, 4, 8]))
        conv = (list, tuple, np.array)[int(rng.integers(0, 3))]
        kw = dict(shape1=conv(s1), shape2=conv(s2), matching_method=method, ncores=nc, analyzer_method=analyzer, backend=backend)
        if (fb, cb, ib) != (4, 8, 4) or rng.random() < 0.5:
            kw.update(float_nbytes=fb, complex_nbytes=cb, integer_nbytes=ib)
        try:
            impl = int(estimate_ram_usage(**kw))
        except ValueError:
            impl = "err:ValueError"
        except Exception as e:  # noqa
            impl = "err:" + type(e).__name__
        args = dict(shape1=s1, shape2=s2, method=method, ncores=nc, fb=fb, cb=cb)
        if analyzer:
            args["analyzer"] = analyzer
        if backend:
            args["backend"] = backend
        ctx.agree("estimate_ram_usage", args, impl, d.call("c14.estimate", **args))
        ctx.count("estimate:" + method)


def run(ctx):
    d = ctx.driver
    rng = ctx.rng("main")

    # ---- memory registry extracted by reflection == model table
    ext = _extract_mem_table()
    model_tab = d.call("c14.memTable")
    ctx.obligation("MATCHING_MEMORY_REGISTRY bilinear", all(e["bilinear"] for e in ext), ext)
    ctx.obligation("MATCHING_MEMORY_REGISTRY == Pm.C14.memTable",
                   [{k: e[k] for k in ("name", "base", "fork")} for e in ext] == model_tab, {"extracted": ext, "model": model_tab})
    ctx.sample({"extracted_registry_row": ext[4]})

    import time
    walls = {}
    first_error = None
    for name, fn, r in (("split", _run_split, rng), ("tiles", _run_tiles_basic, rng), ("kinds", _run_tiles_kinds, ctx.rng("kinds")),
                        ("reassemble", _run_reassemble, ctx.rng("reassemble")), ("padding", _run_padding, ctx.rng("padding")),
                        ("schedules", _run_schedules, ctx.rng("schedules")), ("boundary", _run_schedule_boundary, ctx.rng("boundary")),
                        ("sessions", _run_schedule_sessions, ctx.rng("sessions")), ("cli", _run_cli_schedule, ctx.rng("cli")),
                        ("estimates", _run_estimates, ctx.rng("estimates"))):
        t0 = time.time()
        try:
            fn(ctx, d, r)
        except Exception as e:  # noqa  -- the other streams still run; the first failure is raised again at the end
            first_error = first_error or e
        walls[name] = round(time.time() - t0, 1)
    ctx.note("wall per stream (s): " + ", ".join(f"{k} {v}" for k, v in walls.items()))
    if first_error is not None:
        raise first_error


def search(ctx):
    """Correspondence broke without a failing input in the main stream: widen split_shape / tiles / schedules."""
    from tme.matching_utils import split_shape
    rng = ctx.rng("search")
    d = ctx.driver
    for N in range(1, 400):
        for k in sorted(set(int(x) for x in rng.integers(1, N + 1, size=12))):
            ok, tl = _call(split_shape, (N,), {0: k})
            if ok:
                _spec_split(ctx, (N,), {0: k}, [_slices(t) for t in tl])
    for name, fn in (("kinds", _run_tiles_kinds), ("reassemble", _run_reassemble), ("padding", _run_padding),
                     ("schedules", _run_schedules), ("sessions", _run_schedule_sessions), ("cli", _run_cli_schedule)):
        for rep in range(3):
            fn(ctx, d, ctx.rng(f"search-{name}-{rep}"))
