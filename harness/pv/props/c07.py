"""C07 — rotation sets are proper, complete, and cover orientation space as stated.

Leg B: the real `tme.matching_utils` rotation helpers of the repo vs the Lean model (Model/C07.lean),
plus every clause of the property evaluated on the implementation's outputs.

Every case is a dict with a "kind"; `_CASES[kind](ctx, case)` runs the real code on it, compares with the
model (ctx.agree) and evaluates the property clauses (ctx.spec).  run() generates cases, search() generates
more/wider ones, replay() re-runs the case stored in a replay file.

The SO(3) covering clause is NOT carried by a theorem: `_case_cover` only *searches* for an orientation
farther than the nominal angle (+ a permissive margin) from every member of a set.
"""
import hashlib
import math
import os
import struct
from fractions import Fraction

import numpy as np

ID = "C07"
RULE = ("every row of every readable shipped set (exhaustive on the real code; the Lean model on all rows of the sets "
        "below a size cap and on a seeded sample of the larger ones); a sweep of requested angles (table angles, exact "
        "midpoints and their float neighbours, integers, random, degenerate) given as Python and numpy scalars, "
        "positionally / by keyword; sessions of requests in one process whose results are overwritten by the caller "
        "between calls (also from another working directory); random unit quaternions in every memory layout "
        "(C, Fortran, strided, negative stride, column views, transposed, offset, read-only, memmap, big-endian) and "
        "dtype (float64, float32, integers), batches of 0, 1 and more than 10 000 rows, half turns and near-identity "
        "rotations; random Euler triples in all 24 conventions away from gimbal lock, handed over as tuple / list / "
        "float64 / float32 / integer arrays, matrices in every layout and as 2x2 planar rotations; a grid of cone "
        "parameters (sampling coarser than the cone, axis sampling coarser than the axis range, zero axis range, "
        "integer and numpy scalar arguments, the default axis given explicitly in several containers, > 10 000 "
        "rotations); QR branch for dim 2..5; rotation_aligning_vectors for random pairs at every angle in [0.5, 179.5] "
        "degrees, any lengths, coordinate axes, integer vectors, default target, list / tuple / float64 / float32 input, "
        "exactly parallel / allclose / exactly antiparallel / zero vectors; convention strings of euler_to_rotationmatrix "
        "(all 24 of scipy, strings longer / shorter than the number of angles, 0..4 angles, repeated axes, mixed case, "
        "foreign letters, random strings over xyzXYZ); cone sampling about general axes (random directions and lengths, "
        "coordinate axes, the default axis, four containers; off gimbal lock of the aligning rotation); covering search per set. distinct = distinct (kind, parameters) cases; "
        "identity/trivial inputs are not counted")
ASSUMPTIONS = [
    "the four rotation-set files emptied in this sandbox (size 0) are skipped and reported as skipped",
    "SO(3) covering is only searched numerically (dense sampling + local maximisation); no theorem carries it",
    "numpy.linalg.qr returns orthonormal factors (contract checked on every recorded call); scipy Rotation is the "
    "reference for the 'standard convention' of quaternions and Euler angles",
    "libm sin/cos/sqrt/pow of the Lean runtime vs numpy agree to the stated tolerances; cone ring counts that fall "
    "within 1e-9 of an integer before ceil() are not compared (counted as boundary)",
]
TRUSTED = ["C07: scipy.spatial.transform.Rotation, numpy.linalg.qr/det and libm are exercised, not modelled; "
           "IEEE double arithmetic of the driver = that of numpy (bit patterns are exchanged, not decimals)"]

# --- tolerances (permissive side; DESIGN Appendix B) ---------------------------------------------------------
TOL_UNIT = 1e-8        # |‖q‖ - 1| of a shipped row (measured ≤ 1e-9)
TOL_ORTHO = 1e-6       # ‖RᵀR − 1‖∞, |det − 1| of the rounded (8 decimals) matrices (measured ≤ 3e-8)
TOL_MODEL_Q = 2.5e-8   # real vs model quaternion matrix (one flipped rounding at the 8th decimal)
TOL_CONV = 1e-7        # real vs scipy quaternion matrix
TOL_E32 = 2e-6         # float32 matrices from Euler angles
TOL_DEG = 5e-3         # Euler angles (float32, |b| ≤ 85°)
TOL_CONE = 1e-9
# float32 quaternions: every entry of the matrix is a handful of float32 operations on O(1) numbers
# (<= ~10 eps32 = 6e-7 per entry, six products per inner product of two columns)
TOL_Q32 = 2e-6         # entry of the matrix: real vs model / scipy for float32 input
TOL_ORTHO32 = 1e-5     # |R^T R - 1|, |det - 1| for float32 input
COVER_REL, COVER_ABS = 1.002, 0.02   # failing orientation only if farther than angle*REL + ABS degrees

# sha256 of the shipped set files the row checks / covering searches were established on
DIGESTS = {
    "c48n309.npy": "3701fae263846e6ded4adab973df28f357d8d6f30ea2ae27bd70c087b67b8998",
    "c48n527.npy": "b1a4943136b5474322b0fbe014bd366bb207412c0467e989bb4bf7a898e0e405",
    "c48n9.npy": "6c354b57a9968d91d241f78373e30e08a29aadf7358da35e56fa687b6c4c532e",
    "c48u1.npy": "25e5cc1731484ecd9ecdd737c79969de3a357071c71d5003480d53a5fefb917b",
    "c48u1153.npy": "102884c629ad6035ad22ec771707bf1099729f4f2052a3fce4337d823913f7f9",
    "c48u1201.npy": "69c782fc97a27a7cfff355f8e76d273e965c839b674616d6efde44a9ba5692b8",
    "c48u1641.npy": "a782f05b72f37538eb514a40ec7e7745f356c587cf5f45e3792c19dfd01cefc4",
    "c48u181.npy": "98b617aefd581cb1fa0ec069e4c9311e4c65c603278f59b0fca288d2e747f856",
    "c48u2219.npy": "a7c4d0797f181eee297719f02631009505803daeba5bb9292bdea264a66bf491",
    "c48u27.npy": "934dd9344b283f004a0b2f087886b91b459166a8c664cb57e886eeec4a491ef5",
    "c48u2947.npy": "89c23dec40fa72debacbb14868902e8268f3ac85a4ec220d0b1b4edf00d39eb5",
    "c48u3733.npy": "b656befff3dffa1a4dea1d38bed1487e49057422e995ed7554ed3a92bd5d5e43",
    "c48u815.npy": "6c2b89c4bb66d128e0dc61b1b728c6cd1619d46d06cfbf571c8fbbd46bea4272",
    "c48u83.npy": "ece0c9627b22b838c66e077d185a29b32216d888eb608d09d97d9ff9c2bcebc5",
    "c600v.npy": "26a4aedc02e82f503d8a0b9e85cd181943053ec8767e9ac71e9efa5577855c8c",
    "c600vc.npy": "621b7e1855c34a38c6bec8c506fcb1c4464023e3830033dde6012014d6505530",
}


# --- float transport: IEEE bit patterns ------------------------------------------------------------------------
def f2b(x):
    return struct.unpack("<Q", struct.pack("<d", float(x)))[0]


def a2b(a):
    return np.ascontiguousarray(a, dtype=np.float64).view(np.uint64).reshape(np.shape(a)).tolist()


def b2a(l):
    return np.array(l, dtype=np.uint64).view(np.float64)


LAYOUTS = ["C", "F", "strided", "reversed", "colview", "colstride", "transposed", "offset", "readonly", "memmap",
           "bigendian"]
_MM = [0]


def _relayout(a, layout):
    """the same values in another memory layout (always a fresh buffer, never the caller's)"""
    a = np.array(a)
    n = a.shape[0] if a.ndim else 0
    if layout == "C":
        return np.ascontiguousarray(a)
    if layout == "F":
        return np.asfortranarray(a)
    if layout == "strided":        # every second row of a larger array
        big = np.full((2 * n + 1,) + a.shape[1:], 7, dtype=a.dtype)
        big[1::2] = a
        return big[1::2]
    if layout == "reversed":       # negative stride along the first axis
        return np.ascontiguousarray(a[::-1])[::-1]
    if layout == "colview":        # leading columns of a wider array (how the lookup slices quat_weights[:, :4])
        big = np.full(a.shape[:-1] + (a.shape[-1] + 3,), 7, dtype=a.dtype)
        big[..., :a.shape[-1]] = a
        return big[..., :a.shape[-1]]
    if layout == "colstride":      # every second column of a wider array
        big = np.full(a.shape[:-1] + (2 * a.shape[-1],), 7, dtype=a.dtype)
        big[..., ::2] = a
        return big[..., ::2]
    if layout == "transposed":     # transposed view of the transposed copy
        return np.ascontiguousarray(a.T).T
    if layout == "offset":         # view starting inside a larger buffer
        buf = np.full(a.size + 3, 7, dtype=a.dtype)
        v = buf[3:].reshape(a.shape)
        v[...] = a
        return v
    if layout == "readonly":
        b = np.ascontiguousarray(a)
        b.setflags(write=False)
        return b
    if layout == "memmap":
        from pv import env
        _MM[0] += 1
        path = os.path.join(env.scratch(), "c07_mm_%d_%d.bin" % (os.getpid(), _MM[0]))
        if a.size == 0:
            return np.ascontiguousarray(a)
        m = np.memmap(path, dtype=a.dtype, mode="w+", shape=a.shape)
        m[...] = a
        m.flush()
        del m
        return np.memmap(path, dtype=a.dtype, mode="r", shape=a.shape)
    if layout == "bigendian":
        return a.astype(a.dtype.newbyteorder(">"))
    raise ValueError(layout)


def _file_backed(a):
    """is this array (or what it is a view of) a memory map of a file?"""
    for _ in range(8):
        if a is None:
            return False
        if isinstance(a, np.memmap) or type(a).__name__ == "mmap":
            return True
        a = getattr(a, "base", None)
    return False


def _scribble(*arrays):
    """what a caller may do with a returned array: overwrite it (never through to a file)"""
    for a in arrays:
        if isinstance(a, np.ndarray) and not _file_backed(a) and a.flags.writeable:
            a[...] = 9 if a.dtype.kind in "iu" else np.nan


def _eye_err(R):
    """max |RᵀR − 1| and max |det − 1| over a stack of matrices"""
    R = np.asarray(R, dtype=np.float64)
    d = R.shape[-1]
    if len(R) == 0:
        return np.zeros(0), np.zeros(0)
    g = np.abs(np.einsum("nji,njk->nik", R, R) - np.eye(d)).reshape(len(R), -1).max(axis=1)
    g2 = np.abs(np.einsum("nij,nkj->nik", R, R) - np.eye(d)).reshape(len(R), -1).max(axis=1)
    return np.maximum(g, g2), np.abs(np.linalg.det(R) - 1)


# --- shipped sets ------------------------------------------------------------------------------------------------
class Sets:
    """metadata.yaml + the data files, read independently of the code under test"""

    def __init__(self):
        import tme.matching_utils as mu
        import yaml
        self.dir = os.path.join(os.path.dirname(mu.__file__), "data")
        txt = open(os.path.join(self.dir, "metadata.yaml")).read()
        self.meta = yaml.safe_load(txt)              # insertion order = file order
        self.table = [(k, int(v[0]), float(v[1])) for k, v in self.meta.items()]
        # exact nominal angles (decimal text of the yaml -> Fraction)
        self.exact = {k: Fraction(repr(float(v[1]))) for k, v in self.meta.items()}
        self.state, self.quat, self.raw = {}, {}, {}
        for name, n, ang in self.table:
            p = os.path.join(self.dir, name)
            if not os.path.exists(p):
                self.state[name] = "missing"
            elif os.path.getsize(p) == 0:
                self.state[name] = "empty"
            else:
                try:
                    a = np.load(p)
                    self.raw[name] = a
                    self.state[name] = "ok"
                except Exception as e:  # non-empty but unreadable: must be flagged
                    self.state[name] = "unreadable:" + type(e).__name__
        self._ref = {}

    def readable(self):
        return [t for t in self.table if self.state[t[0]] == "ok"]

    def ref(self, name):
        """independent reference matrices (scipy) of a set"""
        if name not in self._ref:
            from scipy.spatial.transform import Rotation
            q = np.asarray(self.raw[name], dtype=np.float64)[:, :4]
            self._ref[name] = Rotation.from_quat(q[:, [1, 2, 3, 0]]).as_matrix()
        return self._ref[name]

    def closest_exact(self, req, rel=None):
        """names of the sets whose nominal angle is closest to the request, exact arithmetic (ties: all of them)"""
        r = Fraction(req)
        d = {k: abs(r - a) for k, a in self.exact.items()}
        m = min(d.values())
        slack = Fraction(1, 10**9) + abs(r) / 10**15      # the code compares rounded doubles
        if rel is not None:                               # ... or rounded singles (float32 request under NEP 50)
            slack += Fraction(rel) * (abs(r) + 100)
        return [k for k, v in d.items() if v <= m + slack], m


_SETS = None


def sets():
    global _SETS
    if _SETS is None:
        _SETS = Sets()
    return _SETS


# =================================================================================================================
# cases
# =================================================================================================================
def _case_table(ctx, case):
    """metadata.yaml == the constant the Lean theorems are about; data files are the ones examined"""
    S = sets()
    model = ctx.driver.call("c07.shipped")
    got = []
    ok_dec = True
    for k, n, a in S.table:
        h = S.exact[k] * 100
        ok_dec &= (h.denominator == 1)
        got.append([k, n, int(h) if h.denominator == 1 else float(h)])
    ctx.obligation("metadata.yaml == Pm.C07.shipped", ok_dec and got == model, {"file": got[:30], "model": model})
    for name, n, ang in S.table:
        st = S.state[name]
        ctx.count("set:" + ("ok" if st == "ok" else st.split(":")[0]))
        if st == "empty":
            ctx.note(f"skipped (emptied in this sandbox): {name}")
            continue
        if st == "ok" and name in DIGESTS:
            h = hashlib.sha256(open(os.path.join(S.dir, name), "rb").read()).hexdigest()
            ctx.obligation("data file digest " + name, h == DIGESTS[name], {"file": name, "sha256": h, "expected": DIGESTS[name]})
        elif st == "ok":
            ctx.count("set:no-digest-recorded")
        else:
            # present, non-empty, but numpy cannot read it: a request that selects it cannot be served
            ctx.spec("set file readable and of documented size", {"kind": "setfile", "set": name}, False,
                     {"state": st}, key="setfile:" + st.split(":")[0])


def _case_setrows(ctx, case):
    """all rows of one shipped set through the real quaternion_to_rotation_matrix; `rows` (indices) through the model"""
    import tme.matching_utils as mu
    S = sets()
    name = case["set"]
    n_doc = S.meta[name][0]
    a = np.asarray(S.raw[name])
    inp = {"kind": "setrows", "set": name}
    shape_ok = a.ndim == 2 and a.shape[1] == 5 and a.shape[0] == n_doc
    ctx.spec("row count = documented size", inp, shape_ok, {"shape": a.shape, "documented": n_doc}, key="rows:count")
    if a.ndim != 2 or a.shape[1] < 4 or a.shape[0] == 0:
        return
    q = np.array(a[:, :4], dtype=np.float64)                 # pristine values (the reference never leaves the harness)
    R = mu.quaternion_to_rotation_matrix(np.array(a)[:, :4])  # a fresh buffer, sliced the way the lookup slices it
    ctx.evaluations += 4 * len(q)          # the four row-wise clauses below are evaluated on every row
    # unit norm
    dev = np.abs(np.sqrt((q * q).sum(axis=1)) - 1)
    i = int(np.argmax(dev))
    ctx.spec("rows are unit quaternions", {**inp, "row": i, "q": q[i]}, bool(dev[i] <= TOL_UNIT), {"dev": dev[i]}, key="rows:unit")
    # first is the identity
    ctx.spec("first member is the identity", {**inp, "row": 0, "q": q[0]},
             bool(np.array_equal(np.asarray(R[0]), np.eye(3))), {"R0": R[0]}, key="rows:identity-first")
    # proper
    oe, de = _eye_err(R)
    i = int(np.argmax(np.maximum(oe, de)))
    ctx.spec("orthonormal, det +1", {**inp, "row": i, "q": q[i]}, bool(oe[i] <= TOL_ORTHO and de[i] <= TOL_ORTHO),
             {"ortho_err": oe[i], "det_err": de[i], "R": R[i]}, key="rows:proper")
    # standard convention (scalar first, Hamilton, active)
    ce = np.abs(np.asarray(R) - S.ref(name)).reshape(len(q), -1).max(axis=1)
    i = int(np.argmax(ce))
    ctx.spec("quaternion convention = standard (scipy)", {**inp, "row": i, "q": q[i]}, bool(ce[i] <= TOL_CONV),
             {"err": ce[i], "R": R[i], "ref": S.ref(name)[i]}, key="rows:convention")
    # model on the requested rows
    rows = case.get("rows")
    idx = np.arange(len(q)) if rows is None else np.asarray(rows, dtype=int)
    idx = idx[idx < len(q)]
    CH = 4000
    worst, bit = 0.0, 0
    for s in range(0, len(idx), CH):
        ii = idx[s:s + CH]
        m = b2a(ctx.driver.call("c07.quatRows", rows=a2b(q[ii]))).reshape(len(ii), 3, 3)
        d = np.abs(m - np.asarray(R)[ii]).reshape(len(ii), -1).max(axis=1)
        bit += int((d == 0).sum())
        bad = np.nonzero(~(d <= TOL_MODEL_Q))[0]
        ctx.traces += len(ii) - 1
        ctx.agree("quaternion_to_rotation_matrix(rows)", {**inp, "rows": ii[bad][:5].tolist(), "q": q[ii[bad][:5]]},
                  [] if len(bad) == 0 else np.asarray(R)[ii[bad][:3]].tolist(), [] if len(bad) == 0 else m[bad[:3]].tolist())
        worst = max(worst, float(d.max()))
    ctx.count("rows:model-compared", len(idx))
    ctx.count("rows:bit-identical", bit)
    ctx.count("rows:real-code", len(q))
    ctx.distinct(("setrows", name))
    if case.get("sample"):
        ctx.sample({"kind": "setrows", "set": name, "rows": len(q), "model_rows": len(idx), "max|real-model|": worst,
                    "max_unit_dev": float(dev.max()), "max_ortho_err": float(oe.max())})


def _identify(R, S):
    """which shipped set are these matrices? (independent reference, by size then content)"""
    R = np.asarray(R)
    for name, n, ang in S.readable():
        if len(S.raw[name]) == len(R) and R.shape[1:] == (3, 3):
            if np.abs(S.ref(name) - R).max() <= TOL_CONV:
                return name
    return None


_REQ_TYPES = {"np.float64": np.float64, "np.float32": np.float32, "np.int64": np.int64, "np.int32": np.int32}
_REQ_CALLS = ["positional", "keyword", "all-positional", "all-keyword", "np-dim"]


def _request_arg(case):
    """the request as the caller hands it over, and its exact value as a Python number"""
    req = case["angle"]
    req = int(req) if case.get("int") else float(req)
    t = case.get("type")
    if t:
        arg = _REQ_TYPES[t](req)
        req = int(arg) if t.startswith("np.int") else float(arg)     # the value after the dtype's rounding
    else:
        arg = req
    return arg, req


def _request_call(mu, arg, how):
    if how in (None, "positional"):
        return mu.get_rotation_matrices(arg)
    if how == "keyword":
        return mu.get_rotation_matrices(angular_sampling=arg)
    if how == "all-positional":
        return mu.get_rotation_matrices(arg, 3, True)
    if how == "all-keyword":
        return mu.get_rotation_matrices(use_optimized_set=True, dim=3, angular_sampling=arg)
    if how == "np-dim":
        return mu.get_rotation_matrices(arg, dim=np.int64(3))
    raise ValueError(how)


def _case_request(ctx, case):
    """get_rotation_matrices(angular_sampling) for one request"""
    inp = {"kind": "request", "angle": case["angle"], "int": bool(case.get("int"))}
    for k in ("type", "call"):
        if case.get(k):
            inp[k] = case[k]
    _request_core(ctx, case, inp)


def _case_session(ctx, case):
    """several requests in one process; between them the caller overwrites what it was given (and may change
    the working directory): every answer must still be the closest set, proper, identity first"""
    from pv import env
    steps = case["steps"]
    here = os.getcwd()
    try:
        for i, st in enumerate(steps):
            if st.get("cwd"):
                os.chdir(env.scratch())
            inp = {"kind": "session", "steps": steps, "failing_step": i}
            _request_core(ctx, st, inp, scribble=True)
            if st.get("cwd"):
                os.chdir(here)
    finally:
        os.chdir(here)
    ctx.count("session:steps", len(steps))
    ctx.distinct(("session", repr(steps)))


def _request_core(ctx, case, inp, scribble=False):
    import tme.matching_utils as mu
    S = sets()
    arg, req = _request_arg(case)
    table = [[k, n, f2b(a)] for k, n, a in S.table]
    model = ctx.driver.call("c07.closest", table=table, req=f2b(req))
    if isinstance(model, str):
        ctx.count("request:model-" + model)
        return
    mname, mn = model
    # a non-finite request is equally far from every set
    rel = Fraction(1, 10**6) if case.get("type") == "np.float32" else None
    best, _ = S.closest_exact(req, rel) if math.isfinite(req) else ([k for k, _, _ in S.table], None)
    quat = weights = None
    try:
        R = _request_call(mu, arg, case.get("call"))
        quat, weights, rep = mu.load_quaternions_by_angle(arg)
        raised = None
    except Exception as e:
        R, raised = None, type(e).__name__
    ctx.count("request:type=" + (case.get("type") or ("int" if case.get("int") else "float")))
    ctx.count("request:call=" + (case.get("call") or "positional"))
    if S.state[mname] != "ok":
        # the set the request resolves to is emptied / unreadable here
        ctx.count("request:skipped-" + S.state[mname].split(":")[0])
        if raised is None:
            # ... yet the code served the request: from which set?
            got = _identify(R, S)
            ctx.agree("get_rotation_matrices: chosen set", inp, got, mname)
        return
    if raised is not None:
        ctx.agree("get_rotation_matrices: chosen set", inp, "raised:" + raised, mname)
        ctx.spec("request served from the closest set", inp, False, {"raised": raised, "closest": best}, key="request:raised")
        return
    R_ret = R
    R = np.asarray(R)
    sizes = {n: k for k, n, a in S.table}       # the documented sizes are pairwise distinct (Lean: shipped_table_sane)
    by_content = _identify(R, S)
    got = by_content or sizes.get(len(R))
    ctx.agree("get_rotation_matrices: chosen set", inp, [by_content, len(R)], [mname, mn])
    h = Fraction(req) * 100 if math.isfinite(req) else None
    if h is not None and h.denominator == 1 and len(best) == 1 and abs(h) < 10**12:
        # request on the 1/100-degree grid, no tie: the exact-arithmetic lookup on the Lean constant table
        ex = ctx.driver.call("c07.closestShipped", req=int(h))
        ctx.agree("get_rotation_matrices: chosen set (exact lookup on Pm.C07.shipped)", inp, [got, len(R)], ex[:2])
        ctx.count("request:exact-grid")
    # clauses
    ctx.spec("number returned = documented size of the closest set", inp,
             got is not None and got in best and len(R) == S.meta[got][0],
             {"returned": len(R), "size_of": got, "closest": best,
              "documented": {b: S.meta[b][0] for b in best}}, key="request:size-of-closest")
    ctx.spec("returned matrices are the members of that set, in file order", inp, by_content is not None,
             {"returned": len(R), "size_of": got}, key="request:members")
    if R.ndim == 3 and len(R):
        oe, de = _eye_err(R)
        i = int(np.argmax(np.maximum(oe, de)))
        ctx.spec("orthonormal, det +1", {**inp, "index": i}, bool(oe[i] <= TOL_ORTHO and de[i] <= TOL_ORTHO),
                 {"ortho_err": oe[i], "det_err": de[i], "R": R[i]}, key="request:proper")
        ctx.spec("first member is the identity", inp, bool(np.array_equal(R[0], np.eye(3))), {"R0": R[0]}, key="request:identity-first")
    # the lookup called directly: a closest set, its rows, and its nominal angle reported (weights: not in the property)
    quat_ret = quat
    quat = np.asarray(quat)
    lk = sizes.get(len(quat)) if quat.ndim == 2 else None
    ctx.spec("lookup picks a set whose nominal angle is closest to the request", inp, lk is not None and lk in best,
             {"rows": len(quat), "size_of": lk, "closest": best}, key="lookup:closest")
    if lk is not None and S.state[lk] == "ok":
        raw = np.asarray(S.raw[lk])
        ctx.spec("lookup returns the rows of the chosen file", inp, bool(np.array_equal(quat, raw[:, :4])),
                 {"set": lk}, key="lookup:rows")
        ctx.spec("lookup reports the nominal angle of the chosen set", inp,
                 bool(isinstance(rep, (int, float)) and abs(float(rep) - S.meta[lk][1]) <= 1e-12),
                 {"reported": rep, "set": lk, "nominal": S.meta[lk][1], "size": S.meta[lk][0]}, key="lookup:reported-angle")
    ctx.count("request:set=" + str(got))
    ctx.count("request:tie" if len(best) > 1 else "request:unique")
    if inp.get("kind") == "request" and (got != "c48u1.npy" or 50 < req < 80):
        ctx.distinct(("request", repr(req), case.get("type"), case.get("call")))
    if case.get("sample"):
        ctx.sample({**inp, "chosen": got, "returned": len(R), "model": model})
    if scribble:
        _scribble(R_ret, quat_ret, weights)


_QDT = {"f8": np.float64, "f4": np.float32, "i8": np.int64, "i4": np.int32, "i1": np.int8}


def _case_quat(ctx, case):
    """quaternion_to_rotation_matrix on arbitrary quaternions (unit: all clauses; non-unit: model only), handed over
    in the dtype / memory layout of the case.  All clauses are evaluated against a pristine copy of the values."""
    import tme.matching_utils as mu
    from scipy.spatial.transform import Rotation
    dt, layout = case.get("dtype", "f8"), case.get("layout", "C")
    unit = bool(case.get("unit", True))
    if "gen_seed" in case:                         # large batches are regenerated from their seed (also on replay)
        q = _unit_quats(np.random.default_rng(int(case["gen_seed"])), int(case["n"]))
        inp = {"kind": "quat", "gen_seed": int(case["gen_seed"]), "n": int(case["n"])}
    else:
        q = np.asarray(case["q"], dtype=np.float64).reshape(-1, 4)
        inp = {"kind": "quat", "q": q}
    arg = _relayout(q.astype(_QDT[dt]), layout)
    q = np.array(arg, dtype=np.float64)            # the values actually handed over
    inp.update({"unit": unit, "dtype": dt, "layout": layout})
    f32 = dt == "f4"
    tol_m, tol_c, tol_o = (TOL_Q32, TOL_Q32, TOL_ORTHO32) if f32 else (TOL_MODEL_Q, TOL_CONV, TOL_ORTHO)
    ctx.count(f"quat:dtype={dt}")
    ctx.count(f"quat:layout={layout}")
    ctx.count("quat:batch=" + ("0" if len(q) == 0 else "1" if len(q) == 1 else ">10000" if len(q) > 10000 else "2..10000"))
    try:
        R = np.asarray(mu.quaternion_to_rotation_matrix(arg))
    except Exception as e:
        ctx.agree("quaternion_to_rotation_matrix", inp, "raised:" + type(e).__name__, "returned")
        if unit:
            ctx.spec("unit quaternions are converted (whatever their dtype / memory layout)", inp, False,
                     {"raised": type(e).__name__, "message": str(e)[:200]}, key="quat:raised")
        return
    if R.shape != (len(q), 3, 3):
        ctx.agree("quaternion_to_rotation_matrix: shape", inp, list(R.shape), [len(q), 3, 3])
        if unit:
            ctx.spec("one 3x3 matrix per quaternion", inp, False, {"shape": R.shape}, key="quat:shape")
        return
    if len(q) == 0:
        ctx.count("quat:empty-batch")
        return
    m = np.concatenate([b2a(ctx.driver.call("c07.quatRows", rows=a2b(q[s0:s0 + 4000]))).reshape(-1, 3, 3)
                        for s0 in range(0, len(q), 4000)])
    scale = max(1.0, float(np.abs(m).max()))
    ctx.agree("quaternion_to_rotation_matrix", inp, R if len(q) <= 16 else [], m if len(q) <= 16 else [],
              eq=lambda a, b: bool(np.abs(R - m).max() <= tol_m * scale))
    if unit:
        oe, de = _eye_err(R)
        i = int(np.argmax(np.maximum(oe, de)))
        ctx.spec("orthonormal, det +1", {**inp, "row": i, "q_row": q[i]}, bool(oe[i] <= tol_o and de[i] <= tol_o),
                 {"R": R[i], "ortho_err": oe[i], "det_err": de[i]}, key="quat:proper")
        ref = Rotation.from_quat(q[:, [1, 2, 3, 0]]).as_matrix()
        ce = np.abs(ref - R).reshape(len(q), -1).max(axis=1)
        i = int(np.argmax(ce))
        ctx.spec("quaternion convention = standard (scipy)", {**inp, "row": i, "q_row": q[i]}, bool(ce[i] <= tol_c),
                 {"R": R[i], "ref": ref[i], "err": ce[i]}, key="quat:convention")
        # homomorphism on the real code: R(p·q) = R(p) R(q)
        if len(q) >= 2 and not f32 and dt == "f8":
            p, r = q[0], q[1]
            pr = np.array([p[0] * r[0] - p[1] * r[1] - p[2] * r[2] - p[3] * r[3],
                           p[0] * r[1] + p[1] * r[0] + p[2] * r[3] - p[3] * r[2],
                           p[0] * r[2] - p[1] * r[3] + p[2] * r[0] + p[3] * r[1],
                           p[0] * r[3] + p[1] * r[2] - p[2] * r[1] + p[3] * r[0]])
            Rp = np.asarray(mu.quaternion_to_rotation_matrix(pr[None]))[0]
            ctx.spec("quaternion product ↦ matrix product", inp, bool(np.abs(Rp - R[0] @ R[1]).max() <= 1e-7),
                     {"err": float(np.abs(Rp - R[0] @ R[1]).max())}, key="quat:homomorphism")
        ctx.count("quat:unit", len(q))
        ctx.distinct(("quat", dt, layout, len(q), q[:4].round(6).tolist()))
    else:
        ctx.count("quat:non-unit(model only)", len(q))


_AX = {"x": 0, "y": 1, "z": 2}


def _np_euler(seq, angles):
    """independent float64 composition: lower case extrinsic, upper case intrinsic"""
    def el(ax, t):
        c, s = math.cos(t), math.sin(t)
        return {0: np.array([[1, 0, 0], [0, c, -s], [0, s, c]]),
                1: np.array([[c, 0, s], [0, 1, 0], [-s, 0, c]]),
                2: np.array([[c, -s, 0], [s, c, 0], [0, 0, 1]])}[ax]
    M = np.eye(3)
    for ch, a in zip(seq, angles):
        E = el(_AX[ch.lower()], math.radians(a))
        M = M @ E if seq[0].isupper() else E @ M
    return M


def _ang_diff(a, b):
    d = (np.asarray(a, dtype=np.float64) - np.asarray(b, dtype=np.float64) + 180.0) % 360.0 - 180.0
    return float(np.abs(d).max())


_CONTAINERS = ["tuple", "list", "f8", "f4", "int"]


def _container(ang, kind):
    """the angles as the caller hands them over, and their values after the container's rounding"""
    if kind in (None, "tuple"):
        return tuple(ang), list(ang)
    if kind == "list":
        return list(ang), list(ang)
    if kind == "f8":
        return np.array(ang, dtype=np.float64), list(ang)
    if kind == "f4":                       # what Orientations / backend arrays hold
        a = np.array(ang, dtype=np.float32)
        return a, [float(x) for x in a]
    if kind == "int":                      # whole degrees given as integers
        a = [int(round(x)) for x in ang]
        return tuple(a), [float(x) for x in a]
    raise ValueError(kind)


def _case_euler(ctx, case):
    """euler_to_rotationmatrix / euler_from_rotationmatrix for one (convention, angles); the angles in the
    container of the case, the matrix handed back in the dtype / memory layout of the case"""
    import tme.matching_utils as mu
    seq = case["seq"]
    cont, mdt, mlay = case.get("container"), case.get("mdtype", "f4"), case.get("mlayout", "C")
    arg, ang = _container([float(x) for x in case["angles"]], cont)
    inp = {"kind": "euler", "seq": seq, "angles": [float(x) for x in case["angles"]]}
    if cont:
        inp["container"] = cont
    if mdt != "f4" or mlay != "C":
        inp.update({"mdtype": mdt, "mlayout": mlay})
    if case.get("canonical"):
        inp["canonical"] = True
    ctx.count("euler:container=" + (cont or "tuple"))
    try:
        if seq == "zyx" and case.get("default_convention"):
            R = np.asarray(mu.euler_to_rotationmatrix(arg))
        else:
            R = np.asarray(mu.euler_to_rotationmatrix(arg, convention=seq))
    except Exception as e:
        ctx.agree("euler_to_rotationmatrix", inp, "raised:" + type(e).__name__, "returned")
        ctx.spec("Euler angles are converted (whatever their container)", inp, False,
                 {"raised": type(e).__name__, "message": str(e)[:200]}, key="euler:raised")
        return
    used = seq[:len(ang)]
    m = b2a(ctx.driver.call("c07.euler", seq=used, angles=[f2b(x) for x in ang])).reshape(3, 3)
    if R.shape != (3, 3):
        ctx.agree("euler_to_rotationmatrix: shape", inp, list(R.shape), [3, 3])
        ctx.spec("one 3x3 matrix", inp, False, {"shape": R.shape}, key="euler:shape")
        return
    ctx.agree("euler_to_rotationmatrix", inp, R, m, eq=lambda a, b: bool(np.abs(np.array(a) - np.array(b)).max() <= TOL_E32))
    oe, de = _eye_err(R[None])
    ctx.spec("orthonormal, det +1", inp, bool(oe[0] <= 1e-5 and de[0] <= 1e-5), {"R": R}, key="euler:proper")
    ref = _np_euler(used, ang)
    ctx.spec("Euler convention = standard (elementary rotations composed as the letters say)", inp,
             bool(np.abs(ref - R).max() <= TOL_E32), {"R": R, "ref": ref}, key="euler:convention")
    ctx.spec("float32 result", inp, R.dtype == np.float32, str(R.dtype), key="euler:dtype")
    # the middle angle decides gimbal lock: cos b = 0 for Tait-Bryan, sin b = 0 for proper Euler sequences
    off_gimbal = False
    if len(ang) == 3:
        mid = math.radians(ang[1])
        off_gimbal = (abs(math.sin(mid)) if seq[0].lower() == seq[2].lower() else abs(math.cos(mid))) >= 0.08
        if not off_gimbal:
            ctx.count("euler:near-gimbal-lock(inverse not compared)")
    if len(ang) == 3 and off_gimbal:
        R0 = np.array(R, dtype=np.float64)                     # pristine values
        Rin = _relayout(R.astype(np.float32 if mdt == "f4" else np.float64), mlay)
        ctx.count(f"euler:matrix={mdt}/{mlay}")
        try:
            back = np.asarray(mu.euler_from_rotationmatrix(Rin, convention=seq))
            R2 = np.asarray(mu.euler_to_rotationmatrix(tuple(float(x) for x in back), convention=seq))
        except Exception as e:
            ctx.agree("euler_from_rotationmatrix", inp, "raised:" + type(e).__name__, "returned")
            ctx.spec("rotation matrices are converted back (whatever their dtype / memory layout)", inp, False,
                     {"raised": type(e).__name__, "message": str(e)[:200]}, key="euler:from-raised")
            return
        ok_b = back.shape == (3,)
        ctx.spec("to(from(R)) = R", inp, bool(ok_b and R2.shape == (3, 3) and np.abs(R2.astype(np.float64) - R0).max() <= 1e-5),
                 {"back": back, "R2": R2}, key="euler:to-from")
        if ok_b and seq == "zyx":
            mb = b2a(ctx.driver.call("c07.eulerFrom", m=a2b(R0.reshape(-1))))
            # to(from(R)) as a rotation matrix: the algebraic round trip of the model (theorem euler_zyx_round_trip)
            if R2.shape == (3, 3):
                mrt = b2a(ctx.driver.call("c07.eulerRoundTrip", m=a2b(R0.reshape(-1)))).reshape(3, 3)
                ctx.agree("euler_to(euler_from(R)) as a matrix", inp, R2, mrt,
                          eq=lambda a, b: bool(np.abs(np.array(a, dtype=np.float64) - np.array(b, dtype=np.float64)).max() <= 1e-5))
            ctx.agree("euler_from_rotationmatrix", inp, back, mb, eq=lambda a, b: _ang_diff(a, b) <= TOL_DEG)
        if ok_b and case.get("canonical"):
            # angles inside the range the inverse returns (middle angle off gimbal lock): exact inverse
            ctx.spec("from(to(angles)) = angles", inp, _ang_diff(back, ang) <= TOL_DEG, {"back": back}, key="euler:from-to")
    ctx.count(f"euler:seq={seq}/n={len(ang)}")
    if any(abs(x) > 1e-9 for x in ang):
        ctx.distinct(("euler", seq, cont, mdt, mlay, [round(x, 4) for x in ang]))
    if case.get("sample"):
        ctx.sample({**inp, "R": R.tolist()})


_TAIT_BRYAN = ["zyx", "xyz", "zxy", "yxz", "yzx", "xzy", "ZYX", "XYZ", "ZXY", "YXZ", "YZX", "XZY"]


def _case_euler2(ctx, case):
    """2x2 input of euler_from_rotationmatrix: the planar rotation by `angle` is the rotation about the third
    axis of the convention string's frame (upper-left block of the 3x3 matrix)"""
    import tme.matching_utils as mu
    a, seq = float(case["angle"]), case.get("seq", "zyx")
    mdt, mlay = case.get("mdtype", "f8"), case.get("mlayout", "C")
    inp = {"kind": "euler2", "angle": a, "seq": seq, "mdtype": mdt, "mlayout": mlay}
    c, s_ = math.cos(math.radians(a)), math.sin(math.radians(a))
    M = _relayout(np.array([[c, -s_], [s_, c]], dtype=np.float32 if mdt == "f4" else np.float64), mlay)
    M0 = np.array(M, dtype=np.float64)
    E = np.eye(3)
    E[:2, :2] = M0
    try:
        if seq == "zyx" and case.get("default_convention"):
            back = np.asarray(mu.euler_from_rotationmatrix(M))
        else:
            back = np.asarray(mu.euler_from_rotationmatrix(M, convention=seq))
        R2 = np.asarray(mu.euler_to_rotationmatrix(tuple(float(x) for x in back), convention=seq))
    except Exception as e:
        ctx.agree("euler_from_rotationmatrix(2x2)", inp, "raised:" + type(e).__name__, "returned")
        ctx.spec("2x2 rotation matrices are converted", inp, False, {"raised": type(e).__name__, "message": str(e)[:200]},
                 key="euler2:raised")
        return
    ok = back.shape == (3,) and R2.shape == (3, 3)
    ctx.spec("2x2 input: to(from(M)) has M as its upper-left block and fixes the third axis", inp,
             bool(ok and np.abs(R2.astype(np.float64) - E).max() <= 1e-5), {"back": back, "R2": R2, "M": M0}, key="euler2:to-from")
    if ok and seq == "zyx":
        ctx.spec("2x2 input, default convention: angles = (angle, 0, 0)", inp, _ang_diff(back, [a, 0.0, 0.0]) <= TOL_DEG,
                 {"back": back}, key="euler2:angle")
        mb = b2a(ctx.driver.call("c07.eulerFrom2", m=a2b(M0.reshape(-1))))
        ctx.agree("euler_from_rotationmatrix(2x2)", inp, back, mb, eq=lambda x, y: _ang_diff(x, y) <= TOL_DEG)
    ctx.count(f"euler2:seq={seq}")
    ctx.count(f"euler2:matrix={mdt}/{mlay}")
    if abs(a) > 1e-9:
        ctx.distinct(("euler2", seq, mdt, mlay, round(a, 4)))


def _align_arg(x, cont):
    if cont == "tuple":
        return tuple(x)
    if cont == "f8":
        return np.array(x, dtype=np.float64)
    if cont == "f4":
        return np.array(x, dtype=np.float32)        # note: the function normalises a float32 array in place
    return list(x)


def _case_align(ctx, case):
    """rotation_aligning_vectors(initial, target) (convention=None: the Rodrigues matrix) vs `Pm.C07.alignRotF`.
    Regular pairs (angle between the vectors in [0.5, 179.5] degrees) are compared entry by entry; exactly parallel /
    allclose pairs must give the identity on both sides; exactly antiparallel pairs and the zero vector give a matrix
    of NaN on both sides (the axis is 0/0: behaviour of the code as it is, mirrored, not a clause of the property)."""
    import tme.matching_utils as mu
    u, v = [float(x) for x in case["u"]], [float(x) for x in case["v"]]
    cont, cls = case.get("container", "list"), case.get("cls", "regular")
    inp = {"kind": "align", "u": u, "v": v, "container": cont, "cls": cls}
    if case.get("default_target"):
        inp["default_target"] = True
    try:
        with np.errstate(all="ignore"):
            if case.get("default_target"):
                R = np.asarray(mu.rotation_aligning_vectors(_align_arg(u, cont)))
            else:
                R = np.asarray(mu.rotation_aligning_vectors(_align_arg(u, cont), _align_arg(v, cont)))
    except Exception as e:
        ctx.agree("rotation_aligning_vectors", inp, "raised:" + type(e).__name__, "returned")
        return
    m = b2a(ctx.driver.call("c07.align", u=[f2b(x) for x in u], v=[f2b(x) for x in v])).reshape(3, 3)
    if R.shape != (3, 3):
        ctx.agree("rotation_aligning_vectors: shape", inp, list(R.shape), [3, 3])
        return
    R = R.astype(np.float64)
    ctx.count("align:class=" + cls)
    ctx.count("align:container=" + cont)
    u32, v32 = np.array(u, dtype=np.float32).astype(np.float64), np.array(v, dtype=np.float32).astype(np.float64)
    with np.errstate(all="ignore"):
        un, vn = u32 / np.linalg.norm(u32), v32 / np.linalg.norm(v32)
        d = float(un @ vn)
    if cls in ("antiparallel", "zero"):
        ctx.agree("rotation_aligning_vectors: NaN pattern (axis 0/0)", inp, np.isnan(R).tolist(), np.isnan(m).tolist())
        ctx.agree("rotation_aligning_vectors: all NaN as modelled", inp, bool(np.isnan(R).all()), True)
        return
    if cls in ("parallel", "close"):
        ctx.agree("rotation_aligning_vectors: identity for allclose vectors", inp, R.tolist(), m.tolist())
        ctx.spec("aligning a vector with itself is the identity", inp, bool(np.array_equal(R, np.eye(3))), {"R": R},
                 key="align:identity")
        return
    if not (math.isfinite(d) and abs(d) <= math.cos(math.radians(0.4))):
        ctx.count("align:outside-compared-range")
        return
    cond = 1.0 / math.sqrt(max(1.0 - d * d, 1e-7))
    tol = 1e-5 + 2e-6 * cond
    ctx.agree("rotation_aligning_vectors", inp, R, m,
              eq=lambda a, b: bool(np.abs(np.array(a, dtype=np.float64) - np.array(b, dtype=np.float64)).max() <= tol))
    oe, de = _eye_err(R[None])
    ctx.spec("aligning rotation: orthonormal, det +1", inp, bool(oe[0] <= 3 * tol and de[0] <= 3 * tol),
             {"R": R, "ortho_err": float(oe[0]), "det_err": float(de[0])}, key="align:proper")
    ctx.spec("aligning rotation maps the normalised initial vector onto the normalised target", inp,
             bool(np.abs(R @ un - vn).max() <= 3 * tol), {"R": R, "Ru": R @ un, "v": vn}, key="align:maps")
    ctx.spec("aligning rotation: trace = 1 + 2 u.v, axis u x v fixed", inp,
             bool(abs(np.trace(R) - 1 - 2 * d) <= 6 * tol and np.abs(R @ np.cross(un, vn) - np.cross(un, vn)).max() <= 3 * tol),
             {"R": R, "d": d}, key="align:angle")
    if abs(R[0, 2]) <= 0.99 and not case.get("default_target"):
        # convention given: the matrix goes through euler_from_rotationmatrix (as get_rotations_around_vector calls it)
        try:
            with np.errstate(all="ignore"):
                back = np.asarray(mu.rotation_aligning_vectors(_align_arg(u, cont), _align_arg(v, cont), convention="zyx"))
        except Exception as e:
            ctx.agree("rotation_aligning_vectors(convention)", inp, "raised:" + type(e).__name__, "returned")
            return
        if back.shape == (3,):
            mb = b2a(ctx.driver.call("c07.eulerFrom", m=a2b(R.reshape(-1))))
            ctx.agree("rotation_aligning_vectors(convention='zyx')", inp, back, mb, eq=lambda a, b: _ang_diff(a, b) <= TOL_DEG)
        else:
            ctx.agree("rotation_aligning_vectors(convention): shape", inp, list(back.shape), [3])
    ctx.distinct(("align", cont, [round(x, 5) for x in u + v]))
    if case.get("sample"):
        ctx.sample({**inp, "R": R.tolist()})


def _case_conv(ctx, case):
    """the `convention` string of euler_to_rotationmatrix: which strings / numbers of angles are accepted, and the
    matrix of the accepted ones, vs `Pm.C07.eulerToMatConvF` (string dispatch inside the model)"""
    import tme.matching_utils as mu
    conv, ang = case["convention"], [float(x) for x in case["angles"]]
    inp = {"kind": "conv", "convention": conv, "angles": ang}
    try:
        R = np.asarray(mu.euler_to_rotationmatrix(tuple(ang), convention=conv))
        impl = "matrix" if R.shape == (3, 3) else "shape:" + str(R.shape)
    except ValueError:
        R, impl = None, "err:ValueError"
    except Exception as e:
        R, impl = None, "raised:" + type(e).__name__
    m = ctx.driver.call("c07.eulerConv", convention=conv, angles=[f2b(x) for x in ang])
    model = m if isinstance(m, str) else "matrix"
    ctx.agree("euler_to_rotationmatrix: convention accepted / rejected", inp, impl, model)
    ctx.count("conv:" + impl.split(":")[-1])
    if impl == "matrix" and model == "matrix":
        mm = b2a(m).reshape(3, 3)
        ctx.agree("euler_to_rotationmatrix(convention)", inp, R, mm,
                  eq=lambda a, b: bool(np.abs(np.array(a, dtype=np.float64) - np.array(b, dtype=np.float64)).max() <= TOL_E32))
        oe, de = _eye_err(R[None])
        ctx.spec("orthonormal, det +1", inp, bool(oe[0] <= 1e-5 and de[0] <= 1e-5), {"R": R}, key="euler:proper")
    ctx.distinct(("conv", conv, len(ang)))


def _gen_conv(ctx, rng, n):
    letters = "xyzXYZ"
    cases = []
    fixed = [("zyx", 3), ("zyx", 2), ("zyx", 1), ("zyx", 0), ("zyx", 4), ("zy", 3), ("zzx", 3), ("zyX", 3), ("zya", 3),
             ("", 3), ("zyxz", 3), ("ZXZ", 3), ("XYZ", 2), ("z", 1), ("xyzx", 4), ("zxz", 2), ("Zyx", 2), ("zy x", 3),
             ("ZYX", 3), ("xx", 2), ("x", 2), ("XYz", 2), ("abc", 3)]
    for conv, k in fixed:
        cases.append({"kind": "conv", "convention": conv, "angles": rng.uniform(-170, 170, size=k).tolist()})
    for s in _SEQS:
        cases.append({"kind": "conv", "convention": s, "angles": rng.uniform(-170, 170, size=3).tolist()})
    for _ in range(n):
        L = int(rng.integers(0, 6))
        pool = letters if rng.random() < 0.8 else letters + "abw "
        if rng.random() < 0.6:          # mostly one case only, so that many strings are accepted
            pool = "xyz" if rng.random() < 0.5 else "XYZ"
        conv = "".join(rng.choice(list(pool), size=L)) if L else ""
        cases.append({"kind": "conv", "convention": conv, "angles": rng.uniform(-170, 170, size=int(rng.integers(0, 5))).tolist()})
    return cases


def _case_cone(ctx, case):
    """get_rotations_around_vector about the default axis"""
    import tme.matching_utils as mu
    ca, cs = float(case["cone_angle"]), float(case["cone_sampling"])
    aa, asamp, ns = float(case.get("axis_angle", 360.0)), case.get("axis_sampling"), int(case.get("n_symmetry", 1))
    inp = {"kind": "cone", "cone_angle": ca, "cone_sampling": cs, "axis_angle": aa, "axis_sampling": asamp, "n_symmetry": ns}
    kw = dict(cone_angle=ca, cone_sampling=cs, axis_angle=aa, axis_sampling=asamp, n_symmetry=ns)
    # how the numbers are handed over: Python floats (default), Python ints, numpy scalars
    types = case.get("types")
    if types:
        inp["types"] = types
        conv_t = {"int": lambda x: int(x) if float(x).is_integer() else x,
                  "np.float64": np.float64, "np.float32": lambda x: np.float32(x) if float(np.float32(x)) == x else x,
                  "np.int64": lambda x: np.int64(x) if float(x).is_integer() else x}[types]
        for k in ("cone_angle", "cone_sampling", "axis_angle", "axis_sampling"):
            if kw[k] is not None:
                kw[k] = conv_t(kw[k])
        if types == "np.int64":
            kw["n_symmetry"] = np.int64(ns)
    if case.get("omit_defaults"):          # leave the optional arguments out when they have their default value
        inp["omit_defaults"] = True
        for k, dflt in (("axis_angle", 360.0), ("axis_sampling", None), ("n_symmetry", 1)):
            if kw[k] is None or (dflt is not None and kw[k] == dflt):
                kw.pop(k)
    # the default axis given explicitly (same direction, several containers)
    vec = case.get("vector")
    if vec:
        inp["vector"] = vec
        kw["vector"] = {"tuple": (1, 0, 0), "float-tuple": (1.0, 0.0, 0.0), "list": [1, 0, 0],
                        "f8": np.array([1.0, 0.0, 0.0]), "f4": np.array([1, 0, 0], dtype=np.float32),
                        "int-array": np.array([1, 0, 0]), "readonly": _relayout(np.array([1.0, 0.0, 0.0]), "readonly"),
                        "scaled": (2.0, 0.0, 0.0), "scaled-small": [0.25, 0, 0]}[vec]
    ctx.count("cone:types=" + (types or "float"))
    ctx.count("cone:vector=" + (vec or "omitted"))
    conv = case.get("convention")
    tolm = TOL_CONE
    import warnings
    try:
        with warnings.catch_warnings():
            warnings.simplefilter("ignore")          # scipy's gimbal-lock notice for Euler output
            out = mu.get_rotations_around_vector(**kw) if conv is None else mu.get_rotations_around_vector(convention=conv, **kw)
    except Exception as e:
        ctx.agree("get_rotations_around_vector", inp, "raised:" + type(e).__name__, "returned")
        ctx.spec("cone sampling about the default axis returns rotations", inp, False,
                 {"raised": type(e).__name__, "message": str(e)[:200]}, key="cone:raised")
        return
    if conv is None:
        R = np.asarray(out)
    else:
        # Euler-angle output: the clauses are evaluated on the rotations these angles denote
        from scipy.spatial.transform import Rotation
        E = np.asarray(out)
        inp["convention"] = conv
        ok = E.ndim == 2 and E.shape[1] == 3
        ctx.spec("returns Euler triples", inp, ok, {"shape": E.shape}, key="cone:shape")
        if not ok:
            return
        R = Rotation.from_euler(conv, E, degrees=True).as_matrix()
        tolm = 1e-7
        ctx.count("cone:convention=" + conv)
    asm = cs if asamp is None else float(asamp)
    args = dict(coneAngle=f2b(ca), coneSampling=f2b(cs), axisAngle=f2b(aa), axisSampling=f2b(asm), nSym=ns)
    cnt = ctx.driver.call("c07.coneCounts", **args)
    rings = b2a(cnt["rings"])
    # a ring count that is an integer up to rounding noise (but not the exact 0 of sin 0) may ceil() either way
    boundary = bool(np.any((np.abs(rings - np.round(rings)) < 1e-9) & (rings != 0.0)))
    expect = cnt["n"] * cnt["phiSteps"]
    if boundary and len(R) != expect:
        ctx.count("cone:boundary-not-compared")
    else:
        ctx.agree("get_rotations_around_vector: count", inp, len(R), expect)
        if len(R) == expect and expect <= case.get("max_model", 6000):
            mod = ctx.driver.call("c07.cone", **args)
            M = b2a(mod["mats"]).reshape(-1, 3, 3)
            ctx.agree("get_rotations_around_vector: matrices", inp, [], [] if np.abs(M - R).max() <= tolm else
                      {"first_bad": int(np.argmax(np.abs(M - R).reshape(len(R), -1).max(axis=1))), "err": float(np.abs(M - R).max())})
            ctx.count("cone:matrices-compared", len(R))
    # clauses
    ok_shape = R.ndim == 3 and R.shape[1:] == (3, 3) and len(R) > 0
    ctx.spec("returns rotation matrices", inp, ok_shape, {"shape": R.shape}, key="cone:shape")
    if ok_shape:
        oe, de = _eye_err(R)
        i = int(np.argmax(np.maximum(oe, de)))
        ctx.spec("orthonormal, det +1", {**inp, "index": i}, bool(oe[i] <= 1e-9 and de[i] <= 1e-9), {"R": R[i]}, key="cone:proper")
        tilt = np.degrees(np.arccos(np.clip(R[:, 0, 0], -1, 1)))
        i = int(np.argmax(tilt))
        # matrices rebuilt from Euler angles carry ~1e-15 in R00, i.e. sqrt(2e-15) rad = 2.6e-6 deg at tilt 0
        ctx.spec("axis stays inside the requested cone", {**inp, "index": i}, bool(tilt[i] <= ca + (1e-6 if conv is None else 1e-4)),
                 {"tilt": tilt[i], "R": R[i]}, key="cone:axis-inside")
        # the sampling really uses the cone: the largest tilt comes close to the requested half-angle
        ctx.count("cone:max-tilt/angle>=0.9" if ca == 0 or tilt.max() >= 0.9 * ca else "cone:max-tilt/angle<0.9")
    ctx.count(f"cone:nsym={ns}")
    ctx.count("cone:axis_sampling=" + ("default" if asamp is None else "given"))
    ctx.count("cone:returned>10000" if len(R) > 10000 else "cone:returned<=10000")
    ctx.distinct(("cone", ca, cs, aa, asamp, ns, conv, types, vec))
    if case.get("sample"):
        ctx.sample({**inp, "returned": len(R), "model_points": cnt["n"], "model_phi_steps": cnt["phiSteps"],
                    "max_tilt": float(tilt.max()) if ok_shape else None})


def _case_conevec(ctx, case):
    """get_rotations_around_vector about a general axis (convention=None): V * R_zyx(a, b, phi + a_V), vs
    `Pm.C07.coneMatricesVec`; axes whose aligning rotation is near gimbal lock (|V02| > 0.95) or nearly antiparallel
    to the first coordinate axis are not generated (the code goes through Euler angles of V there)"""
    import tme.matching_utils as mu
    ca, cs = float(case["cone_angle"]), float(case["cone_sampling"])
    aa, asamp, ns = float(case.get("axis_angle", 360.0)), case.get("axis_sampling"), int(case.get("n_symmetry", 1))
    w = [float(x) for x in case["vector"]]
    cont = case.get("container", "tuple")
    inp = {"kind": "conevec", "cone_angle": ca, "cone_sampling": cs, "axis_angle": aa, "axis_sampling": asamp,
           "n_symmetry": ns, "vector": w, "container": cont}
    import warnings
    try:
        with warnings.catch_warnings(), np.errstate(all="ignore"):
            warnings.simplefilter("ignore")
            R = np.asarray(mu.get_rotations_around_vector(cone_angle=ca, cone_sampling=cs, axis_angle=aa, axis_sampling=asamp,
                                                          vector=_align_arg(w, cont), n_symmetry=ns))
            V = np.asarray(mu.rotation_aligning_vectors([1, 0, 0], _align_arg(w, cont)), dtype=np.float64)
    except Exception as e:
        ctx.agree("get_rotations_around_vector(vector)", inp, "raised:" + type(e).__name__, "returned")
        return
    if not np.isfinite(V).all() or abs(V[0, 2]) > 0.95:
        ctx.count("conevec:gimbal-or-antiparallel-not-compared")
        return
    asm = cs if asamp is None else float(asamp)
    args = dict(coneAngle=f2b(ca), coneSampling=f2b(cs), axisAngle=f2b(aa), axisSampling=f2b(asm), nSym=ns)
    cnt = ctx.driver.call("c07.coneCounts", **args)
    rings = b2a(cnt["rings"])
    boundary = bool(np.any((np.abs(rings - np.round(rings)) < 1e-9) & (rings != 0.0)))
    expect = cnt["n"] * cnt["phiSteps"]
    ok_shape = R.ndim == 3 and R.shape[1:] == (3, 3) and len(R) > 0
    ctx.spec("returns rotation matrices", inp, ok_shape, {"shape": R.shape}, key="cone:shape")
    if not ok_shape:
        return
    if boundary and len(R) != expect:
        ctx.count("conevec:boundary-not-compared")
    else:
        ctx.agree("get_rotations_around_vector(vector): count", inp, len(R), expect)
        if len(R) == expect and expect <= 6000:
            mod = ctx.driver.call("c07.coneVec", vector=[f2b(x) for x in w], **args)
            M = b2a(mod["mats"]).reshape(-1, 3, 3)
            ctx.agree("get_rotations_around_vector(vector): matrices = V * Rzyx(a, b, phi + aV)", inp, [],
                      [] if np.abs(M - R).max() <= 2e-6 else
                      {"first_bad": int(np.argmax(np.abs(M - R).reshape(len(R), -1).max(axis=1))), "err": float(np.abs(M - R).max())})
            ctx.count("conevec:matrices-compared", len(R))
    oe, de = _eye_err(R)
    i = int(np.argmax(np.maximum(oe, de)))
    ctx.spec("orthonormal, det +1", {**inp, "index": i}, bool(oe[i] <= 1e-6 and de[i] <= 1e-6), {"R": R[i]}, key="cone:proper")
    w32 = np.array(w, dtype=np.float32).astype(np.float64)
    wn = w32 / np.linalg.norm(w32)
    tilt = np.degrees(np.arccos(np.clip(R[:, :, 0] @ wn, -1, 1)))
    i = int(np.argmax(tilt))
    ctx.spec("general axis: the image of the first coordinate axis stays inside the requested cone about the vector",
             {**inp, "index": i}, bool(tilt[i] <= ca + 0.05), {"tilt": tilt[i], "R": R[i]}, key="conevec:axis-inside")
    ctx.count("conevec:container=" + cont)
    ctx.distinct(("conevec", ca, cs, aa, asamp, ns, [round(x, 5) for x in w]))
    if case.get("sample"):
        ctx.sample({**inp, "returned": len(R), "max_tilt": float(tilt.max())})


def _gen_conevec(ctx, rng, n):
    grid = [(30, 10, 360, None, 1), (45, 10, 180, 15, 2), (60, 15, 90, 30, 4), (15, 5, 360, 20, 1), (90, 30, 360, 45, 3),
            (0, 10, 360, 60, 1), (20, 3, 360, 40, 6), (12.5, 2.5, 120, 7.5, 1)]
    conts = ["tuple", "list", "f8", "f4"]
    cases = []
    fixed = [(0.0, 1.0, 0.0), (1.0, 1.0, 0.0), (1.0, 0.0, 0.0), (3.0, 0.0, 0.0), (1.0, -2.0, 0.5), (0.3, 0.5, 0.8), (-1.0, 1.0, 0.0)]
    k = 0
    for i in range(n + len(fixed)):
        if i < len(fixed):
            w = np.array(fixed[i])
        else:
            w = rng.normal(size=3) * float(10 ** rng.uniform(-1, 1))
            if w[0] / np.linalg.norm(w) < -0.9:
                w[0] = -w[0]
        a, s_, aa, asm, ns = grid[i % len(grid)]
        cases.append({"kind": "conevec", "cone_angle": a, "cone_sampling": s_, "axis_angle": aa, "axis_sampling": asm,
                      "n_symmetry": ns, "vector": [float(x) for x in w], "container": conts[i % 4]})
    cases[0]["sample"] = True
    return cases


def _case_qr(ctx, case):
    """get_rotation_matrices for dim != 3 / use_optimized_set=False: random QR factors, det fixed, identity first"""
    import tme.matching_utils as mu
    dim, ang, seed = int(case["dim"]), float(case["angle"]), int(case["seed"])
    inp = {"kind": "qr", "dim": dim, "angle": ang, "seed": seed, "default_flag": bool(case.get("default_flag"))}
    # how the numbers are handed over (values unchanged): Python int / numpy scalars for whole angles, numpy dim
    atype = case.get("atype")
    ang_arg, dim_arg = ang, dim
    if atype:
        inp["atype"] = atype
        if atype == "np.float64":
            ang_arg = np.float64(ang)
        elif ang.is_integer():
            ang_arg = int(ang) if atype == "int" else np.int64(ang)
        if atype.startswith("np."):
            dim_arg = np.int64(dim)
    ctx.count("qr:atype=" + (atype or "float"))
    rec = {}
    orig = np.linalg.qr

    def spy(a, *args, **kw):
        out = orig(a, *args, **kw)
        rec["q"] = np.array(out[0], copy=True)
        return out
    np.random.seed(seed)
    np.linalg.qr = spy
    try:
        try:
            if case.get("default_flag") and dim != 3:
                R = np.asarray(mu.get_rotation_matrices(ang_arg, dim=dim_arg))
            else:
                R = np.asarray(mu.get_rotation_matrices(ang_arg, dim=dim_arg, use_optimized_set=False))
            raised = None
        except Exception as e:
            R, raised = None, type(e).__name__
    finally:
        np.linalg.qr = orig
    k = ctx.driver.call("c07.numRandom", angle=f2b(ang), dim=dim)
    if raised is not None:
        ctx.agree("get_rotation_matrices(QR): count", inp, "raised:" + raised, "raised:IndexError" if k == 0 else k)
        ctx.count("qr:raised")
        return
    ctx.agree("get_rotation_matrices(QR): count", inp, len(R), k)
    if "q" in rec and len(rec["q"]) == len(R) and 0 < len(R) * dim * dim <= 60000:
        Q = rec["q"]
        oe, _ = _eye_err(Q)
        ctx.obligation("contract numpy.linalg.qr: orthonormal factor", bool(oe.max() <= 1e-9), {"err": float(oe.max())})
        mod = ctx.driver.call("c07.fixRotations", dim=dim, mats=a2b(Q))
        if isinstance(mod, str):
            ctx.agree("get_rotation_matrices(QR): post-processing", inp, "returned", mod)
        else:
            M = b2a(mod["mats"]).reshape(R.shape)
            ctx.agree("get_rotation_matrices(QR): post-processing", inp, [], [] if np.array_equal(M, R) else
                      {"first_bad": int(np.argmax(np.abs(M - R).reshape(len(R), -1).max(axis=1)))})
            ctx.count("qr:flipped", int(sum(mod["negdet"])))
    ok_shape = R.ndim == 3 and R.shape[1:] == (dim, dim) and len(R) > 0
    ctx.spec("returns dim×dim matrices", inp, ok_shape, {"shape": R.shape}, key="qr:shape")
    if ok_shape:
        oe, de = _eye_err(R)
        i = int(np.argmax(np.maximum(oe, de)))
        ctx.spec("orthonormal, det +1", {**inp, "index": i}, bool(oe[i] <= 1e-9 and de[i] <= 1e-9),
                 {"R": R[i], "det": float(np.linalg.det(R[i]))}, key="qr:proper")
        ctx.spec("first member is the identity", inp, bool(np.array_equal(R[0], np.eye(dim))), {"R0": R[0]}, key="qr:identity-first")
    ctx.count(f"qr:dim={dim}")
    ctx.count("qr:use_optimized_set=" + ("default" if case.get("default_flag") and dim != 3 else "False"))
    if len(R) > 1:
        ctx.distinct(("qr", dim, ang, seed, atype))
    if case.get("sample"):
        ctx.sample({**inp, "returned": len(R), "model_count": k})


def _nearest_deg(tree, x):
    d, _ = tree.query(x)
    return np.degrees(2 * np.arccos(np.clip(1 - np.asarray(d) ** 2 / 2, -1, 1)))


def _case_cover(ctx, case):
    """SEARCH for an orientation farther than the nominal angle from every member of a set (numerical only)"""
    from scipy.spatial import cKDTree
    from scipy.optimize import minimize
    S = sets()
    name = case["set"]
    alpha = float(S.meta[name][1])
    limit = alpha * COVER_REL + COVER_ABS
    q = np.asarray(S.raw[name], dtype=np.float64)[:, :4]
    q = q / np.linalg.norm(q, axis=1)[:, None]
    tree = cKDTree(np.vstack([q, -q]))
    inp = {"kind": "cover", "set": name, "nominal_angle": alpha}
    if "orientation" in case:            # replay of a found orientation
        x = np.asarray(case["orientation"], dtype=np.float64)
        x = x / np.linalg.norm(x)
        dist = float(_nearest_deg(tree, x))
        ctx.spec("every orientation within the nominal angle of a member (search)", {**inp, "orientation": x},
                 dist <= limit, {"distance_deg": dist, "limit": limit}, key="cover:" + name)
        return
    rng = np.random.default_rng(case["seed"])
    M, starts = int(case["samples"]), int(case["starts"])
    best, best_x = -1.0, None
    cand = []
    for s in range(0, M, 100000):
        x = rng.normal(size=(min(100000, M - s), 4))
        x /= np.linalg.norm(x, axis=1)[:, None]
        a = _nearest_deg(tree, x)
        top = np.argsort(-a)[:starts]
        cand += [(float(a[i]), x[i]) for i in top]
    # neighbourhoods of members: rotate a member by ~the nominal angle about random axes
    nb = int(case.get("near_members", 0))
    if nb:
        mem = q[rng.integers(0, len(q), size=nb)]
        ax = rng.normal(size=(nb, 3))
        ax /= np.linalg.norm(ax, axis=1)[:, None]
        h = np.radians(alpha * rng.uniform(0.7, 1.0, size=nb)) / 2
        dq = np.concatenate([np.cos(h)[:, None], ax * np.sin(h)[:, None]], axis=1)
        w1, x1, y1, z1 = mem.T
        w2, x2, y2, z2 = dq.T
        x = np.stack([w1 * w2 - x1 * x2 - y1 * y2 - z1 * z2, w1 * x2 + x1 * w2 + y1 * z2 - z1 * y2,
                      w1 * y2 - x1 * z2 + y1 * w2 + z1 * x2, w1 * z2 + x1 * y2 - y1 * x2 + z1 * w2], axis=1)
        a = _nearest_deg(tree, x)
        top = np.argsort(-a)[:starts]
        cand += [(float(a[i]), x[i]) for i in top]
    cand.sort(key=lambda t: -t[0])
    sampled_max = cand[0][0]
    # exhaustive candidate list: the farthest points from a finite set on S^3 are the Voronoi vertices = the
    # facet normals of the convex hull of {±q} in R^4 (numerical Delaunay; still a search, not a proof)
    hull_max = None
    if case.get("hull"):
        try:
            from scipy.spatial import ConvexHull
            P = np.vstack([q, -q])
            h = ConvexHull(P)
            nrm = h.equations[:, :4]
            dots = np.einsum("ij,ij->i", nrm, P[h.simplices[:, 0]])
            top = np.argsort(dots)[:starts]
            ys = nrm[top] / np.linalg.norm(nrm[top], axis=1)[:, None]
            a = _nearest_deg(tree, ys)          # verified against the members, independent of the hull
            hull_max = float(a.max())
            cand = [(float(a[i]), ys[i]) for i in np.argsort(-a)[:starts // 2]] + cand
            ctx.count("cover:hull-facets", len(h.simplices))
            ctx.count("cover:sets-with-exhaustive-vertex-enumeration")
        except Exception as e:
            ctx.count("cover:hull-failed:" + type(e).__name__)
    for a0, base in cand[:starts]:
        B = np.linalg.svd(base.reshape(1, 4))[2][1:]

        def obj(v):
            y = base + v @ B
            return -float(tree.query(y / np.linalg.norm(y))[0])
        r = minimize(obj, np.zeros(3), method="Nelder-Mead",
                     options={"xatol": 1e-7, "fatol": 1e-11, "maxfev": 400,
                              "initial_simplex": np.vstack([np.zeros(3), np.eye(3) * np.radians(alpha) / 4])})
        y = base + r.x @ B
        y /= np.linalg.norm(y)
        d = float(_nearest_deg(tree, y))
        if d > best:
            best, best_x = d, y
    ctx.evaluations += M + nb
    ctx.spec("every orientation within the nominal angle of a member (search)", {**inp, "orientation": best_x},
             best <= limit, {"distance_deg": best, "limit": limit, "sampled_max": sampled_max, "voronoi_vertex_max": hull_max},
             key="cover:" + name)
    ctx.count("cover:sets-searched")
    ctx.count("cover:orientations-sampled", M + nb)
    ctx.extra.setdefault("covering_search", {})[name] = {"nominal": alpha, "farthest_found": round(best, 4),
                                                          "ratio": round(best / alpha, 5), "samples": M + nb,
                                                          "voronoi_vertex_max": None if hull_max is None else round(hull_max, 4)}
    ctx.distinct(("cover", name))
    if case.get("sample"):
        ctx.sample({**inp, "farthest_found_deg": best, "orientation": best_x.tolist(), "samples": M + nb})


_CASES = {"table": _case_table, "setrows": _case_setrows, "request": _case_request, "session": _case_session,
          "quat": _case_quat, "euler": _case_euler, "euler2": _case_euler2, "cone": _case_cone, "qr": _case_qr, "align": _case_align, "conv": _case_conv, "conevec": _case_conevec,
          "cover": _case_cover}


def _do(ctx, case):
    _CASES[case["kind"]](ctx, case)


# =================================================================================================================
# generators
# =================================================================================================================
def _gen_requests(ctx, rng, n_random):
    S = sets()
    angs = sorted({a for _, _, a in S.table})
    out = []
    for a in angs:
        out += [a, np.nextafter(a, 0), np.nextafter(a, 1000)]
    for lo, hi in zip(angs[:-1], angs[1:]):
        mid = float(Fraction(repr(lo)) / 2 + Fraction(repr(hi)) / 2)   # nearest double to the exact midpoint
        out += [mid, np.nextafter(mid, 0), np.nextafter(mid, 1000), (lo + hi) / 2]
    out += [float(x) for x in rng.uniform(3.0, 70.0, size=n_random)]
    out += [float(np.exp(x)) for x in rng.uniform(np.log(0.5), np.log(400.0), size=n_random // 2)]
    out += [round(float(x), 1) for x in rng.uniform(3.0, 70.0, size=n_random // 2)]
    cases = [{"kind": "request", "angle": float(a)} for a in out]
    cases += [{"kind": "request", "angle": int(a), "int": True} for a in list(range(1, 66, 3)) + [90, 180, 360, 100000]]
    cases += [{"kind": "request", "angle": a} for a in (0.0, -5.0, -62.8, 1e-9, 1e9, float("inf"))]
    for c in [c for c in cases if 20.0 < c["angle"] < 21.0][:1] + [c for c in cases if 50.0 < c["angle"] < 56.0][:1]:
        c["sample"] = True
    # ---- the same kind of requests as numpy scalars and through every way of calling
    mids = [float(Fraction(repr(lo)) / 2 + Fraction(repr(hi)) / 2) for lo, hi in zip(angs[:-1], angs[1:])]
    typed = []
    pool = [float(a) for a in angs] + [float(x) for x in rng.uniform(3.0, 70.0, size=max(8, n_random // 2))] + mids
    for i, a in enumerate(pool):
        t = ["np.float64", "np.float32", "np.float64", "np.float32"][i % 4]
        if t == "np.float32" and min(abs(float(np.float32(a)) - m) for m in mids) < 1e-3:
            t = "np.float64"          # single-precision arithmetic may legitimately tie at a midpoint
        typed.append({"kind": "request", "angle": a, "type": t, "call": _REQ_CALLS[i % len(_REQ_CALLS)]})
    for i, a in enumerate(list(range(4, 66, 5)) + [7, 90, 360]):
        typed.append({"kind": "request", "angle": int(a), "int": True, "type": ["np.int64", "np.int32"][i % 2],
                      "call": _REQ_CALLS[(i + 2) % len(_REQ_CALLS)]})
    for i, a in enumerate([float(x) for x in rng.uniform(5.0, 70.0, size=len(_REQ_CALLS))]):
        typed.append({"kind": "request", "angle": a, "call": _REQ_CALLS[i]})
    return cases + typed


def _gen_sessions(ctx, rng, n):
    """sequences of requests in one process (answers served from the small and medium sets)"""
    S = sets()
    angs = sorted(a for k, _, a in S.table if S.state[k] == "ok" and S.meta[k][0] <= 20000)
    if len(angs) < 3:
        return []
    cases = []
    for j in range(n):
        a, b, c = (float(x) for x in rng.choice(angs, size=3, replace=False))
        jit = lambda x: float(x + rng.uniform(-0.15, 0.15))
        steps = [{"angle": a}, {"angle": b}, {"angle": a},                      # again after another set was served
                 {"angle": jit(a), "type": "np.float64"}, {"angle": jit(c), "call": "keyword"},
                 {"angle": int(round(b)), "int": True}, {"angle": float(int(round(b)))},   # 40 and 40.0
                 {"angle": a, "cwd": True}, {"angle": jit(b), "type": "np.float32", "call": "all-keyword"},
                 {"angle": c}, {"angle": c}]
        k = int(rng.integers(5, len(steps) + 1)) if j else len(steps)
        order = list(range(len(steps))) if j == 0 else sorted(rng.choice(len(steps), size=k, replace=False).tolist())
        cases.append({"kind": "session", "steps": [steps[i] for i in order]})
    return cases


def _unit_quats(rng, n):
    q = rng.normal(size=(n, 4))
    return q / np.linalg.norm(q, axis=1)[:, None]


_INT_QUATS = [[1, 0, 0, 0], [0, 1, 0, 0], [0, 0, 1, 0], [0, 0, 0, 1], [-1, 0, 0, 0], [0, -1, 0, 0], [0, 0, -1, 0],
              [0, 0, 0, -1]]


def _special_quats(rng, n):
    """half turns (scalar part exactly 0), rotations by tiny angles, negative scalar parts, sparse quaternions"""
    out = []
    for i in range(n):
        ax = rng.normal(size=3)
        ax /= np.linalg.norm(ax)
        kind = i % 4
        if kind == 0:
            q = np.concatenate([[0.0], ax])
        elif kind == 1:
            h = float(10.0 ** rng.uniform(-9, -3))
            q = np.concatenate([[math.cos(h)], math.sin(h) * ax])
        elif kind == 2:
            h = float(rng.uniform(math.pi / 2, math.pi))
            q = np.concatenate([[math.cos(h)], math.sin(h) * ax])
        else:
            q = np.zeros(4)
            j, k = rng.choice(4, size=2, replace=False)
            t = float(rng.uniform(0, 2 * math.pi))
            q[j], q[k] = math.cos(t), math.sin(t)
        out.append(q)
    return np.array(out)


def _gen_quats(ctx, rng, n, big=1):
    cases = [{"kind": "quat", "q": np.array([[1, 0, 0, 0], [0, 1, 0, 0], [0, 0, 1, 0], [0, 0, 0, 1], [-1, 0, 0, 0],
                                             [0.5, 0.5, 0.5, 0.5], [0.5, -0.5, 0.5, -0.5],
                                             [math.sqrt(0.5), 0, math.sqrt(0.5), 0]], dtype=float)}]
    for _ in range(n):
        cases.append({"kind": "quat", "q": _unit_quats(rng, int(rng.integers(2, 6)))})
    for _ in range(max(2, n // 8)):
        q = _unit_quats(rng, 3) * rng.uniform(0.2, 3.0, size=(3, 1))
        cases.append({"kind": "quat", "q": q, "unit": False})
    # ---- every memory layout x float dtype, random and special rotations, batches of 1 .. 7 rows
    off = int(rng.integers(0, len(LAYOUTS)))
    for i in range(max(2 * len(LAYOUTS), n // 2)):
        lay = LAYOUTS[(i + off) % len(LAYOUTS)]
        dt = "f4" if (i // len(LAYOUTS)) % 2 else "f8"
        q = _special_quats(rng, int(rng.integers(1, 8))) if i % 3 == 0 else _unit_quats(rng, int(rng.integers(1, 8)))
        cases.append({"kind": "quat", "q": q, "dtype": dt, "layout": lay})
    # ---- integer arrays (the eight unit quaternions with integer entries)
    for i, dt in enumerate(["i8", "i4", "i1", "i8"]):
        idx = rng.permutation(len(_INT_QUATS))[:int(rng.integers(2, 9))]
        cases.append({"kind": "quat", "q": np.array(_INT_QUATS, dtype=float)[idx], "dtype": dt,
                      "layout": ["C", "F", "readonly", "strided"][i]})
    # ---- batch sizes: none, one, more than 10 000
    cases.append({"kind": "quat", "q": np.zeros((0, 4))})
    cases.append({"kind": "quat", "q": np.zeros((0, 4)), "dtype": "f4", "layout": "F"})
    for i in range(big):
        cases.append({"kind": "quat", "gen_seed": int(rng.integers(0, 2**31)), "n": int(rng.integers(10001, 14000)),
                      "dtype": ["f8", "f4"][i % 2], "layout": ["colview", "F", "memmap", "strided"][i % 4]})
    return cases


# all 24 sequences scipy knows: 6 Tait-Bryan + 6 proper Euler, extrinsic (lower case) and intrinsic (upper case)
_SEQS = [a + b + c for a in "xyz" for b in "xyz" for c in "xyz" if a != b and b != c]
_SEQS = _SEQS + [x.upper() for x in _SEQS]
_MLAYOUTS = ["C", "F", "transposed", "strided", "reversed", "colview", "colstride", "offset", "readonly", "memmap", "bigendian"]


def _gen_euler(ctx, rng, n):
    cases = []
    for i in range(n):
        seq = "zyx" if i % 2 == 0 else str(rng.choice(_SEQS))
        proper_euler = seq[0].lower() == seq[2].lower()
        a = float(rng.uniform(-179.5, 179.5))
        c = float(rng.uniform(-179.5, 179.5))
        b = float(rng.uniform(5, 175)) if proper_euler else float(rng.uniform(-85, 85))
        if i % 7 == 0:
            a, b, c = float(round(a / 15) * 15), float(np.clip(round(b / 15) * 15, 15 if proper_euler else -75, 165 if proper_euler else 75)), float(round(c / 15) * 15)
            a, c = float(np.clip(a, -165, 165)), float(np.clip(c, -165, 165))
        case = {"kind": "euler", "seq": seq, "angles": [a, b, c], "canonical": True}
        if i % 2 == 1:            # every second case: another container for the angles / layout for the matrix
            case["container"] = _CONTAINERS[(i // 2) % len(_CONTAINERS)]
            case["mlayout"] = _MLAYOUTS[(i // 2) % len(_MLAYOUTS)]
            case["mdtype"] = ["f8", "f4"][(i // 2) % 2]
        elif i % 4 == 0:
            case["default_convention"] = True      # convention left out (zyx is the default)
            case["container"] = _CONTAINERS[(i // 4) % len(_CONTAINERS)]
            case["mlayout"] = _MLAYOUTS[(i // 4 + 3) % len(_MLAYOUTS)]
        cases.append(case)
    # every one of the 24 conventions at least twice whatever the budget
    for j, seq in enumerate(_SEQS * 2):
        proper_euler = seq[0].lower() == seq[2].lower()
        b = float(rng.uniform(5, 175)) if proper_euler else float(rng.uniform(-85, 85))
        cases.append({"kind": "euler", "seq": seq, "angles": [float(rng.uniform(-179.5, 179.5)), b, float(rng.uniform(-179.5, 179.5))],
                      "canonical": True, "container": _CONTAINERS[j % len(_CONTAINERS)],
                      "mlayout": _MLAYOUTS[j % len(_MLAYOUTS)], "mdtype": ["f4", "f8"][j % 2]})
    # 2x2 matrices (planar rotations)
    for j in range(max(len(_TAIT_BRYAN) + 4, n // 6)):
        case = {"kind": "euler2", "angle": float(rng.uniform(-179.5, 179.5)) if j % 5 else float(rng.choice([0.0, 90.0, -90.0, 45.0, 179.0])),
                "seq": "zyx" if j % 2 == 0 else _TAIT_BRYAN[(j // 2) % len(_TAIT_BRYAN)],
                "mdtype": ["f8", "f4"][(j // 2) % 2], "mlayout": _MLAYOUTS[j % len(_MLAYOUTS)]}
        if j % 4 == 0:
            case["default_convention"] = True
        cases.append(case)
    # angles outside the canonical range: only to(from(R)) = R is claimed
    for _ in range(max(3, n // 6)):
        cases.append({"kind": "euler", "seq": "zyx", "angles": [float(x) for x in rng.uniform(-720, 720, size=3)]})
    # fewer angles than letters (2-D callers pass (angle, 0))
    for _ in range(max(3, n // 10)):
        cases.append({"kind": "euler", "seq": "zyx", "angles": [float(rng.uniform(-180, 180)), float(rng.choice([0.0, 10.0, -33.0]))]})
    cases.append({"kind": "euler", "seq": "zyx", "angles": [0.0, 0.0, 0.0]})
    cases[0]["sample"] = True
    return cases


def _gen_cone(ctx, rng, n, big):
    grid = [(30, 10, 360, None, 1), (30, 5, 360, None, 1), (45, 10, 180, 15, 2), (60, 15, 90, 30, 4), (15, 5, 360, 20, 1),
            (90, 30, 360, 45, 3), (10, 10, 360, 90, 1), (5, 10, 360, None, 1), (0, 10, 360, 60, 1), (20, 3, 360, 40, 6),
            (150, 30, 360, 60, 1), (180, 45, 360, 90, 2), (12.5, 2.5, 120, 7.5, 1)]
    cases = [{"kind": "cone", "cone_angle": a, "cone_sampling": s, "axis_angle": aa, "axis_sampling": asm, "n_symmetry": ns}
             for a, s, aa, asm, ns in grid]
    for _ in range(n):
        ca = float(rng.uniform(1, 120))
        cs = float(rng.uniform(max(1.5, ca / 12), max(3.0, ca)))
        aa = float(rng.choice([360.0, 180.0, 90.0, float(rng.uniform(20, 360))]))
        asm = None if rng.random() < 0.3 else float(rng.uniform(8, 90))
        cases.append({"kind": "cone", "cone_angle": ca, "cone_sampling": cs, "axis_angle": aa, "axis_sampling": asm,
                      "n_symmetry": int(rng.integers(1, 7))})
    for conv, (a, sm, aa, asm, ns) in zip(["zyx", "xyz", "ZYX", "zxz"], grid[1:5]):
        cases.append({"kind": "cone", "cone_angle": a, "cone_sampling": sm, "axis_angle": aa, "axis_sampling": asm,
                      "n_symmetry": ns, "convention": conv})
    if big:
        cases.append({"kind": "cone", "cone_angle": 45.0, "cone_sampling": 5.0, "axis_angle": 360.0, "axis_sampling": None,
                      "n_symmetry": 1, "max_model": 40000})
    # ---- special values: sampling coarser than the cone / than the axis range, no axis range, symmetry finer than the
    #      axis sampling, half a degree of cone, more than 10 000 rotations
    special = [(30, 10, 40, 90, 1), (30, 10, 0.0, 10, 1), (30, 10, 360, 90, 8), (3, 10, 360, 720, 1), (0.5, 10, 360, 400, 1),
               (25, 25, 25, 25, 1), (10, 4, 15, 30, 2), (40, 3, 360, 10, 1), (60, 4, 360, 12, 1), (30, 10, 360, 360, 1),
               (30, 10, 360, 361, 1), (90, 90, 180, 90, 4)]
    for a, sm, aa, asm, ns in special:
        cases.append({"kind": "cone", "cone_angle": a, "cone_sampling": sm, "axis_angle": aa, "axis_sampling": asm, "n_symmetry": ns})
    # ---- the numbers as Python ints / numpy scalars, optional arguments left out, the default axis given explicitly
    types = ["int", "np.float64", "np.float32", "np.int64"]
    vectors = ["tuple", "float-tuple", "list", "f8", "f4", "int-array", "readonly", "scaled", "scaled-small"]
    base = grid + special
    off = int(rng.integers(0, len(base)))
    for i in range(max(3 * len(vectors), n)):
        a, sm, aa, asm, ns = base[(off + i) % len(base)]
        if (a / sm if sm else 0) > 12:      # keep these small
            continue
        case = {"kind": "cone", "cone_angle": a, "cone_sampling": sm, "axis_angle": aa, "axis_sampling": asm, "n_symmetry": ns}
        if i % 2 == 0:
            case["types"] = types[(i // 2) % len(types)]
        if i % 3 != 2:
            case["vector"] = vectors[i % len(vectors)]
        if i % 4 == 1:
            case["omit_defaults"] = True
        cases.append(case)
    # ---- Euler-angle output in more conventions (all 24 when `big`)
    convs = _SEQS if big else [_SEQS[int(k)] for k in rng.choice(len(_SEQS), size=6, replace=False)]
    for j, conv in enumerate(convs):
        a, sm, aa, asm, ns = [(30, 10, 360, None, 1), (20, 5, 180, 30, 2), (75, 15, 360, 45, 1)][j % 3]
        cases.append({"kind": "cone", "cone_angle": a, "cone_sampling": sm, "axis_angle": aa, "axis_sampling": asm,
                      "n_symmetry": ns, "convention": conv})
    cases[0]["sample"] = True
    return cases


def _gen_qr(ctx, rng, n):
    cases = [{"kind": "qr", "dim": 2, "angle": 60.0, "seed": 1}, {"kind": "qr", "dim": 2, "angle": 7.0, "seed": 2},
             {"kind": "qr", "dim": 3, "angle": 60.0, "seed": 3}, {"kind": "qr", "dim": 3, "angle": 45.0, "seed": 4},
             {"kind": "qr", "dim": 4, "angle": 120.0, "seed": 5}, {"kind": "qr", "dim": 2, "angle": 360.0, "seed": 6},
             {"kind": "qr", "dim": 2, "angle": 400.0, "seed": 7}, {"kind": "qr", "dim": 1, "angle": 30.0, "seed": 8}]
    for _ in range(n):
        dim = int(rng.choice([2, 2, 3, 3, 4]))
        lo = {2: 1.0, 3: 25.0, 4: 90.0}[dim]
        cases.append({"kind": "qr", "dim": dim, "angle": float(rng.uniform(lo, 200.0)), "seed": int(rng.integers(0, 2**31)),
                      "default_flag": bool(rng.random() < 0.5)})
    cases[0]["default_flag"] = True
    cases[4]["default_flag"] = True
    cases[2]["sample"] = True
    # ---- whole angles as Python ints / numpy scalars, numpy dim, five dimensions, exactly one / two matrices
    extra = [(2, 60.0, "int"), (2, 45.0, "np.int64"), (3, 90.0, "int"), (3, 72.0, "np.float64"), (4, 180.0, "np.int64"),
             (5, 200.0, None), (5, 250.0, "np.float64"), (2, 180.0, "int"), (2, 181.0, None), (3, 285.0, None),
             (2, 5.0, "int")]
    for dim, ang, at in extra:
        c = {"kind": "qr", "dim": dim, "angle": ang, "seed": int(rng.integers(0, 2**31)), "default_flag": bool(rng.random() < 0.5)}
        if at:
            c["atype"] = at
        cases.append(c)
    return cases


def _gen_align(ctx, rng, n):
    conts = ["list", "tuple", "f8", "f4"]
    cases = []

    def unit():
        x = rng.normal(size=3)
        return x / np.linalg.norm(x)
    for i in range(n):
        u = unit()
        w = np.cross(u, unit())
        w /= np.linalg.norm(w)
        if i % 5 == 0:
            th = float(rng.choice([0.5, 1.0, 2.0, 178.0, 179.0, 179.5, 90.0, 60.0, 120.0]))
        else:
            th = float(rng.uniform(0.5, 179.5))
        v = math.cos(math.radians(th)) * u + math.sin(math.radians(th)) * w
        su, sv = float(10 ** rng.uniform(-2, 2)), float(10 ** rng.uniform(-2, 2))
        cases.append({"kind": "align", "u": (su * u).tolist(), "v": (sv * v).tolist(), "container": conts[i % 4]})
    # default target [1, 0, 0]
    for i in range(max(4, n // 6)):
        u = unit()
        if abs(u[0]) > 0.9999:
            continue
        cases.append({"kind": "align", "u": (float(rng.uniform(0.1, 10)) * u).tolist(), "v": [1.0, 0.0, 0.0],
                      "container": conts[i % 4], "default_target": True})
    # coordinate axes and small integer vectors
    E = [[1.0, 0.0, 0.0], [0.0, 1.0, 0.0], [0.0, 0.0, 1.0]]
    for a in range(3):
        for b in range(3):
            if a != b:
                cases.append({"kind": "align", "u": E[a], "v": E[b], "container": conts[(a + b) % 4]})
    for _ in range(max(4, n // 6)):
        u, v = rng.integers(-5, 6, size=3).astype(float), rng.integers(-5, 6, size=3).astype(float)
        if not (np.abs(np.cross(u, v)).max() > 0):
            continue
        d = float(u @ v / np.linalg.norm(u) / np.linalg.norm(v))
        if abs(d) > math.cos(math.radians(0.5)):
            continue
        cases.append({"kind": "align", "u": u.tolist(), "v": v.tolist(), "container": "list"})
    # exactly parallel (scaled by a power of two), allclose, exactly antiparallel, zero vector
    for i in range(max(3, n // 10)):
        u = np.sign(rng.normal(size=3)) * rng.uniform(0.2, 1.0, size=3)
        u32 = u.astype(np.float32).astype(np.float64)
        t = float(2.0 ** int(rng.integers(-3, 4)))
        cases.append({"kind": "align", "u": u32.tolist(), "v": (t * u32).tolist(), "cls": "parallel", "container": conts[i % 4]})
        cases.append({"kind": "align", "u": u32.tolist(), "v": (u32 * (1 + 2e-7 * rng.uniform(-1, 1, size=3))).tolist(),
                      "cls": "close", "container": conts[(i + 1) % 4]})
        cases.append({"kind": "align", "u": u32.tolist(), "v": (-t * u32).tolist(), "cls": "antiparallel",
                      "container": conts[(i + 2) % 4]})
    cases.append({"kind": "align", "u": [1.0, 0.0, 0.0], "v": [-1.0, 0.0, 0.0], "cls": "antiparallel"})
    cases.append({"kind": "align", "u": [1.0, 0.0, 0.0], "v": [1.0, 0.0, 0.0], "cls": "parallel", "default_target": True})
    cases.append({"kind": "align", "u": [0.0, 0.0, 0.0], "v": [1.0, 0.0, 0.0], "cls": "zero"})
    cases[0]["sample"] = True
    return cases


def _row_sample(rng, n, cap):
    if n <= cap:
        return None
    idx = np.unique(np.concatenate([[0, 1, n - 1], rng.integers(0, n, size=cap)]))
    return idx.tolist()


def run(ctx):
    S = sets()
    rng = ctx.rng("main")
    _do(ctx, {"kind": "table"})
    # ---- every row of every readable set
    cap = ctx.budget(3000, 10**9)
    first = True
    for name, n, ang in S.readable():
        _do(ctx, {"kind": "setrows", "set": name, "rows": _row_sample(rng, len(S.raw[name]), cap), "sample": first})
        first = False
    # ---- requests
    for c in _gen_requests(ctx, rng, ctx.budget(40, 1200)):
        _do(ctx, c)
    for c in _gen_sessions(ctx, rng, ctx.budget(3, 40)):
        _do(ctx, c)
    # ---- quaternions, Euler angles, cone, QR
    for c in _gen_quats(ctx, rng, ctx.budget(60, 3000), ctx.budget(2, 8)):
        _do(ctx, c)
    for c in _gen_euler(ctx, rng, ctx.budget(150, 10000)):
        _do(ctx, c)
    for c in _gen_cone(ctx, rng, ctx.budget(12, 300), ctx.thorough):
        _do(ctx, c)
    for c in _gen_qr(ctx, rng, ctx.budget(10, 300)):
        _do(ctx, c)
    # ---- rotation_aligning_vectors (own stream: the draws of the streams above stay what they were)
    for c in _gen_align(ctx, ctx.rng("align"), ctx.budget(60, 3000)):
        _do(ctx, c)
    for c in _gen_conv(ctx, ctx.rng("conv"), ctx.budget(60, 2000)):
        _do(ctx, c)
    for c in _gen_conevec(ctx, ctx.rng("conevec"), ctx.budget(12, 200)):
        _do(ctx, c)
    ctx.note("rotation_aligning_vectors: antiparallel / zero vectors return a matrix of NaN (axis 0/0), mirrored by the model; "
             "pairs closer than 0.4 deg to (anti)parallel are compared only when exactly (anti)parallel / allclose")
    # ---- covering search (numerical, not a theorem)
    first = True
    for name, n, ang in S.readable():
        _do(ctx, {"kind": "cover", "set": name, "seed": int(rng.integers(0, 2**31)), "samples": ctx.budget(20000, 1000000),
                  "starts": ctx.budget(12, 48), "near_members": ctx.budget(5000, 100000), "sample": first,
                  "hull": True})
        first = False
    ctx.note("SO(3) covering: numerical search for a failing orientation only (no theorem); limit = nominal*%.3f + %.2f deg"
             % (COVER_REL, COVER_ABS))


def _search_kinds(ctx):
    """which streams to widen: those whose correspondence / obligation broke (everything when unclear)"""
    kinds = set()
    for d in ctx.disagreements:
        k = d.get("input", {}).get("kind") if isinstance(d.get("input"), dict) else None
        kinds.add(k or "all")
    for b in ctx.broken_obligations:
        n = b["obligation"]
        if n.startswith("metadata.yaml"):
            kinds |= {"request", "setrows", "cover"}
        elif n.startswith("data file digest"):
            kinds |= {"setrows", "cover", "request"}
        elif n.startswith("contract numpy.linalg.qr"):
            kinds.add("qr")
        else:
            kinds.add("all")
    if not kinds or "all" in kinds:
        kinds = set(_CASES)
    return kinds


def search(ctx):
    """correspondence / obligation broke without a failing clause: widen the streams concerned"""
    S = sets()
    rng = ctx.rng("search")
    kinds = _search_kinds(ctx)
    ctx.note("search widened: " + ",".join(sorted(kinds)))
    if "setrows" in kinds or "quat" in kinds:
        for name, n, ang in S.readable():
            _do(ctx, {"kind": "setrows", "set": name, "rows": None})
        for c in _gen_quats(ctx, rng, 800, 4):
            _do(ctx, c)
    if "request" in kinds or "session" in kinds:
        for c in _gen_requests(ctx, rng, 600):
            _do(ctx, c)
        for c in _gen_sessions(ctx, rng, 20):
            _do(ctx, c)
    if "euler" in kinds or "euler2" in kinds:
        for c in _gen_euler(ctx, rng, 2000):
            _do(ctx, c)
    if "cone" in kinds:
        for c in _gen_cone(ctx, rng, 80, True):
            _do(ctx, c)
    if "qr" in kinds:
        for c in _gen_qr(ctx, rng, 80):
            _do(ctx, c)
    if "align" in kinds:
        for c in _gen_align(ctx, rng, 1500):
            _do(ctx, c)
    if "conv" in kinds:
        for c in _gen_conv(ctx, rng, 1500):
            _do(ctx, c)
    if "conevec" in kinds:
        for c in _gen_conevec(ctx, rng, 100):
            _do(ctx, c)
    if "cover" in kinds:
        for name, n, ang in S.readable():
            _do(ctx, {"kind": "cover", "set": name, "seed": int(rng.integers(0, 2**31)), "samples": 300000,
                      "starts": 64, "near_members": 100000, "hull": True})


def replay(ctx, rec):
    case = rec.get("input") or {}
    if isinstance(case, dict) and case.get("kind") in _CASES:
        if case["kind"] == "setrows":
            case = {"kind": "setrows", "set": case["set"], "rows": [case.get("row", 0)]}
        _do(ctx, case)
    else:
        run(ctx)
