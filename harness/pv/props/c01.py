"""C01 — FFT-computed scores equal their spatial-domain definitions.

Leg B: the real `scan` of /repo (one rotation, score-map analyzer with the threshold far below the data) is
compared with (a) the Lean *implementation model* (stored-frame template, circular convolution on the fast
shape, roll/crop frame — `c01.int`/`c01.float` what=impl), (b) the Lean *spec* (windowed sums, natural frame —
what=spec) and (c) independent numpy textbook definitions (Pearson under the mask).

Streams of run(): main (all scores x 2-D/3-D x padding, every way of handing the arrays over, intensity scales and
offsets), shape profiles (non-fast FFT extents, long template axes), several rotations in one search observed one by
one through a user-supplied callback_class, consecutive searches on one shape with other contents (a failing case
carries its history in "before", so that its replay is self-contained), two-search sessions in reused worker processes.
A valid search that raises is a failure of the property with that input (key <score>:search-raises)."""
import contextlib
import io
import itertools
import os

import numpy as np

from .. import scoring as S
from ..driver import dec_float

ID = "C01"
RULE = ("integer-valued targets/templates in [-4,4] (FFT products exact after rounding), 2-D and 3-D, every parity "
        "combination of extents, masks full / binary / soft dyadic, all 4 / 24 grid rotations valid for the template "
        "shape, pad_fourier on/off, interpolation order 1/3, float32/float64 backends, all 7 scores. "
        "distinct = distinct (score, shapes, rotation, pad, order, precision, mask kind) tuples; identity-rotation "
        "cases on 1-voxel templates are trivial and not generated. Also varied: how the arrays are handed over (C / Fortran / "
        "reversed / strided / offset / axis-permuted views, read-only, numpy.memmap, tme Density; float16/32/64 and int8..64 "
        "buffers), default mask / default rotation / default pad and order left out, rank-2 and float64 rotation matrices, "
        "masks and rotations assigned after construction, target and template intensity scales and offsets (powers of two "
        "for CC/LCC), target extents whose FFT length is not fast (17, 19, 23, 31, 37, 46), template extents 5/7/9, centred masks and "
        "templates with an empty margin, several rotations in one search observed per rotation through a user-supplied "
        "callback, consecutive searches on one shape with other contents")
ASSUMPTIONS = ["pyFFTW: irfftn(rfftn(a)*rfftn(b)) is the circular convolution on the fast shape (modelled by Pm.C01.circ)",
               "voxels whose exact denominator vanishes (constant window under the mask) or that sit on an MCC threshold "
               "tie are excluded from the numeric comparison and counted (guard-tie voxels)",
               "LCC: scipy.ndimage.laplace(mode='wrap') is modelled by the periodic stencil lapWrap and compared",
               "the model standardises the template in the natural frame and reverses afterwards; the code standardises "
               "the stored array (equal in exact arithmetic: Pm.C01.normTemplate_rev)"]
TRUSTED = ["C01: DFT convolution theorem / pyFFTW; IEEE rounding (tolerances 2e-3 float32, 1e-7 float64 on scores in [-1,1]; "
           "CC/LCC compared exactly after rounding to integers)"]

TOL = {False: 2e-3, True: 1e-7}

# how an array can be handed to MatchingData (all of them hold the same values)
LAYOUTS = ["c", "f", "rev", "strided", "offset", "perm", "readonly", "memmap", "density"]
FLOAT_DTYPES = ["float64", "float32"]
EXACT_DTYPES = ["float16", "int8", "int16", "int32", "int64"]      # only for integral values of small magnitude
_files = []


def _present(a, layout, dtype):
    """the values of `a` (float64) as an object of the given dtype and memory layout"""
    a = np.asarray(a, dtype=np.float64).astype(dtype)
    nd = a.ndim
    if layout == "f":
        out = np.asfortranarray(a)
    elif layout == "rev":          # negative strides
        r = (slice(None, None, -1),) * nd
        out = np.ascontiguousarray(a[r])[r]
    elif layout == "strided":      # every second element of a larger buffer
        big = np.full([2 * x for x in a.shape], 77, dtype=dtype)
        sl = (slice(None, None, 2),) * nd
        big[sl] = a
        out = big[sl]
    elif layout == "offset":       # interior of a larger buffer
        big = np.full([x + 3 for x in a.shape], -55, dtype=dtype)
        sl = tuple(slice(1, 1 + x) for x in a.shape)
        big[sl] = a
        out = big[sl]
    elif layout == "perm":         # axes stored in another order
        ax = tuple(np.roll(np.arange(nd), 1))
        inv = tuple(np.argsort(ax))
        out = np.ascontiguousarray(a.transpose(ax)).transpose(inv)
    elif layout == "readonly":
        out = a.copy()
        out.setflags(write=False)
    elif layout == "memmap":
        from .. import env
        path = os.path.join(env.scratch(), "c01_%d_%d.bin" % (os.getpid(), len(_files)))
        _files.append(path)
        mm = np.memmap(path, dtype=dtype, mode="w+", shape=a.shape)
        mm[...] = a
        mm.flush()
        del mm
        out = np.memmap(path, dtype=dtype, mode="r", shape=a.shape)
    elif layout == "density":
        from tme.density import Density
        out = Density(a.copy())
    else:
        out = np.ascontiguousarray(a)
    chk = out.data if layout == "density" else out
    assert chk.shape == a.shape and np.array_equal(np.asarray(chk), a)
    return out


def _cleanup_files():
    while _files:
        try:
            os.remove(_files.pop())
        except OSError:
            pass


class _PerRotation:
    """user-supplied callback_class: keeps a copy of every per-rotation score array it is handed and brings it into the
    target's frame the way the score-map analyzer does (roll by fourier_shift, the library's own crop)"""
    shared = False

    def __init__(self, **kwargs):
        self.raw = []
        self.out = []

    def __call__(self, scores, rotation_matrix, **kwargs):
        self.raw.append((np.array(rotation_matrix, dtype=np.float64), np.array(scores)))

    def _postprocess(self, targetshape, templateshape, convolution_shape, fourier_shift=None, convolution_mode=None, **kwargs):
        from tme.matching_utils import apply_convolution_mode
        self.out = []
        for R, sc in self.raw:
            if fourier_shift is not None:
                sc = np.roll(sc, shift=tuple(int(x) for x in fourier_shift), axis=tuple(range(sc.ndim)))
            if convolution_mode is not None:
                sc = apply_convolution_mode(sc, convolution_mode=convolution_mode, s1=targetshape, s2=templateshape,
                                            convolution_shape=convolution_shape)
            self.out.append((R, np.array(sc, dtype=np.float64)))
        return self

    def __iter__(self):
        yield self.out

    @classmethod
    def merge(cls, callbacks, **kwargs):
        return callbacks


def _mask(rng, shape, kind):
    if kind in ("full", "none"):
        return np.ones(shape)
    if kind == "binary":
        for _ in range(20):
            m = (rng.random(shape) < 0.7).astype(float)
            if m.sum() >= 3:
                return m
        return np.ones(shape)
    if kind == "centred":
        # ones in a centred ellipsoid, zero margin where the extent allows one (the usual way masks are made);
        # invariant under every grid rotation that is valid for the shape
        g = np.indices(shape).astype(float)
        q = np.zeros(shape)
        for ax, mm in enumerate(shape):
            c = (mm - 1) / 2
            r = max(c - (1 if mm >= 4 else 0), 0.5)
            q += ((g[ax] - c) / r) ** 2
        m = (q <= 1.0 + 1e-9).astype(float)
        return m if m.sum() >= 3 else np.ones(shape)
    m = rng.choice([0.0, 0.25, 0.5, 1.0, 1.0], size=shape)
    if m.sum() < 2 or (m > 0).sum() < 3:
        m[...] = 1.0
    return m


def _mcc_numpy(target, tmask, gR, wR, ratio, pad, Ns, eps):
    """Padfield's masked NCC, directly (float64); returns (score, stable)"""
    f = target * (tmask > 0)
    ax = tuple(range(target.ndim, 2 * target.ndim))
    w = wR.astype(np.float64)
    n = w.sum()
    mu = (gR * w).sum() / n
    sd = np.sqrt(max((gR * gR * w).sum() / n - mu * mu, 0))
    gh = (gR - mu) / sd * w
    Wf, Wm = S.windows(f, gR.shape), S.windows(tmask.astype(float), gR.shape)
    ov0 = (Wm * w).sum(axis=ax)
    ov = np.maximum(ov0, eps)
    t = (Wf * w).sum(axis=ax)
    t2 = (Wm * gh).sum(axis=ax)
    num = (Wf * gh).sum(axis=ax) - t * t2 / ov
    d3 = np.maximum((Wf * Wf * w).sum(axis=ax) - t * t / ov, 0)
    d = np.maximum((Wm * gh * gh).sum(axis=ax) - t2 * t2 / ov, 0)
    den = np.sqrt(d3 * d)
    return num, den, ov


def _shapes(rng, nd, score, quick, profile):
    """(ns, ms).  profile 'std': small boxes of every parity; 'nonfast': one target extent whose FFT length is not a
    fast one (17 ... 46: conv shape != fast shape also without Fourier padding); 'long': one template extent 5 / 7 / 9"""
    mcc = score == "MCC"     # the model evaluates the two map-global maxima over the whole torus: O(N^2)
    if profile == "nonfast" and not (mcc and nd == 3):
        ax = int(rng.integers(0, nd))
        hi_m = 3 if (nd == 3 or mcc) else 5
        ms = [int(x) for x in rng.integers(1, hi_m + 1, size=nd)]
        if max(ms) == 1:
            ms[ax] = 2
        if nd == 3 and rng.random() < 0.5:
            ms = [ms[0]] * 3 if ms[0] > 1 else [2, 2, 2]
        hi_n = {2: 8, 3: 3}[nd] if not mcc else 4
        ns = [int(rng.integers(m, max(m + 1, hi_n + 1))) for m in ms]
        # next fast lengths: 17->18, 19->20, 23->24, 31->32, 37->39, 46->48 (with padding the conv extent n+m-1 moves along)
        ns[ax] = int(rng.choice([17, 19, 23, 31, 37, 46] if (nd == 2 and not mcc) else [17, 19, 23, 37]))
        return ns, ms
    if profile == "long" and not (mcc and nd == 3):
        ax = int(rng.integers(0, nd))
        ms = [int(x) for x in rng.integers(1, (3 if nd == 2 else 2) + 1, size=nd)]
        ms[ax] = int(rng.choice([5, 7, 9] if not mcc else [5, 7]))
        ns = [int(rng.integers(m, m + (7 if nd == 2 else 4))) for m in ms]
        if mcc:
            ns = [min(n, 9) for n in ns]
        return ns, ms
    hi_t = {2: 6, 3: 4}[nd] if quick else {2: 7, 3: 5}[nd]
    cubic = rng.random() < 0.6
    if cubic:
        ms = [int(rng.integers(2, hi_t + 1))] * nd
    else:
        ms = [int(x) for x in rng.integers(1, hi_t + 1, size=nd)]
        if max(ms) == 1:
            ms[0] = 2
    hi_n = {2: 12, 3: 7}[nd] if quick else {2: 16, 3: 9}[nd]
    if mcc:
        hi_n = {2: 9, 3: 5}[nd] if quick else {2: 11, 3: 6}[nd]
        ms = [min(m, 3 if nd == 3 else 4) for m in ms]
    ns = [int(rng.integers(m, max(m + 1, hi_n + 1))) for m in ms]
    if rng.random() < 0.15:
        # template larger than the target on some axis: the correction branch of _fourier_padding
        ax = int(rng.integers(0, nd))
        if ms[ax] > 1:
            ns[ax] = int(rng.integers(1, ms[ax]))
    return ns, ms


def _case(ctx, d, rng, nd, score, pad, double, order, mask_kind, quick, profile="std", shapes=None):
    ns, ms = _shapes(rng, nd, score, quick, profile) if shapes is None else (list(shapes[0]), list(shapes[1]))
    rots = [r for r in S.grid_rotations(nd) if S.rot_ok_for_shape(r[0], ms)]
    perm, flip, R = rots[int(rng.integers(0, len(rots)))]
    target = rng.integers(-4, 5, size=ns)
    if rng.random() < 0.15:  # sparse targets: many constant windows (guard branch)
        target = target * (rng.random(ns) < 0.3)
    template = rng.integers(-4, 5, size=ms)
    if min(ms) >= 3 and rng.random() < 0.15:
        # template with an empty margin (a particle in a box)
        inner = np.zeros(ms, bool)
        inner[tuple(slice(1, m - 1) for m in ms)] = True
        template = template * inner
    if template.std() == 0:
        template.flat[int(np.prod(ms)) // 2] += 1
    wm = _mask(rng, ms, mask_kind)
    if score in ("CORR", "CAM", "FLC", "FLCSphericalMask", "MCC"):
        if ((template * wm).std() == 0) or (template[wm > 0].std() == 0):
            wm = np.ones(ms)
    if score == "FLCSphericalMask":
        # the score assumes a rotation-invariant mask; use masks invariant under the chosen grid rotation
        wm = np.maximum.reduce([S.rotate_grid(wm, p, f) for p, f, _ in rots])
    tmask = None
    if score == "MCC":
        tmask = (rng.random(ns) < 0.85).astype(float)
        if tmask.sum() < 2:
            tmask[...] = 1
    inp = {"score": score, "ns": ns, "ms": ms, "pad": pad, "double": double, "order": order, "perm": perm, "flip": flip,
           "mask_kind": mask_kind, "target": target.reshape(-1).tolist(), "template": template.reshape(-1).tolist(),
           "mask": wm.reshape(-1).tolist(), "targetMask": None if tmask is None else tmask.reshape(-1).tolist()}
    sig = (score, tuple(ns), tuple(ms), tuple(perm), tuple(flip), pad, order, double, mask_kind)
    return inp, sig


def _onepass_ok(values, weights, double):
    """The code standardises templates with the one-pass formula E[g^2] - E[g]^2 in the backend's precision u; its relative
    error is bounded by (number of voxels) * u * E[g^2] / var.  Offsets are only used when that bound is below TOL / 10."""
    u = 2.0 ** -53 if double else 2.0 ** -24
    n = float(weights.sum())
    if n <= 0:
        return False
    e2 = float((values * values * weights).sum()) / n
    var = e2 - (float((values * weights).sum()) / n) ** 2
    return var > 0 and values.size * u * e2 / var <= 0.1 * TOL[double]


def _intensities(rng, inp):
    """absolute scale / offset of target and template: the normalised scores do not depend on them (positive scale, any
    offset of the template; positive scale of the target), CC / LCC are bilinear (powers of two: exact)"""
    score, double = inp["score"], inp["double"]
    ms = inp["ms"]
    ig = np.array(inp["template"], dtype=np.float64).reshape(ms)
    wm = np.array(inp["mask"], dtype=np.float64).reshape(ms)
    r = rng.random()
    if score in ("CC", "LCC"):
        if r < 0.25:
            inp["tscale"] = float(rng.choice([2.0 ** -20, 2.0 ** -3, 2.0 ** 10]))
        if rng.random() < 0.25:
            inp["gscale"] = float(rng.choice([2.0 ** -12, 2.0 ** 7]))
        if rng.random() < 0.2:
            inp["toffset"] = float(rng.choice([-7, 13] if not double else [-7, 13, 1000]))
        if rng.random() < 0.2:
            inp["goffset"] = float(rng.choice([-6, 9] if not double else [-6, 9, 300]))
        return
    if r < 0.35:
        # small / large absolute intensities (far above the code's eps guards relative to the data, so the value is unchanged)
        inp["tscale"] = float(rng.choice([1e-9, 1e-6, 1e3] if double else [1e-5, 1e-4, 1e3]))
    if double and rng.random() < 0.2:
        inp["toffset"] = float(rng.choice([100, -30]))     # float32 cannot resolve the windows' variance far from zero mean
    if rng.random() < 0.3:
        inp["gscale"] = float(rng.choice([1e-6, 1e-3, 1e3] if double else [1e-4, 1e-2, 1e3]))
    if rng.random() < 0.3:
        off = float(rng.choice([100, -1000, 37] if double else [5, -7, 20]))
        vals = ig + off
        ok = _onepass_ok(vals, wm, double) and _onepass_ok(vals, wm * wm, double)
        if score == "CAM":
            ok = ok and _onepass_ok(vals, np.ones(ms), double)
        if ok:
            inp["goffset"] = off


def _api(rng, inp):
    """how the search is called: memory layout / dtype of the buffers, arguments left at their defaults, rotation matrices
    as rank-2 / float64 arrays, masks and rotations assigned after construction"""
    score = inp["score"]
    nd = len(inp["ns"])
    api = {}
    names = ["target", "template", "mask"] + (["tmask"] if score == "MCC" else [])
    if rng.random() < 0.55:
        api["layout"] = {k: str(rng.choice(LAYOUTS)) for k in names}
    integral = all(float(inp.get(k, 1.0)) == 1.0 for k in ("tscale", "gscale")) and \
        abs(float(inp.get("toffset", 0.0))) <= 100 and abs(float(inp.get("goffset", 0.0))) <= 100
    if rng.random() < 0.45:
        pool = FLOAT_DTYPES + (EXACT_DTYPES if integral else [])
        mask = np.array(inp["mask"])
        mpool = FLOAT_DTYPES + ["float16"] + (["int8", "int32", "int64"] if bool(np.all((mask == 0) | (mask == 1))) else [])
        api["dtype"] = {"target": str(rng.choice(pool)), "template": str(rng.choice(pool)), "mask": str(rng.choice(mpool)),
                        "tmask": str(rng.choice(FLOAT_DTYPES + ["float16", "int8", "int64"]))}
    if bool(np.all(np.array(inp["mask"]) == 1)) and (inp["mask_kind"] == "none" or rng.random() < 0.3):
        api["mask_none"] = True
    identity = inp["perm"] == list(range(nd)) and not any(inp["flip"])
    r = rng.random()
    api["rot_form"] = "none" if (identity and r < 0.5) else ("rank2" if r < 0.3 else ("f64" if r < 0.55 else "rank3"))
    if rng.random() < 0.3:
        api["omit_defaults"] = True
    if rng.random() < 0.25:
        api["set_after"] = True
    return api


def _buffer_dtype(arr, want, backend_dtype, layout):
    """dtype of the buffer handed over: the wanted one when it holds the values exactly (or is the backend's own / wider:
    the library converts to the backend's precision anyway); a Density is not converted by the library, so it carries
    float32 / float64 data only"""
    if want not in (backend_dtype, "float64"):
        small = bool(np.all(np.abs(arr) <= 120)) if want.startswith("int") else True
        with np.errstate(all="ignore"):
            exact = small and bool(np.array_equal(arr.astype(want).astype(np.float64), arr))
        if not exact:
            want = backend_dtype
    if layout == "density" and want not in ("float32", "float64"):
        want = backend_dtype
    return want


def _run_real(inp, arrays, Rs, double):
    """the real search of /repo in this process.  Returns (list of score maps, one per rotation | [aggregated map]), fp"""
    from tme.matching_data import MatchingData
    from tme.matching_exhaustive import scan, MATCHING_EXHAUSTIVE_REGISTER
    from tme.analyzer import MaxScoreOverRotations
    score, pad, order = inp["score"], inp["pad"], inp["order"]
    api = inp.get("api") or {}
    backend_dtype = "float64" if double else "float32"
    lay = api.get("layout") or {}
    dts = api.get("dtype") or {}
    handed = {}
    for name, arr in arrays.items():
        if arr is None:
            handed[name] = None
            continue
        handed[name] = _present(arr, lay.get(name, "c"), _buffer_dtype(arr, dts.get(name, backend_dtype), backend_dtype, lay.get(name, "c")))
    if api.get("mask_none") and bool(np.all(arrays["mask"] == 1)):
        handed["mask"] = None
    form = api.get("rot_form", "rank3")
    ident = bool(np.array_equal(Rs[0], np.eye(Rs.shape[1])))
    if form == "none" and len(Rs) == 1 and ident:
        rot = None
    elif form == "rank2" and len(Rs) == 1:
        rot = np.array(Rs[0], dtype=np.float32)
    elif form == "f64":
        rot = np.array(Rs, dtype=np.float64)
    else:
        rot = np.array(Rs, dtype=np.float32)
    kw = {"pad_fourier": pad, "interpolation_order": order}
    if api.get("omit_defaults"):
        # an argument that equals the documented default of `scan` is left out
        import inspect
        dflt = {k: v.default for k, v in inspect.signature(scan).parameters.items()}
        kw = {k: v for k, v in kw.items() if not (k in dflt and dflt[k] == v)}
    per_rotation = api.get("callback") == "per-rotation"
    try:
        with contextlib.redirect_stdout(io.StringIO()):
            if api.get("set_after"):
                md = MatchingData(target=handed["target"], template=handed["template"])
                if handed["mask"] is not None:
                    md.template_mask = handed["mask"]
                if handed["tmask"] is not None:
                    md.target_mask = handed["tmask"]
                md.rotations = rot
            else:
                md = MatchingData(target=handed["target"], template=handed["template"], template_mask=handed["mask"],
                                  target_mask=handed["tmask"], rotations=rot)
            setup, scoring = MATCHING_EXHAUSTIVE_REGISTER[score]
            fp = md.fourier_padding(pad_fourier=pad)
            if per_rotation:
                res = scan(md, setup, scoring, n_jobs=1, callback_class=_PerRotation, callback_class_args={}, **kw)
            else:
                res = scan(md, setup, scoring, n_jobs=int(api.get("n_jobs", 1)), callback_class=MaxScoreOverRotations,
                           callback_class_args={"score_threshold": -1e30}, **kw)
    finally:
        handed.clear()
        _cleanup_files()
    fp = tuple(tuple(int(x) for x in p) for p in fp)
    if per_rotation:
        got = res[0][0]
        return [np.asarray(m, dtype=np.float64) for _, m in got], fp, [np.asarray(R, dtype=np.float64) for R, _ in got]
    return [np.asarray(res[0], dtype=np.float64)], fp, None


def _rot_of(nd, perm, flip):
    return [r for r in S.grid_rotations(nd) if r[0] == list(perm) and r[1] == list(flip)][0][2]


def _replay_history(inp):
    """searches that ran in this process before the case (same shapes, other contents): executed again, not judged"""
    for b in inp.get("before") or []:
        ns, ms, nd = b["ns"], b["ms"], len(b["ns"])
        arrays = {"target": (np.array(b["target"], dtype=np.float64).reshape(ns) + float(b.get("toffset", 0.0))) * float(b.get("tscale", 1.0)),
                  "template": (np.array(b["template"], dtype=np.float64).reshape(ms) + float(b.get("goffset", 0.0))) * float(b.get("gscale", 1.0)),
                  "mask": np.array(b["mask"], dtype=np.float64).reshape(ms),
                  "tmask": None if b["targetMask"] is None else np.array(b["targetMask"], dtype=np.float64).reshape(ns)}
        S.set_precision(b["double"])
        try:
            _run_real(b, arrays, np.stack([_rot_of(nd, b["perm"], b["flip"])]), b["double"])
        except Exception:  # noqa: judged when it was the case itself
            pass
        finally:
            S.set_precision(False)


def _evaluate(ctx, d, inp, record=True, history=True):
    """Runs one case on the real code, the Lean impl-model and the specs. Returns True when all clauses hold."""
    if history:
        _replay_history(inp)
    score, ns, ms, pad, double, order = inp["score"], inp["ns"], inp["ms"], inp["pad"], inp["double"], inp["order"]
    nd = len(ns)
    api = inp.get("api") or {}
    itarget = np.array(inp["target"], dtype=np.float64).reshape(ns)
    itemplate = np.array(inp["template"], dtype=np.float64).reshape(ms)
    wm = np.array(inp["mask"], dtype=np.float64).reshape(ms)
    tmask = None if inp["targetMask"] is None else np.array(inp["targetMask"], dtype=np.float64).reshape(ns)
    # intensity scale / offset (the normalised scores must not care; the guards of the code are absolute thresholds)
    tscale, toffset = float(inp.get("tscale", 1.0)), float(inp.get("toffset", 0.0))
    gscale, goffset = float(inp.get("gscale", 1.0)), float(inp.get("goffset", 0.0))
    ttb = itarget + toffset              # for the exact / scale-invariant oracles: offset kept, scale dropped
    gtb = itemplate + goffset
    target = ttb * tscale
    template = gtb * gscale
    # rotations scored in this search: the case's own one, possibly among others (observed one by one)
    rot_pf = [(list(inp["perm"]), list(inp["flip"]))]
    if api.get("callback") == "per-rotation":
        extra = [(list(p), list(f)) for p, f in inp.get("rots", [])]
        pos = min(int(inp.get("rot_pos", 0)), len(extra))
        rot_pf = extra[:pos] + rot_pf + extra[pos:]
    Rs = np.stack([_rot_of(nd, p, f) for p, f in rot_pf])
    small = {k: v for k, v in inp.items() if k not in ("target", "template", "mask", "targetMask", "prelude", "before")}
    S.set_precision(double)
    try:
        dtype = np.float64 if double else np.float32
        if inp.get("prelude") is not None:
            # a session: another search with a different template of the same shape ran before, in the same (reused) workers
            pre = np.array(inp["prelude"], dtype=np.float64).reshape(ms)
            allr = np.stack([r[2] for r in S.grid_rotations(nd) if S.rot_ok_for_shape(r[0], ms)][:4])
            S.run_scan(score, target, pre, mask=wm, target_mask=tmask, rotations=allr, pad=pad, order=order, dtype=dtype, n_jobs=2)
            res, fp = S.run_scan(score, target, template, mask=wm, target_mask=tmask, rotations=np.stack([Rs[0], Rs[0]]), pad=pad,
                                 order=order, dtype=dtype, n_jobs=int(inp.get("n_jobs", 2)))
            maps, seen = [np.asarray(res[0], dtype=np.float64)], None
        else:
            maps, fp, seen = _run_real(inp, {"target": target, "template": template, "mask": wm, "tmask": tmask}, Rs, double)
    except Exception as e:  # noqa: a valid search that raises is a failure of the property's "reports a value", with this input
        ctx.spec(f"{score}: the search returns a score map for valid arrays", inp, False,
                 {"exception": type(e).__name__, "message": str(e)[:300], "api": api}, key=f"{score}:search-raises")
        return False
    finally:
        S.set_precision(False)
    conv, fast, ft, shift = fp
    ok_all = True
    # ---- shapes / shift bookkeeping vs the model
    m = d.call("c01.shapes", ns=ns, ms=ms, pad=pad)
    ok_all &= ctx.agree("fourier_padding (conv shape, shift)", small, {"conv": list(conv), "shift": list(shift)},
                        {"conv": m["conv"], "shift": m["shift"]})
    if seen is not None:
        same = len(seen) == len(Rs) and all(np.array_equal(a, b) for a, b in zip(seen, Rs))
        ok_all &= ctx.spec(f"{score}: the callback is handed one score array per rotation, in order, with its rotation matrix",
                           inp, bool(same), {"rotations-seen": len(seen), "asked": len(Rs)}, key=f"{score}:callback-rotations")
        if not same:
            return False
    if api.get("callback") == "per-rotation":
        ctx.count("rotations-observed-one-by-one", len(maps))
    for k, ((perm, flip), sc) in enumerate(zip(rot_pf, maps)):
        ok_all &= _compare(ctx, d, inp, small, perm, flip, sc, fast, dict(
            itarget=itarget, ttb=ttb, gtb=gtb, target=target, template=template, wm=wm, tmask=tmask, k=k, nrot=len(maps)))
    return ok_all


def _compare(ctx, d, inp, small, perm, flip, sc, fast, a):
    """one score map (of the rotation perm/flip) against the Lean implementation model, the Lean spec and the textbooks"""
    score, ns, ms, pad, double, order = inp["score"], inp["ns"], inp["ms"], inp["pad"], inp["double"], inp["order"]
    nd = len(ns)
    ttb, gtb, target, template, wm, tmask = a["ttb"], a["gtb"], a["target"], a["template"], a["wm"], a["tmask"]
    tscale, gscale = float(inp.get("tscale", 1.0)), float(inp.get("gscale", 1.0))
    ok_all = True
    which = {"rotation": [perm, flip], "index": a["k"], "of": a["nrot"]}
    ok_all &= ctx.agree("score map shape", small, list(sc.shape), ns)
    if list(sc.shape) != ns:
        ctx.spec(f"{score}: the score map has the target's shape", inp, False, {"shape": list(sc.shape), **which}, key=f"{score}:shape")
        return False
    eps = float(np.finfo(np.float64 if double else np.float32).eps)
    args = dict(score=score, pad=pad, mode="same", ns=ns, ms=ms, Ns=list(fast), perm=perm, flip=flip, eps=eps, ratio=0.3, order=order)
    inside = S.inside_mask(ns, ms) if not pad else np.ones(ns, bool)
    gR = S.rotate_grid(gtb, perm, flip)
    wR = S.rotate_grid(wm, perm, flip)
    tol = TOL[double]
    if score in ("CC", "LCC"):
        # bilinear: the scales (powers of two) factor out exactly; the model works on the integers
        r = d.call("c01.int", target=[int(x) for x in ttb.reshape(-1)], template=[int(x) for x in gtb.reshape(-1)], **args)
        sc = sc / (tscale * gscale)
        finite = bool(np.isfinite(sc).all())
        sc = np.where(np.isfinite(sc), sc, 0.0)
        impl = np.rint(sc).astype(np.int64)
        mi = np.array(r["impl"], dtype=np.int64).reshape(ns)
        ms_ = np.array(r["spec"], dtype=np.int64).reshape(ns)
        # rounding allowance: the float32 FFT carries ~1e-6 of the largest |value| of the map, float64 ~1e-14
        mag = max(1.0, float(np.max(np.abs(mi))))
        exact = finite and np.max(np.abs(sc - impl)) < (0.05 if not double else 1e-6) * max(1.0, mag / 1e3)
        ok_all &= ctx.agree(f"{score}: score map == Lean implementation model (whole map, incl. wrap-around voxels)", inp,
                            bool(exact and np.array_equal(impl, mi)), True)
        # independent textbook: direct windowed sum (numpy)
        if score == "CC":
            tb = (S.windows(ttb, ms) * gR).sum(axis=tuple(range(nd, 2 * nd)))
        else:
            from scipy.ndimage import laplace
            tb = (S.windows(laplace(ttb, mode="wrap"), ms) * laplace(gR, mode="wrap")).sum(axis=tuple(range(nd, 2 * nd)))
        good = np.array_equal(impl[inside], ms_[inside]) and np.array_equal(impl[inside], np.rint(tb).astype(np.int64)[inside])
        ok_all &= ctx.spec(f"{score}: reported value == windowed definition centred at shape//2", inp, bool(exact and good),
                           {"max|impl-spec|": int(np.max(np.abs(impl - ms_)[inside])) if inside.any() else 0, "finite": finite, **which},
                           key=f"{score}:definition")
        ctx.count(f"voxels-compared", int(inside.sum()))
        return ok_all
    fargs = dict(target=target.reshape(-1).tolist(), template=template.reshape(-1).tolist(), mask=wm.reshape(-1).tolist(), **args)
    if tmask is not None:
        fargs["targetMask"] = tmask.reshape(-1).tolist()
    mi = np.array([dec_float(x) for x in d.call("c01.float", what="impl", **fargs)], dtype=np.float64).reshape(ns)
    msp = np.array([dec_float(x) for x in d.call("c01.float", what="spec", **fargs)], dtype=np.float64).reshape(ns)
    mtb = np.array([dec_float(x) for x in d.call("c01.float", what="textbook", **fargs)], dtype=np.float64).reshape(ns)
    # what="spec": the code's formula evaluated in the natural frame on windowed sums (the theorems' right-hand side);
    # what="textbook": the definition with the inputs as given.  They differ in two documented ways:
    #  * masks that are rotated (FLC, MCC) go through scipy's *un-prefiltered* spline: at order 3 every axis is filtered
    #    with (1,4,1)/6 even for the identity, so the effective mask differs from the given one unless it is constant;
    #  * FLC / FLCSphericalMask standardise the template under the mask at setup *and* per rotation, which applies a
    #    non-binary mask twice.
    smoothed = score in ("FLC", "MCC") and order > 1 and not bool(np.all(wm == wm.flat[0]))
    soft = score in ("FLC", "FLCSphericalMask") and not bool(np.all((wm == 0) | (wm == 1)))
    if smoothed:
        eff = np.array([dec_float(x) for x in d.call("c01.smooth3", shape=ms, data=wm.reshape(-1).tolist())]).reshape(ms)
        from tme.backends import backend as be
        om = np.zeros(ms, np.float32)
        be.rigid_transform(arr=np.zeros(ms, np.float32), arr_mask=wm.astype(np.float32), rotation_matrix=np.eye(nd, dtype=np.float32),
                           out=np.zeros(ms, np.float32), out_mask=om, use_geometric_center=True, order=order)
        ok_all &= ctx.agree("mask after rigid_transform == un-prefiltered cubic spline model (smooth3)", small,
                            bool(np.max(np.abs(om - eff)) < 1e-5), True)
        wm_eff, wR_eff = eff, S.rotate_grid(eff, perm, flip)
    else:
        wm_eff, wR_eff = wm, wR
    # ---- guard-tie voxels: exact denominator vanishes / threshold ties
    if score in ("FLC",):
        stable = S.window_var(ttb, wR_eff) > 1e-9
    elif score in ("FLCSphericalMask", "CORR", "CAM"):
        stable = S.window_var(ttb, wm) > 1e-9
    else:
        num, den, ov = _mcc_numpy(ttb, tmask, gR, wR_eff, 0.3, pad, fast, eps)
        stable = (den > 1e-6 * max(den.max(), 1e-30))
        # threshold tie on the overlap ratio: exact integer overlaps, compare against every candidate maximum
        maxov_candidates = np.unique(np.round(ov[ov > 0.01], 6)) if (ov > 0.01).any() else np.array([0.0])
        wsum = float(wR_eff.sum())
        for mx in np.unique(np.concatenate([maxov_candidates, [wsum]])):
            stable &= np.abs(ov - 0.3 * mx) > 1e-3
    finite = np.isfinite(sc).all()
    cmp_mask = stable & np.isfinite(mi) & np.isfinite(msp)
    whole = cmp_mask            # impl-model mirrors the whole map (also the wrap-around region without padding)
    with np.errstate(all="ignore"):
        dm = float(np.nanmax(np.abs(sc - mi)[whole])) if whole.any() else 0.0
    ok_all &= ctx.agree(f"{score}: score map == Lean implementation model", inp, bool(dm <= tol), True)
    part = cmp_mask & inside

    def dev(ref, where):
        if not where.any():
            return 0.0
        x = np.abs(sc - ref)[where]
        return float("inf") if not np.isfinite(x).all() else float(np.max(x))
    ds = dev(msp, part)
    good = ds <= tol and finite
    detail = {"max|impl-LeanSpec|": ds, "finite": bool(finite), **which}
    # textbook Pearson (independent of the Lean formulas) where it applies
    binary = bool(np.all((wm == 0) | (wm == 1))) and not smoothed
    if score in ("CORR", "CAM") and bool(np.all(wm == 1)):
        # CAM: the *standardised* target is what gets zero-extended
        tsrc = (ttb - ttb.mean()) / ttb.std() if score == "CAM" else ttb
        tb, st2 = S.pearson_textbook(tsrc, gR, np.ones(ms))
        dt = dev(tb, part & st2)
        detail["max|impl-Pearson|"] = dt
        good &= dt <= tol
    if score == "FLC" and binary:
        tb, st2 = S.pearson_textbook(ttb, gR, wR)
        dt = dev(tb, part & st2)
        detail["max|impl-maskedPearson|"] = dt
        good &= dt <= tol
    if score == "FLCSphericalMask" and binary:
        tb, st2 = S.pearson_textbook(ttb, gR, wm)
        dt = dev(tb, part & st2)
        detail["max|impl-maskedPearson|"] = dt
        good &= dt <= tol
    if score == "MCC":
        with np.errstate(all="ignore"):
            tb = np.clip(num / np.where(den > 0, den, 1), -1, 1)
        # overlap threshold as documented: below ratio * max overlap -> 0 (max overlap from the spec map itself)
        dt = dev(tb, part & (msp != 0))
        detail["max|impl-Padfield|"] = dt
        good &= dt <= tol
    ok_all &= ctx.spec(f"{score}: reported value == the score formula on the window centred at shape//2 (natural frame, windowed sums)",
                       inp, bool(good), detail, key=f"{score}:definition")
    dtb = dev(mtb, part & np.isfinite(mtb))
    key = f"{score}:definition"
    if smoothed:
        key = f"{score}:order3-mask-not-prefiltered"
        ctx.count("order3-nonconstant-mask")
    elif soft:
        key = f"{score}:soft-mask-applied-twice"
        ctx.count("soft-mask")
    ok_all &= ctx.spec(f"{score}: reported value == textbook definition with template and mask as given", inp, bool(dtb <= tol),
                       {"max|impl-textbook|": dtb, "order": order, "mask_kind": inp["mask_kind"], **which}, key=key,
                       size=int(np.prod(ns)) * 1000 + int(np.prod(ms)))
    ctx.count("voxels-compared", int(part.sum()))
    ctx.count("voxels-guard-tie-skipped", int((~stable & inside).sum()))
    return ok_all


def _mask_kind(rng, score):
    mask_kind = str(rng.choice(["full", "none", "binary", "soft", "centred"])) if score not in ("CC", "LCC") else str(rng.choice(["full", "none"]))
    if score in ("CORR", "CAM") and rng.random() < 0.5:
        mask_kind = str(rng.choice(["full", "none"]))       # the property's default full-box mask
    if score == "MCC" and mask_kind == "soft":
        mask_kind = "binary"
    return mask_kind


def _tally(ctx, inp, nd, mask_kind):
    api = inp.get("api") or {}
    ctx.count("target-scale:%g" % inp.get("tscale", 1.0))
    ctx.count("template-scale:%g" % inp.get("gscale", 1.0))
    ctx.count("target-offset:%g" % inp.get("toffset", 0.0))
    ctx.count("template-offset:%g" % inp.get("goffset", 0.0))
    ctx.count(f"score:{inp['score']}")
    ctx.count(f"ndim:{nd}")
    ctx.count("pad:" + ("on" if inp["pad"] else "off"))
    ctx.count("precision:" + ("f64" if inp["double"] else "f32"))
    ctx.count("parity:" + "".join("e" if x % 2 == 0 else "o" for x in inp["ms"]) + "/" + "".join("e" if x % 2 == 0 else "o" for x in inp["ns"]))
    ctx.count("rotation:" + ("identity" if inp["perm"] == list(range(nd)) and not any(inp["flip"]) else "grid"))
    ctx.count("template:" + ("larger-than-target" if any(m > n for m, n in zip(inp["ms"], inp["ns"])) else "fits"))
    ctx.count("mask:" + mask_kind)
    for name, lay in (api.get("layout") or {}).items():
        ctx.count(f"layout:{lay}")
    for name, dt in (api.get("dtype") or {}).items():
        if name != "tmask" or inp["score"] == "MCC":
            ctx.count(f"buffer-dtype:{dt}")
    ctx.count("rotations-given-as:" + api.get("rot_form", "rank3"))
    for flag in ("mask_none", "omit_defaults", "set_after"):
        if api.get(flag):
            ctx.count("api:" + flag)


def _rotate_in_box(arr, R):
    shape = np.array(arr.shape)
    c = (shape - 1) / 2
    out = np.zeros(arr.shape, dtype=np.float64)
    Ri = np.linalg.inv(R)
    for x in itertools.product(*[range(int(v)) for v in shape]):
        src = Ri @ (np.array(x) - c) + c
        isrc = np.rint(src).astype(int)
        if np.abs(src - isrc).max() > 1e-9:
            return None
        if np.all(isrc >= 0) and np.all(isrc < shape):
            out[x] = arr[tuple(isrc)]
    return out


def _crop_rotations(ctx, rng, n):
    for i in range(n):
        nd = 2 if i % 3 else 3
        score = ("CC", "FLC")[i % 2]
        par = int(rng.integers(0, 2))
        while True:
            ms = [int(2 * rng.integers(1, 4 if nd == 2 else 3) + par) for _ in range(nd)]
            if len(set(ms)) > 1:
                break
        a, b = [int(v) for v in rng.permutation(nd)[:2]]
        if ms[a] == ms[b]:
            ms[b] = ms[a] + 2
        k = int(rng.choice([1, 3]))
        R = np.eye(nd)
        q = np.linalg.matrix_power(np.array([[0.0, -1.0], [1.0, 0.0]]), k)
        R[np.ix_([a, b], [a, b])] = q
        ns = [int(m + rng.integers(2, 7)) for m in ms]
        pad = bool(rng.random() < 0.5)
        # (order 3 smooths the mask: it is interpolated without the spline prefilter - known finding of the main stream)
        order = int(rng.choice([1, 3])) if score == "CC" else 1
        double = bool(rng.random() < 0.4)
        target = rng.integers(-4, 5, size=ns).astype(np.float64)
        template = rng.integers(-4, 5, size=ms).astype(np.float64)
        template.flat[0] += 3                      # a corner voxel that leaves the box
        mask = np.ones(ms)
        if score in ("FLC",) and rng.random() < 0.5:
            mask = (rng.random(ms) < 0.8).astype(float)
            mask.flat[0] = 1
        gR, wR = _rotate_in_box(template, R), _rotate_in_box(mask, R)
        inp = {"score": score, "ns": ns, "ms": ms, "pad": pad, "order": order, "double": double, "R": R,
               "target": target.reshape(-1).tolist(), "template": template.reshape(-1).tolist(), "mask": mask.reshape(-1).tolist()}
        clause = f"{score}: under a quarter turn that changes the template's box the reported score is the spatial-domain " \
                 f"score of the template turned about its centre and cut to its own box"
        if gR is None or wR.sum() < 2 or (gR * wR).std() == 0:
            continue
        S.set_precision(double)
        try:
            res, _ = S.run_scan(score, target, template, mask=None if score in ("CC", "LCC") else mask, rotations=[R], pad=pad,
                                order=order, dtype=np.float64 if double else np.float32)
            sc = np.asarray(res[0], dtype=np.float64)
        except Exception as e:  # noqa
            ctx.spec(clause, inp, False, f"{type(e).__name__}: {e}", key=f"{score}:crop-rotation")
            continue
        finally:
            S.set_precision(False)
        inside = S.inside_mask(ns, ms) if not pad else np.ones(ns, bool)
        if score == "CC":
            ax = tuple(range(nd, 2 * nd))
            ref = (S.windows(target, ms) * gR).sum(axis=ax)
            stable = np.ones(ns, bool)
            tol = 1e-3 if not double else 1e-8
        else:
            ref, stable = S.pearson_textbook(target, gR, wR)
            stable &= S.window_var(target, wR) > 0.5
            tol = 2e-3 if not double else 1e-6
        sel = inside & stable
        if sc.shape != tuple(ns) or not sel.any():
            ctx.spec(clause, inp, sc.shape == tuple(ns), {"shape": list(sc.shape)}, key=f"{score}:crop-rotation")
            continue
        err = float(np.abs(sc - ref)[sel].max())
        ctx.spec(clause, inp, err <= tol, {"max_err": err, "tol": tol}, key=f"{score}:crop-rotation")
        ctx.count(f"crop-rotation:{score}:{nd}d")
        ctx.distinct(("crop-rot", score, tuple(ns), tuple(ms), a, b, k, pad, order, double))


def run(ctx):
    d = ctx.driver
    rng = ctx.rng("main")
    quick = not ctx.thorough
    # corpus first
    import glob
    import json
    from .. import env
    for f in sorted(glob.glob(os.path.join(env.VERIF, "corpus", "C01_*.json"))):
        _evaluate(ctx, d, json.load(open(f))["input"])
        ctx.count("corpus")
    combos = list(itertools.product(S.SCORES, (2, 3), (True, False)))

    def draw(rng, i, profile="std", fastest="pad"):
        if fastest == "score":      # short streams: every score first
            score, nd, pad = S.SCORES[i % 7], (2, 3)[(i // 7 + i) % 2], bool((i // 14 + i // 7 + i) % 2 == 0)
        else:
            score, nd, pad = combos[i % len(combos)]
        double = bool(rng.random() < 0.35)
        order = int(rng.choice([1, 3]))
        mask_kind = _mask_kind(rng, score)
        inp, sig = _case(ctx, d, rng, nd, score, pad, double, order, mask_kind, quick, profile)
        _intensities(rng, inp)
        inp["api"] = _api(rng, inp)
        sig = sig + tuple(inp.get(k, 0) for k in ("tscale", "gscale", "toffset", "goffset"))
        return inp, sig, nd, mask_kind

    n = ctx.budget(126, 1200)
    for i in range(n):
        inp, sig, nd, mask_kind = draw(rng, i)
        _evaluate(ctx, d, inp)
        ctx.distinct(sig)
        _tally(ctx, inp, nd, mask_kind)
        if i < 3:
            ctx.sample({k: v for k, v in inp.items() if k not in ("target", "mask", "targetMask")})

    # ---- extents with a non-fast FFT length (conv shape != fast shape also without padding), long template axes (5, 7, 9)
    rng2 = ctx.rng("profiles")
    for i in range(ctx.budget(42, 252)):
        profile = ("nonfast", "long", "nonfast")[i % 3]
        inp, sig, nd, mask_kind = draw(rng2, i, profile)
        _evaluate(ctx, d, inp)
        ctx.distinct(sig + (profile,))
        _tally(ctx, inp, nd, mask_kind)
        ctx.count("shape-profile:" + profile)
        ctx.count("fast-shape:" + ("== conv" if S_fast_equals_conv(inp) else "> conv"))

    # ---- several rotations in one search, each rotation's array observed through a user-supplied callback_class
    rng3 = ctx.rng("per-rotation")
    for i in range(ctx.budget(21, 105)):
        inp, sig, nd, mask_kind = draw(rng3, i, fastest="score")
        rots = [r for r in S.grid_rotations(nd) if S.rot_ok_for_shape(r[0], inp["ms"])]
        k = int(rng3.integers(1, 4))
        inp["rots"] = [[rots[j][0], rots[j][1]] for j in rng3.integers(0, len(rots), size=k)]
        inp["rot_pos"] = int(rng3.integers(0, k + 1))
        inp["api"]["callback"] = "per-rotation"
        _evaluate(ctx, d, inp)
        ctx.distinct(sig + ("per-rotation", k))
        _tally(ctx, inp, nd, mask_kind)
        ctx.count("search:%d-rotations-one-loop" % (k + 1))

    # ---- consecutive searches that share every shape but not the contents (anything remembered per shape shows up here)
    rng4 = ctx.rng("same-shape")
    for i in range(ctx.budget(14, 70)):
        inp, sig, nd, mask_kind = draw(rng4, i, fastest="score")
        _evaluate(ctx, d, inp)
        past = [{k: v for k, v in inp.items() if k not in ("rots", "rot_pos")}]
        for j in range(2):
            sib, _ = _case(ctx, d, rng4, nd, inp["score"], inp["pad"], inp["double"], inp["order"], mask_kind, quick,
                           shapes=(inp["ns"], inp["ms"]))
            for kk in ("tscale", "gscale"):
                if kk in inp:
                    sib[kk] = inp[kk]
            sib["api"] = dict(inp["api"]) if j == 0 else {}      # once the same way, once through the plain call
            sib["before"] = list(past)       # (already executed here; a replay of the case runs them first)
            _evaluate(ctx, d, sib, history=False)
            past.append({k: v for k, v in sib.items() if k != "before"})
            ctx.count("session:same-shapes-new-contents")
        ctx.distinct(sig + ("same-shape",))

    # ---- rotations that do not preserve the template box: non-cubic templates of equal parity under quarter turns mixing
    #      two unequal axes.  The rotated template is the template turned about its geometric centre and resampled on its
    #      own box (grid points map to grid points; what leaves the box is not part of the window).
    _crop_rotations(ctx, ctx.rng("crop-rot"), ctx.budget(12, 60))

    # ---- sessions: consecutive searches with different templates of one shape, rotations spread over two (reused) workers
    for i in range(ctx.budget(4, 30)):
        score = S.SCORES[i % len(S.SCORES)]
        if score == "MCC":
            score = "CC"
        nd = 2 if i % 3 else 3
        # (double precision is selected through the backend's arguments, not its name: the workers must honour it too)
        inp, sig = _case(ctx, d, rng, nd, score, bool(i % 2), bool(i % 2 == 0), 3, "full", True)
        if inp["double"] and score in ("FLC", "FLCSphericalMask", "CORR", "CAM"):
            inp["tscale"] = 1.0
            inp["toffset"] = 1000.0        # float32 cannot resolve the windows' variance at this offset, float64 can
        pre = rng.integers(-4, 5, size=inp["ms"])
        if pre.std() == 0:
            pre.flat[0] += 1
        inp["prelude"] = pre.reshape(-1).tolist()
        if i % 4 == 3:
            inp["n_jobs"] = 3      # more jobs than rotations
        _evaluate(ctx, d, inp)
        ctx.distinct(sig + ("session",))
        ctx.count("session:two-searches-two-workers")


def S_fast_equals_conv(inp):
    from tme.backends import backend as be
    ns, ms, pad = inp["ns"], inp["ms"], inp["pad"]
    conv, fast, _ = be.compute_convolution_shapes([max(n, m) for n, m in zip(ns, ms)], ms if pad else [1] * len(ms))
    return list(conv) == list(fast)


def search(ctx):
    """correspondence broke: look for a failing input with small shapes, all scores, both paddings"""
    d = ctx.driver
    rng = ctx.rng("search")
    for i in range(150):
        score = S.SCORES[i % 7]
        nd = 2 if i % 3 else 3
        profile = ("std", "std", "nonfast", "long")[(i // 7) % 4]
        inp, _ = _case(ctx, d, rng, nd, score, bool(i % 2), False, 3, "full", True, profile)
        if i % 5 == 4:
            inp["api"] = _api(rng, inp)
        _evaluate(ctx, d, inp)


def replay(ctx, rec):
    _evaluate(ctx, ctx.driver, rec["input"])
