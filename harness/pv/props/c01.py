"""C01 — FFT-computed scores equal their spatial-domain definitions.

Leg B: the real `scan` of /repo (one rotation, score-map analyzer with the threshold far below the data) is
compared with (a) the Lean *implementation model* (stored-frame template, circular convolution on the fast
shape, roll/crop frame — `c01.int`/`c01.float` what=impl), (b) the Lean *spec* (windowed sums, natural frame —
what=spec) and (c) independent numpy textbook definitions (Pearson under the mask)."""
import itertools

import numpy as np

from .. import scoring as S
from ..driver import dec_float

ID = "C01"
RULE = ("integer-valued targets/templates in [-4,4] (FFT products exact after rounding), 2-D and 3-D, every parity "
        "combination of extents, masks full / binary / soft dyadic, all 4 / 24 grid rotations valid for the template "
        "shape, pad_fourier on/off, interpolation order 1/3, float32/float64 backends, all 7 scores. "
        "distinct = distinct (score, shapes, rotation, pad, order, precision, mask kind) tuples; identity-rotation "
        "cases on 1-voxel templates are trivial and not generated")
ASSUMPTIONS = ["pyFFTW: irfftn(rfftn(a)*rfftn(b)) is the circular convolution on the fast shape (modelled by Pm.C01.circ)",
               "voxels whose exact denominator vanishes (constant window under the mask) or that sit on an MCC threshold "
               "tie are excluded from the numeric comparison and counted (guard-tie voxels)",
               "LCC: scipy.ndimage.laplace(mode='wrap') is modelled by the periodic stencil lapWrap and compared",
               "the model standardises the template in the natural frame and reverses afterwards; the code standardises "
               "the stored array (equal in exact arithmetic: Pm.C01.normTemplate_rev)"]
TRUSTED = ["C01: DFT convolution theorem / pyFFTW; IEEE rounding (tolerances 2e-3 float32, 1e-7 float64 on scores in [-1,1]; "
           "CC/LCC compared exactly after rounding to integers)"]

TOL = {False: 2e-3, True: 1e-7}


def _mask(rng, shape, kind):
    if kind == "full":
        return np.ones(shape)
    if kind == "binary":
        for _ in range(20):
            m = (rng.random(shape) < 0.7).astype(float)
            if m.sum() >= 3:
                return m
        return np.ones(shape)
    m = rng.choice([0.0, 0.25, 0.5, 1.0, 1.0], size=shape)
    if m.sum() < 2 or (m > 0).sum() < 3:
        m[...] = 1.0
    return m


def _mcc_numpy(target, tmask, gR, wR, ratio, pad, Ns, eps):
    """Padfield's masked NCC, directly (float64); returns (score, stable)"""
    f = target * (tmask > 0)
    ax = tuple(range(target.ndim, 2 * target.ndim))
    w = wR.astype(np.float64)
    n = w.sum()
    mu = (gR * w).sum() / n
    sd = np.sqrt(max((gR * gR * w).sum() / n - mu * mu, 0))
    gh = (gR - mu) / sd * w
    Wf, Wm = S.windows(f, gR.shape), S.windows(tmask.astype(float), gR.shape)
    ov0 = (Wm * w).sum(axis=ax)
    ov = np.maximum(ov0, eps)
    t = (Wf * w).sum(axis=ax)
    t2 = (Wm * gh).sum(axis=ax)
    num = (Wf * gh).sum(axis=ax) - t * t2 / ov
    d3 = np.maximum((Wf * Wf * w).sum(axis=ax) - t * t / ov, 0)
    d = np.maximum((Wm * gh * gh).sum(axis=ax) - t2 * t2 / ov, 0)
    den = np.sqrt(d3 * d)
    return num, den, ov


def _case(ctx, d, rng, nd, score, pad, double, order, mask_kind, quick):
    hi_t = {2: 6, 3: 4}[nd] if quick else {2: 7, 3: 5}[nd]
    cubic = rng.random() < 0.6
    if cubic:
        ms = [int(rng.integers(2, hi_t + 1))] * nd
    else:
        ms = [int(x) for x in rng.integers(1, hi_t + 1, size=nd)]
        if max(ms) == 1:
            ms[0] = 2
    hi_n = {2: 12, 3: 7}[nd] if quick else {2: 16, 3: 9}[nd]
    if score == "MCC":   # the model evaluates the two map-global maxima over the whole torus: O(N^2d)
        hi_n = {2: 9, 3: 5}[nd] if quick else {2: 11, 3: 6}[nd]
        ms = [min(m, 3 if nd == 3 else 4) for m in ms]
    ns = [int(rng.integers(m, max(m + 1, hi_n + 1))) for m in ms]
    if rng.random() < 0.15:
        # template larger than the target on some axis: the correction branch of _fourier_padding
        ax = int(rng.integers(0, nd))
        if ms[ax] > 1:
            ns[ax] = int(rng.integers(1, ms[ax]))
    rots = [r for r in S.grid_rotations(nd) if S.rot_ok_for_shape(r[0], ms)]
    perm, flip, R = rots[int(rng.integers(0, len(rots)))]
    target = rng.integers(-4, 5, size=ns)
    if rng.random() < 0.15:  # sparse targets: many constant windows (guard branch)
        target = target * (rng.random(ns) < 0.3)
    template = rng.integers(-4, 5, size=ms)
    if template.std() == 0:
        template.flat[0] += 1
    wm = _mask(rng, ms, mask_kind)
    if score in ("CORR", "CAM", "FLC", "FLCSphericalMask", "MCC"):
        if ((template * wm).std() == 0) or (template[wm > 0].std() == 0):
            wm = np.ones(ms)
    if score == "FLCSphericalMask":
        # the score assumes a rotation-invariant mask; use masks invariant under the chosen grid rotation
        wm = np.maximum.reduce([S.rotate_grid(wm, p, f) for p, f, _ in rots])
    tmask = None
    if score == "MCC":
        tmask = (rng.random(ns) < 0.85).astype(float)
        if tmask.sum() < 2:
            tmask[...] = 1
    inp = {"score": score, "ns": ns, "ms": ms, "pad": pad, "double": double, "order": order, "perm": perm, "flip": flip,
           "mask_kind": mask_kind, "target": target.reshape(-1).tolist(), "template": template.reshape(-1).tolist(),
           "mask": wm.reshape(-1).tolist(), "targetMask": None if tmask is None else tmask.reshape(-1).tolist()}
    sig = (score, tuple(ns), tuple(ms), tuple(perm), tuple(flip), pad, order, double, mask_kind)
    return inp, sig


def _evaluate(ctx, d, inp, record=True):
    """Runs one case on the real code, the Lean impl-model and the specs. Returns True when all clauses hold."""
    score, ns, ms, pad, double, order = inp["score"], inp["ns"], inp["ms"], inp["pad"], inp["double"], inp["order"]
    perm, flip = inp["perm"], inp["flip"]
    nd = len(ns)
    target = np.array(inp["target"], dtype=np.float64).reshape(ns)
    template = np.array(inp["template"], dtype=np.float64).reshape(ms)
    wm = np.array(inp["mask"], dtype=np.float64).reshape(ms)
    tmask = None if inp["targetMask"] is None else np.array(inp["targetMask"], dtype=np.float64).reshape(ns)
    R = [r for r in S.grid_rotations(nd) if r[0] == perm and r[1] == flip][0][2]
    # intensity scale of the target (the normalised scores must not care; the guards of the code are absolute thresholds)
    tscale = float(inp.get("tscale", 1.0))
    itarget = target                      # unscaled: decides which windows are exactly constant
    target = target * tscale + float(inp.get("toffset", 0.0))
    ttb = itarget + float(inp.get("toffset", 0.0))      # for the (scale-invariant) textbook oracles: offset kept, scale dropped
    S.set_precision(double)
    try:
        dtype = np.float64 if double else np.float32
        if inp.get("prelude") is not None:
            # a session: another search with a different template of the same shape ran before, in the same (reused) workers
            pre = np.array(inp["prelude"], dtype=np.float64).reshape(ms)
            allr = np.stack([r[2] for r in S.grid_rotations(nd) if S.rot_ok_for_shape(r[0], ms)][:4])
            S.run_scan(score, target, pre, mask=wm, target_mask=tmask, rotations=allr, pad=pad, order=order, dtype=dtype, n_jobs=2)
            res, fp = S.run_scan(score, target, template, mask=wm, target_mask=tmask, rotations=np.stack([R, R]), pad=pad, order=order,
                                 dtype=dtype, n_jobs=2)
        else:
            res, fp = S.run_scan(score, target, template, mask=wm, target_mask=tmask, rotations=R[None], pad=pad, order=order, dtype=dtype)
    finally:
        S.set_precision(False)
    sc = np.asarray(res[0], dtype=np.float64)
    conv, fast, ft, shift = fp
    small = {k: v for k, v in inp.items() if k not in ("target", "template", "mask", "targetMask")}
    ok_all = True
    # ---- shapes / shift bookkeeping vs the model
    m = d.call("c01.shapes", ns=ns, ms=ms, pad=pad)
    ok_all &= ctx.agree("fourier_padding (conv shape, shift)", small, {"conv": list(conv), "shift": list(shift)},
                        {"conv": m["conv"], "shift": m["shift"]})
    ok_all &= ctx.agree("score map shape", small, list(sc.shape), ns)
    if list(sc.shape) != ns:
        return False
    eps = float(np.finfo(np.float64 if double else np.float32).eps)
    args = dict(score=score, pad=pad, mode="same", ns=ns, ms=ms, Ns=list(fast), perm=perm, flip=flip, eps=eps, ratio=0.3, order=order)
    inside = S.inside_mask(ns, ms) if not pad else np.ones(ns, bool)
    gR = S.rotate_grid(template, perm, flip)
    wR = S.rotate_grid(wm, perm, flip)
    tol = TOL[double]
    if score in ("CC", "LCC"):
        r = d.call("c01.int", target=[int(x) for x in target.reshape(-1)], template=[int(x) for x in template.reshape(-1)], **args)
        impl = np.rint(sc).astype(np.int64)
        exact = np.max(np.abs(sc - impl)) < (0.05 if not double else 1e-6)
        mi = np.array(r["impl"], dtype=np.int64).reshape(ns)
        ms_ = np.array(r["spec"], dtype=np.int64).reshape(ns)
        ok_all &= ctx.agree(f"{score}: score map == Lean implementation model (whole map, incl. wrap-around voxels)", inp,
                            bool(exact and np.array_equal(impl, mi)), True)
        # independent textbook: direct windowed sum (numpy)
        if score == "CC":
            tb = (S.windows(target, ms) * gR).sum(axis=tuple(range(nd, 2 * nd)))
        else:
            from scipy.ndimage import laplace
            tb = (S.windows(laplace(target, mode="wrap"), ms) * laplace(gR, mode="wrap")).sum(axis=tuple(range(nd, 2 * nd)))
        good = np.array_equal(impl[inside], ms_[inside]) and np.array_equal(impl[inside], np.rint(tb).astype(np.int64)[inside])
        ok_all &= ctx.spec(f"{score}: reported value == windowed definition centred at shape//2", inp, bool(exact and good),
                           {"max|impl-spec|": int(np.max(np.abs(impl - ms_)[inside])) if inside.any() else 0},
                           key=f"{score}:definition")
        ctx.count(f"voxels-compared", int(inside.sum()))
        return ok_all
    fargs = dict(target=target.reshape(-1).tolist(), template=template.reshape(-1).tolist(), mask=wm.reshape(-1).tolist(), **args)
    if tmask is not None:
        fargs["targetMask"] = tmask.reshape(-1).tolist()
    mi = np.array([dec_float(x) for x in d.call("c01.float", what="impl", **fargs)], dtype=np.float64).reshape(ns)
    msp = np.array([dec_float(x) for x in d.call("c01.float", what="spec", **fargs)], dtype=np.float64).reshape(ns)
    mtb = np.array([dec_float(x) for x in d.call("c01.float", what="textbook", **fargs)], dtype=np.float64).reshape(ns)
    # what="spec": the code's formula evaluated in the natural frame on windowed sums (the theorems' right-hand side);
    # what="textbook": the definition with the inputs as given.  They differ in two documented ways:
    #  * masks that are rotated (FLC, MCC) go through scipy's *un-prefiltered* spline: at order 3 every axis is filtered
    #    with (1,4,1)/6 even for the identity, so the effective mask differs from the given one unless it is constant;
    #  * FLC / FLCSphericalMask standardise the template under the mask at setup *and* per rotation, which applies a
    #    non-binary mask twice.
    smoothed = score in ("FLC", "MCC") and order > 1 and not bool(np.all(wm == wm.flat[0]))
    soft = score in ("FLC", "FLCSphericalMask") and not bool(np.all((wm == 0) | (wm == 1)))
    if smoothed:
        eff = np.array([dec_float(x) for x in d.call("c01.smooth3", shape=ms, data=wm.reshape(-1).tolist())]).reshape(ms)
        from tme.backends import backend as be
        om = np.zeros(ms, np.float32)
        be.rigid_transform(arr=np.zeros(ms, np.float32), arr_mask=wm.astype(np.float32), rotation_matrix=np.eye(nd, dtype=np.float32),
                           out=np.zeros(ms, np.float32), out_mask=om, use_geometric_center=True, order=order)
        ok_all &= ctx.agree("mask after rigid_transform == un-prefiltered cubic spline model (smooth3)", small,
                            bool(np.max(np.abs(om - eff)) < 1e-5), True)
        wm_eff, wR_eff = eff, S.rotate_grid(eff, perm, flip)
    else:
        wm_eff, wR_eff = wm, wR
    # ---- guard-tie voxels: exact denominator vanishes / threshold ties
    if score in ("FLC",):
        stable = S.window_var(itarget, wR_eff) > 1e-9
    elif score in ("FLCSphericalMask", "CORR", "CAM"):
        stable = S.window_var(itarget, wm) > 1e-9
    else:
        num, den, ov = _mcc_numpy(target, tmask, gR, wR_eff, 0.3, pad, fast, eps)
        stable = (den > 1e-6 * max(den.max(), 1e-30))
        # threshold tie on the overlap ratio: exact integer overlaps, compare against every candidate maximum
        maxov_candidates = np.unique(np.round(ov[ov > 0.01], 6)) if (ov > 0.01).any() else np.array([0.0])
        wsum = float(wR_eff.sum())
        for mx in np.unique(np.concatenate([maxov_candidates, [wsum]])):
            stable &= np.abs(ov - 0.3 * mx) > 1e-3
    finite = np.isfinite(sc).all()
    cmp_mask = stable & np.isfinite(mi) & np.isfinite(msp)
    whole = cmp_mask            # impl-model mirrors the whole map (also the wrap-around region without padding)
    dm = float(np.max(np.abs(sc - mi)[whole])) if whole.any() else 0.0
    ok_all &= ctx.agree(f"{score}: score map == Lean implementation model", inp, bool(dm <= tol), True)
    part = cmp_mask & inside
    ds = float(np.max(np.abs(sc - msp)[part])) if part.any() else 0.0
    good = ds <= tol and finite
    detail = {"max|impl-LeanSpec|": ds, "finite": bool(finite)}
    # textbook Pearson (independent of the Lean formulas) where it applies
    binary = bool(np.all((wm == 0) | (wm == 1))) and not smoothed
    if score in ("CORR", "CAM") and bool(np.all(wm == 1)):
        # CAM: the *standardised* target is what gets zero-extended
        tsrc = (ttb - ttb.mean()) / ttb.std() if score == "CAM" else ttb
        tb, st2 = S.pearson_textbook(tsrc, gR, np.ones(ms))
        p2 = part & st2
        dt = float(np.max(np.abs(sc - tb)[p2])) if p2.any() else 0.0
        detail["max|impl-Pearson|"] = dt
        good &= dt <= tol
    if score == "FLC" and binary:
        tb, st2 = S.pearson_textbook(ttb, gR, wR)
        p2 = part & st2
        dt = float(np.max(np.abs(sc - tb)[p2])) if p2.any() else 0.0
        detail["max|impl-maskedPearson|"] = dt
        good &= dt <= tol
    if score == "FLCSphericalMask" and binary:
        tb, st2 = S.pearson_textbook(ttb, gR, wm)
        p2 = part & st2
        dt = float(np.max(np.abs(sc - tb)[p2])) if p2.any() else 0.0
        detail["max|impl-maskedPearson|"] = dt
        good &= dt <= tol
    if score == "MCC":
        with np.errstate(all="ignore"):
            tb = np.clip(num / np.where(den > 0, den, 1), -1, 1)
        # overlap threshold as documented: below ratio * max overlap -> 0 (max overlap from the spec map itself)
        p2 = part & (msp != 0)
        dt = float(np.max(np.abs(sc - tb)[p2])) if p2.any() else 0.0
        detail["max|impl-Padfield|"] = dt
        good &= dt <= tol
    ok_all &= ctx.spec(f"{score}: reported value == the score formula on the window centred at shape//2 (natural frame, windowed sums)",
                       inp, bool(good), detail, key=f"{score}:definition")
    pt = part & np.isfinite(mtb)
    dtb = float(np.max(np.abs(sc - mtb)[pt])) if pt.any() else 0.0
    key = f"{score}:definition"
    if smoothed:
        key = f"{score}:order3-mask-not-prefiltered"
        ctx.count("order3-nonconstant-mask")
    elif soft:
        key = f"{score}:soft-mask-applied-twice"
        ctx.count("soft-mask")
    ok_all &= ctx.spec(f"{score}: reported value == textbook definition with template and mask as given", inp, bool(dtb <= tol),
                       {"max|impl-textbook|": dtb, "order": order, "mask_kind": inp["mask_kind"]}, key=key,
                       size=int(np.prod(ns)) * 1000 + int(np.prod(ms)))
    ctx.count("voxels-compared", int(part.sum()))
    ctx.count("voxels-guard-tie-skipped", int((~stable & inside).sum()))
    return ok_all


def run(ctx):
    d = ctx.driver
    rng = ctx.rng("main")
    quick = not ctx.thorough
    # corpus first
    import glob
    import json
    import os
    from .. import env
    for f in sorted(glob.glob(os.path.join(env.VERIF, "corpus", "C01_*.json"))):
        _evaluate(ctx, d, json.load(open(f))["input"])
        ctx.count("corpus")
    n = ctx.budget(126, 1800)
    combos = list(itertools.product(S.SCORES, (2, 3), (True, False)))
    for i in range(n):
        score, nd, pad = combos[i % len(combos)]
        double = bool(rng.random() < 0.35)
        order = int(rng.choice([1, 3]))
        mask_kind = str(rng.choice(["full", "binary", "soft"])) if score not in ("CC", "LCC") else "full"
        if score in ("CORR", "CAM") and rng.random() < 0.6:
            mask_kind = "full"       # the property's default full-box mask
        if score == "MCC" and mask_kind == "soft":
            mask_kind = "binary"
        inp, sig = _case(ctx, d, rng, nd, score, pad, double, order, mask_kind, quick)
        if score in ("FLC", "FLCSphericalMask", "CORR", "CAM") and rng.random() < 0.35:
            # small / large absolute intensities (far above the code's eps guards relative to the data, so the value is unchanged)
            inp["tscale"] = float(rng.choice([1e-9, 1e-6, 1e3] if double else [1e-5, 1e-4, 1e3]))
            sig = sig + (inp["tscale"],)
        _evaluate(ctx, d, inp)
        ctx.count("target-scale:%g" % inp.get("tscale", 1.0))
        ctx.distinct(sig)
        ctx.count(f"score:{score}")
        ctx.count(f"ndim:{nd}")
        ctx.count("pad:" + ("on" if pad else "off"))
        ctx.count("precision:" + ("f64" if double else "f32"))
        ctx.count("parity:" + "".join("e" if x % 2 == 0 else "o" for x in inp["ms"]) + "/" + "".join("e" if x % 2 == 0 else "o" for x in inp["ns"]))
        ctx.count("rotation:" + ("identity" if inp["perm"] == list(range(nd)) and not any(inp["flip"]) else "grid"))
        ctx.count("template:" + ("larger-than-target" if any(m > n for m, n in zip(inp["ms"], inp["ns"])) else "fits"))
        ctx.count("mask:" + mask_kind)
        if i < 3:
            ctx.sample({k: v for k, v in inp.items() if k not in ("target", "mask", "targetMask")})


    # ---- sessions: consecutive searches with different templates of one shape, rotations spread over two (reused) workers
    for i in range(ctx.budget(4, 30)):
        score = S.SCORES[i % len(S.SCORES)]
        if score == "MCC":
            score = "CC"
        nd = 2 if i % 3 else 3
        # (double precision is selected through the backend's arguments, not its name: the workers must honour it too)
        inp, sig = _case(ctx, d, rng, nd, score, bool(i % 2), bool(i % 2 == 0), 3, "full", True)
        if inp["double"] and score in ("FLC", "FLCSphericalMask", "CORR", "CAM"):
            inp["tscale"] = 1.0
            inp["toffset"] = 1000.0        # float32 cannot resolve the windows' variance at this offset, float64 can
        pre = rng.integers(-4, 5, size=inp["ms"])
        if pre.std() == 0:
            pre.flat[0] += 1
        inp["prelude"] = pre.reshape(-1).tolist()
        _evaluate(ctx, d, inp)
        ctx.distinct(sig + ("session",))
        ctx.count("session:two-searches-two-workers")


def search(ctx):
    """correspondence broke: look for a failing input with small shapes, all scores, both paddings"""
    d = ctx.driver
    rng = ctx.rng("search")
    for i in range(150):
        score = S.SCORES[i % 7]
        nd = 2 if i % 3 else 3
        inp, _ = _case(ctx, d, rng, nd, score, bool(i % 2), False, 3, "full", True)
        _evaluate(ctx, d, inp)


def replay(ctx, rec):
    _evaluate(ctx, ctx.driver, rec["input"])
