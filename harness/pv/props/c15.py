"""C15 — Density box operations preserve the physical position of every voxel.

Leg B: the real `tme.density.Density` of the worktree (adjust_box, pad, trim_box,
minimum_enclosing_box, centered, resample, copy, empty) against the Lean model (Model/C15.lean),
plus every clause of the property evaluated directly on the real outputs.

Coordinates are dyadic (multiples of 1/Q) in the correspondence streams so that float arithmetic is
exact and the model can work in integer units; a separate stream uses arbitrary float origins /
rates with a relative tolerance.  Voxel values are integers; in the "perm" mode every voxel of the
initial density carries a unique positive id, so the provenance of every value that survives a
sequence of operations can be read off the real output and its physical coordinate compared with
the one it started at."""
import inspect
import itertools
from fractions import Fraction

import os
import numpy as np

ID = "C15"
RULE = ("random 1-3-D densities (unique-id, blob and duplicate-valued data; float32/float64/int32; anisotropic dyadic "
        "origins and rates) x boxes with negative starts / stops beyond the data / empty and inverted boxes; centred "
        "and appended padding to all target extents incl. shrinking; cut-offs taken from the data, margins 0-3; "
        "resampling ratios incl. exact ties, both methods; histories of 2-12 mixed operations. "
        "distinct = distinct (operation, shape, parameters) tuples; identity boxes / unchanged shapes are not counted")
ASSUMPTIONS = [
    "adjust_box boxes have stop >= 0 on every axis for the extent / fill / conservation clauses (the docstring: only "
    "the start of a slice may be negative); negative stops are still compared with the model and checked for the "
    "physical-position clause",
    "trim_box margins >= 0 for the containment clause; data without NaN",
    "resample: interpolation (scipy.ndimage.zoom / Fourier cropping) is not modelled - extents, rate and origin only; "
    "when n*old/new is within 1e-6 of a tie and the ratio is not exactly representable the extent is not compared",
    "matching_utils.minimum_enclosing_box (float norm + ceil) enters the model as a recorded value; its contract "
    "side >= max-min+1 is checked on every call",
    "coordinates in the exact streams are multiples of 1/8 (float arithmetic exact); arbitrary floats are checked "
    "with relative tolerance 1e-6",
]
TRUSTED = ["C15: numpy.pad(mode='constant'), numpy basic slicing, scipy.ndimage.zoom output-shape rule are modelled and "
           "validated by correspondence only"]

Q = 8            # coordinate quantum 1/Q
DTYPES = ["float32", "float64", "int32"]


# ----------------------------------------------------------------------------------------------
# helpers
# ----------------------------------------------------------------------------------------------
def _guard(fn):
    """A case must never take the run down: an unexpected exception while evaluating one case is recorded as a
    correspondence failure for that input (and the stream goes on)."""
    import functools
    import traceback

    @functools.wraps(fn)
    def wrapped(ctx, case, *a, **k):
        try:
            return fn(ctx, case, *a, **k)
        except Exception:  # noqa: BLE001
            ctx.agree("harness:" + fn.__name__, {"kind": fn.__name__[5:], **case}, "exception: " + traceback.format_exc()[-600:], "ok")
            return None
    return wrapped


def _units(x):
    u = np.asarray(x, dtype=np.float64).reshape(-1) * Q
    if u.size and np.all(np.isfinite(u)) and np.all(u == np.round(u)):
        return [int(v) for v in u]
    return [float(v) for v in u]


def _ints(a):
    a = np.asarray(a)
    r = a.reshape(-1)
    if r.size == 0:
        return []
    if np.all(np.isfinite(r.astype(np.float64))) and np.all(r == np.round(r)):
        return [int(v) for v in r]
    return [float(v) for v in r]


def _state(d):
    return {"shape": [int(x) for x in d.shape], "data": _ints(d.data), "origin": _units(d.origin),
            "rate": _units(d.sampling_rate)}


def _mk(case):
    """Build the real Density of a case: returns (density, raw numpy array handed to the constructor)."""
    from tme import Density
    raw = np.array(case["data"], dtype=np.int64).reshape(case["shape"]).astype(case.get("dtype", "float32"))
    origin = np.array(case["origin"], dtype=np.float64) / Q
    rate = np.array(case["rate"], dtype=np.float64) / Q
    if case.get("scalar_rate"):
        rate = float(rate[0])
    if case.get("tuple_origin"):
        origin = tuple(float(x) for x in origin)
    return Density(raw, origin=origin, sampling_rate=rate), raw


def _margs(case):
    return {"shape": case["shape"], "data": case["data"], "origin": case["origin"], "rate": case["rate"]}


def gen_density(rng, nd=None, mode=None, maxext=None):
    nd = int(nd or rng.choice([1, 2, 3], p=[0.3, 0.4, 0.3]))
    hi = maxext or {1: 12, 2: 7, 3: 5}[nd]
    shape = [int(x) for x in rng.integers(1, hi + 1, size=nd)]
    n = int(np.prod(shape))
    mode = mode or str(rng.choice(["perm", "blob", "dup"], p=[0.5, 0.3, 0.2]))
    if mode == "perm":
        data = (np.arange(n) + 1)            # id = flat index + 1  (values need not be shuffled for provenance)
        if rng.random() < 0.5:
            data = rng.permutation(n) + 1
    elif mode == "blob":
        data = np.zeros(n, dtype=np.int64)
        k = int(rng.integers(1, n + 1))
        sel = rng.choice(n, size=k, replace=False)
        data[sel] = rng.permutation(n)[:k] + 1
    else:
        data = rng.integers(-3, 6, size=n)
    iso = rng.random() < 0.25
    rate = [int(rng.integers(1, 33))] * nd if iso else [int(x) for x in rng.integers(1, 33, size=nd)]
    return {"shape": shape, "data": [int(x) for x in data], "mode": mode,
            "origin": [int(x) for x in rng.integers(-80, 81, size=nd)], "rate": rate,
            "dtype": str(rng.choice(DTYPES)), "scalar_rate": bool(iso and rng.random() < 0.5),
            "tuple_origin": bool(rng.random() < 0.3)}


def gen_box(rng, shape, quirk=False):
    box = []
    for n in shape:
        r = rng.random()
        if r < 0.15:
            s, e = 0, n                                          # identity on this axis
        elif r < 0.35:
            s = int(rng.integers(0, n + 1)); e = int(rng.integers(s, n + 1))          # pure crop
        elif r < 0.9:
            s = int(rng.integers(-n - 3, n + 4)); e = int(rng.integers(max(s, 0), n + 6))   # extend / shift
        else:
            s = int(rng.integers(-n - 3, n + 4)); e = int(rng.integers(0, n + 6))      # possibly inverted
        if quirk and rng.random() < 0.6:
            e = -int(rng.integers(1, n + 4))
        box.append([s, e])
    return box


def _idmap_ok(case):
    return case.get("mode") == "perm"


def _pad_for(rng, case):
    return int(rng.choice([0, 0, -1, -7, -100]))


def _phys_float(origin, rate, idx):
    return (np.asarray(origin, dtype=np.float64).reshape(-1)[:, None]
            + np.asarray(idx, dtype=np.float64) * np.asarray(rate, dtype=np.float64).reshape(-1)[:, None])


# ----------------------------------------------------------------------------------------------
# property clauses on real outputs (independent of the Lean model)
# ----------------------------------------------------------------------------------------------
def spec_provenance(ctx, tag, inp, case, new, exact=True):
    """Every value that carries an id of the initial density sits at the physical coordinate it started at,
    and no id occurs twice."""
    if not _idmap_ok(case):
        return True
    shape0 = case["shape"]
    data0 = np.array(case["data"], dtype=np.int64)
    pos_of = np.zeros(data0.size + 2, dtype=np.int64)
    pos_of[data0] = np.arange(data0.size)
    nd = len(shape0)
    arr = np.asarray(new.data)
    vals = arr.reshape(-1)
    J = np.indices(arr.shape).reshape(nd, -1) if arr.size else np.zeros((nd, 0), dtype=np.int64)
    isid = (vals >= 1) & (vals <= data0.size) & (vals == np.round(vals))
    ids = vals[isid].astype(np.int64)
    ok_unique = len(set(ids.tolist())) == ids.size
    idx0 = np.array(np.unravel_index(pos_of[ids], shape0)).reshape(nd, -1)
    o0 = np.array(case["origin"], dtype=np.float64) / Q
    r0 = np.array(case["rate"], dtype=np.float64) / Q
    if len(np.asarray(new.origin).reshape(-1)) != nd or len(np.asarray(new.sampling_rate).reshape(-1)) != nd:
        ctx.spec(f"{tag}: retained values keep their physical coordinate", inp, False, "origin/rate rank", key=f"{tag}:physical")
        return False
    pn = _phys_float(new.origin, new.sampling_rate, J[:, isid])
    po = _phys_float(o0, r0, idx0)
    if exact:
        ok_phys = bool(np.array_equal(pn, po))
    else:
        ok_phys = bool(np.allclose(pn, po, rtol=1e-6, atol=1e-6))
    detail = None
    if not ok_phys and pn.size:
        bad = np.argwhere(~np.isclose(pn, po, rtol=0 if exact else 1e-6, atol=0 if exact else 1e-6))
        if len(bad):
            k = int(bad[0][1])
            detail = {"value": int(ids[k]), "new_index": J[:, isid][:, k].tolist(), "old_index": idx0[:, k].tolist(),
                      "new_physical": pn[:, k].tolist(), "old_physical": po[:, k].tolist()}
    a = ctx.spec(f"{tag}: retained values keep their physical coordinate", inp, ok_phys, detail, key=f"{tag}:physical")
    b = ctx.spec(f"{tag}: no value duplicated", inp, ok_unique, key=f"{tag}:duplicate")
    return a and b


def spec_box(ctx, tag, inp, old_data, old_origin, old_rate, new, box, padv, extent=True):
    """new = old seen through `box`: extents as requested, new[j] = old[j+start] inside, pad value outside,
    origin' = origin + start*rate, rate unchanged."""
    nd = old_data.ndim
    starts = np.array([b[0] for b in box], dtype=np.int64)
    stops = np.array([b[1] for b in box], dtype=np.int64)
    arr = np.asarray(new.data)
    want = [int(max(e - s, 0)) for s, e in zip(starts, stops)]
    ok = True
    lo_ = np.maximum(starts, 0); hi_ = np.minimum(stops, np.array(old_data.shape))
    retained = bool(np.all(hi_ > lo_)) and old_data.size > 0
    if extent:
        ok &= ctx.spec(f"{tag}: exactly the requested extents", inp, list(arr.shape) == want,
                       {"shape": list(arr.shape), "requested": want}, key=f"{tag}:extent")
    if arr.ndim == nd and extent:
        J = np.indices(arr.shape).reshape(nd, -1) if arr.size else np.zeros((nd, 0), dtype=np.int64)
        S = J + starts[:, None]
        inside = np.all((S >= 0) & (S < np.array(old_data.shape)[:, None]), axis=0)
        flat = arr.reshape(-1)
        src = old_data[tuple(S[:, inside])] if inside.any() else np.zeros(0)
        ok_in = bool(np.array_equal(flat[inside], src))
        padc = np.array(padv).astype(arr.dtype)
        ok_fill = bool(np.all(flat[~inside] == padc))
        # every voxel of the old data that lies inside the box must be present (conservation)
        lo = np.maximum(starts, 0); hi = np.minimum(stops, np.array(old_data.shape))
        n_inside_expected = int(np.prod(np.maximum(hi - lo, 0)))
        ok_cons = int(inside.sum()) == n_inside_expected
        d = None
        if not ok_in and inside.any():
            k = int(np.argwhere(flat[inside] != src)[0][0])
            d = {"new_index": J[:, inside][:, k].tolist(), "got": float(flat[inside][k]), "want": float(src[k])}
        ok &= ctx.spec(f"{tag}: values inside the box are conserved", inp, ok_in and ok_cons, d, key=f"{tag}:values")
        ok &= ctx.spec(f"{tag}: new voxels hold the pad value", inp, ok_fill, key=f"{tag}:fill")
    o_new = np.asarray(new.origin, dtype=np.float64).reshape(-1)
    r_new = np.asarray(new.sampling_rate, dtype=np.float64).reshape(-1)
    want_o = np.asarray(old_origin, dtype=np.float64) + starts * np.asarray(old_rate, dtype=np.float64)
    ok_o = o_new.shape == want_o.shape and bool(np.array_equal(o_new, want_o))
    if retained:      # the clause speaks about retained values; with none retained only the model comparison applies
        ok &= ctx.spec(f"{tag}: origin + index*rate of retained voxels unchanged", inp, ok_o,
                       {"origin": o_new.tolist(), "want": want_o.tolist(), "box": [list(map(int, b)) for b in box]},
                       key=f"{tag}:physical")
    else:
        ctx.count(f"{tag}:nothing-retained")
    ok_r = r_new.shape == np.asarray(old_rate).shape and bool(np.array_equal(r_new, np.asarray(old_rate, dtype=np.float64)))
    ok &= ctx.spec(f"{tag}: sampling rate unchanged", inp, ok_r, key=f"{tag}:rate")
    return ok


# ----------------------------------------------------------------------------------------------
# single cases (used by run, search and replay)
# ----------------------------------------------------------------------------------------------
@_guard
def case_adjust(ctx, case, model=None):
    """case: density + box + pad (+ 'default_pad')."""
    d, raw = _mk(case)
    box, padv = case["box"], case["pad"]
    inp = {"kind": "adjust", **case}
    quirk = any(b[1] < 0 for b in box)
    old = raw.copy()
    o0, r0 = np.array(case["origin"]) / Q, np.array(case["rate"]) / Q
    sl = tuple(slice(b[0], b[1]) for b in box)
    if case.get("np_ints"):
        sl = tuple(slice(np.int64(b[0]), np.int64(b[1])) for b in box)
    try:
        if case.get("default_pad"):
            d.adjust_box(sl)
        else:
            d.adjust_box(sl, pad_kwargs={"constant_values": padv})
        impl = _state(d)
    except Exception as e:  # noqa: BLE001
        impl = "raised:" + type(e).__name__
    if model is None:
        model = ctx.driver.call("c15.adjustBox", **_margs(case), box=box, pad=padv)
    if isinstance(model, str):
        ctx.agree("adjust_box(raises)", inp, isinstance(impl, str), True)
        return
    ctx.agree("adjust_box", inp, impl, model)
    if isinstance(impl, str):
        ctx.spec("adjust_box: returns", inp, False, impl, key="adjust_box:raised")
        return
    spec_box(ctx, "adjust_box", inp, old, o0, r0, d, box, padv, extent=not quirk)
    spec_provenance(ctx, "adjust_box", inp, case, d)
    ctx.spec("adjust_box: caller's array untouched", inp, bool(np.array_equal(raw, old)), key="adjust_box:source")
    ctx.count("adjust:ndim=%d" % len(box))
    for b, n in zip(box, case["shape"]):
        s, e = b
        ctx.count("adjust:axis:" + ("neg-stop" if e < 0 else "identity" if (s, e) == (0, n) else
                                    "inverted" if e < s else "empty" if e == s else
                                    "crop" if s >= 0 and e <= n else "beyond" if s >= n else
                                    "extend-both" if s < 0 and e > n else "extend-left" if s < 0 else "extend-right"))
    if any((b[0], b[1]) != (0, n) for b, n in zip(box, case["shape"])):
        ctx.distinct(("adjust", case["shape"], box, padv))
    return impl


@_guard
def case_pad(ctx, case, model=None):
    d, raw = _mk(case)
    ns, center, padv = case["newshape"], case["center"], case["pad"]
    inp = {"kind": "pad", **case}
    old = raw.copy()
    o0, r0 = np.array(case["origin"]) / Q, np.array(case["rate"]) / Q
    try:
        kw = {}
        if not (center is True and case.get("default_args")):
            kw["center"] = center
        if not (padv == 0 and case.get("default_args")):
            kw["padding_value"] = padv
        d.pad(tuple(ns), **kw)
        impl = _state(d)
    except Exception as e:  # noqa: BLE001
        impl = "raised:" + type(e).__name__
    if model is None:
        model = ctx.driver.call("c15.pad", **_margs(case), newshape=ns, center=center, pad=padv)
    if isinstance(model, str):
        ctx.agree("pad(raises)", inp, impl, "raised:ValueError")
        return
    ctx.agree("pad", inp, impl, model)
    if isinstance(impl, str):
        ctx.spec("pad: returns", inp, False, impl, key="pad:raised")
        return
    ctx.spec("pad: exactly the requested extents", inp, list(d.shape) == list(ns), {"shape": list(d.shape)}, key="pad:extent")
    # where did the old voxel 0 go?  read it from the origin bookkeeping, then check the data against it
    o_new = np.asarray(d.origin, dtype=np.float64).reshape(-1)
    left = (o0 - o_new) / r0 if o_new.shape == o0.shape else np.full(len(ns), np.nan)
    ok_int = bool(np.all(left == np.round(left)))
    if min(min(case["shape"]), min(ns)) == 0:
        ctx.count("pad:nothing-retained")     # no voxel survives: the position clauses are vacuous, only the model comparison applies
        return impl
    ctx.spec("pad: origin moves by a whole number of voxels", inp, ok_int, {"shift": left.tolist()}, key="pad:physical")
    if ok_int:
        left = left.astype(np.int64)
        right = np.array(ns) - np.array(case["shape"]) - left
        if center:
            ok_split = bool(np.all((right - left >= 0) & (right - left <= 1)))
        else:
            ok_split = bool(np.all(left == 0))
        ctx.spec("pad: centred (margins differ by at most one) / appended (nothing in front)", inp, ok_split,
                 {"left": left.tolist(), "right": right.tolist()}, key="pad:split")
        box = [[int(-l), int(-l + n)] for l, n in zip(left, ns)]
        spec_box(ctx, "pad", inp, old, o0, r0, d, box, padv)
    spec_provenance(ctx, "pad", inp, case, d)
    for n, m in zip(case["shape"], ns):
        ctx.count("pad:%s:%s:%s" % ("centre" if center else "append", "grow" if m > n else "shrink" if m < n else "same",
                                    "odd" if (m - n) % 2 else "even"))
    if list(ns) != list(case["shape"]):
        ctx.distinct(("pad", case["shape"], ns, center, padv))
    return impl


@_guard
def case_trim(ctx, case, model=None):
    d, raw = _mk(case)
    cutoff, margin = case["cutoff"], case["margin"]
    inp = {"kind": "trim", **case}
    try:
        box = d.trim_box(cutoff, margin) if not case.get("default_margin") else d.trim_box(cutoff)
        impl = [[int(b.start), int(b.stop)] for b in box]
    except ValueError:
        impl = "err:ValueError"
    except Exception as e:  # noqa: BLE001
        impl = "raised:" + type(e).__name__
    if model is None:
        model = ctx.driver.call("c15.trimBox", **_margs(case), cutoff=cutoff, margin=margin)
    ctx.agree("trim_box", inp, impl, model)
    above = np.argwhere(raw > cutoff)
    if isinstance(impl, str):
        # "raises iff nothing is above the cut-off"
        ctx.spec("trim_box: raises only when nothing exceeds the cut-off", inp, len(above) == 0, impl, key="trim_box:raised")
        ctx.count("trim:raised")
        return
    if len(above) == 0:
        ctx.spec("trim_box: raises only when nothing exceeds the cut-off", inp, False, impl, key="trim_box:not-raised")
        return
    starts = np.array([b[0] for b in impl]); stops = np.array([b[1] for b in impl])
    if margin >= 0:
        ok = len(impl) == raw.ndim and bool(np.all(above >= starts[None, :]) and np.all(above < stops[None, :]))
        det = None
        if not ok and len(impl) == raw.ndim:
            bad = above[np.any((above < starts[None, :]) | (above >= stops[None, :]), axis=1)]
            det = {"box": impl, "voxel_outside": bad[0].tolist()}
        ctx.spec("trim_box: box contains every voxel above the cut-off", inp, ok, det, key="trim_box:contains")
        # (that the box stays inside the data and is tight is compared with the model only: the property does not claim it)
        ok2 = bool(np.all(starts >= 0) and np.all(stops <= np.array(raw.shape)) and np.all(starts < stops))
        ctx.count("trim:box-inside-data" if ok2 else "trim:box-outside-data")
        # trimming = adjust_box(trim_box): positions, extents, values
        old = raw.copy()
        d.adjust_box(box)
        o0, r0 = np.array(case["origin"]) / Q, np.array(case["rate"]) / Q
        spec_box(ctx, "trim", inp, old, o0, r0, d, impl, 0)
        spec_provenance(ctx, "trim", inp, case, d)
        kept = np.asarray(d.data)
        from collections import Counter
        have, need = Counter(kept[kept > cutoff].tolist()), Counter(raw[raw > cutoff].tolist())
        ctx.spec("trim: every value above the cut-off survives", inp, all(have[v] >= c for v, c in need.items()),
                 key="trim:values")
    ctx.count("trim:margin=%s" % ("neg" if margin < 0 else margin))
    ctx.count("trim:ndim=%d" % raw.ndim)
    if impl != [[0, n] for n in raw.shape]:
        ctx.distinct(("trim", case["shape"], case["data"], cutoff, margin))
    return impl


@_guard
def case_mebox(ctx, case):
    from tme.matching_utils import minimum_enclosing_box
    d, raw = _mk(case)
    cutoff, geo = case["cutoff"], case.get("geometric", False)
    inp = {"kind": "mebox", **case}
    above = np.argwhere(raw > cutoff)
    if len(above) == 0:
        return
    try:
        side = minimum_enclosing_box(coordinates=np.array(np.where(raw > cutoff)), use_geometric_center=geo)
        box = d.minimum_enclosing_box(cutoff, use_geometric_center=geo)
    except Exception as e:  # noqa: BLE001  (qhull on degenerate clouds)
        ctx.count("mebox:raised:" + type(e).__name__)
        return
    side = [int(s) for s in np.asarray(side).reshape(-1)]
    impl = [[int(b.start), int(b.stop)] for b in box]
    lo, hi = above.min(axis=0), above.max(axis=0)
    contract = len(set(side)) == 1 and all(s >= int(h - l) + 1 for s, l, h in zip(side, lo, hi))
    ctx.spec("minimum_enclosing_box: side >= extent of the cloud (contract of the recorded value)", inp, contract,
             {"side": side, "lo": lo.tolist(), "hi": hi.tolist()}, key="mebox:contract")
    model = ctx.driver.call("c15.mebox", **_margs(case), cutoff=cutoff, side=side[0])
    ctx.agree("minimum_enclosing_box", inp, impl, model)
    starts = np.array([b[0] for b in impl]); stops = np.array([b[1] for b in impl])
    ok = bool(np.all(above >= starts[None, :]) and np.all(above < stops[None, :]))
    ctx.spec("minimum_enclosing_box: contains every voxel above the cut-off", inp, ok, impl, key="mebox:contains")
    ctx.count("mebox:" + ("geometric" if geo else "mass"))
    ctx.distinct(("mebox", case["shape"], case["data"], cutoff, geo))
    if geo:
        return
    # centered(): frame of the result (copy -> mebox -> adjust_box -> odd pad); the translation inside is interpolation
    before = _state(d)
    try:
        c, _shift = d.centered(cutoff)
    except Exception as e:  # noqa: BLE001
        ctx.spec("centered: returns", inp, False, type(e).__name__, key="centered:raised")
        return
    m = ctx.driver.call("c15.centeredFrame", **_margs(case), cutoff=cutoff, side=side[0])
    ctx.agree("centered(frame)", inp, {"shape": [int(x) for x in c.shape], "origin": _units(c.origin)},
              {"shape": m["shape"], "origin": m["origin"]})
    sh = np.array(c.shape)
    ctx.spec("centered: box at least the source box and the enclosing cube, odd", inp,
             bool(np.all(sh >= np.array(raw.shape)) and np.all(sh >= side[0]) and np.all(sh % 2 == 1)), list(c.shape),
             key="centered:shape")
    # origin moved by whole voxels so that old voxel (0,..) sits at index `left` of the new grid
    o0, r0 = np.array(case["origin"]) / Q, np.array(case["rate"]) / Q
    left = (o0 - np.asarray(c.origin, dtype=np.float64)) / r0
    ctx.spec("centered: origin consistent with a whole-voxel box", inp, bool(np.all(left == np.round(left))),
             left.tolist(), key="centered:physical")
    ctx.spec("centered: source untouched", inp, _state(d) == before and not np.shares_memory(c.data, d.data), key="centered:source")
    ctx.count("centered")


def _ratio_parts(old, new):
    fo, fn = Fraction(old), Fraction(new)
    r = fo / fn
    return r.numerator, r.denominator


@_guard
def case_resample(ctx, case):
    """case: shape, origin(units), old (floats), new (floats), method, order, exact (ratio exactly representable)."""
    from tme import Density
    shape = case["shape"]
    inp = {"kind": "resample", **case}
    rng = np.random.default_rng(case.get("dataseed", 0))
    raw = rng.integers(0, 5, size=shape).astype(case.get("dtype", "float32"))
    origin = np.array(case["origin"], dtype=np.float64) / Q
    old = np.array(case["old"], dtype=np.float64)
    new = case["new"]
    d = Density(raw.copy(), origin=origin.copy(), sampling_rate=old.copy())
    new_arg = new[0] if case.get("scalar_new") else tuple(new)
    try:
        r = d.resample(new_arg, method=case["method"], order=case.get("order", 1))
        impl = [int(x) for x in r.shape]
    except ValueError:
        r, impl = None, "err:ValueError"
    except Exception as e:  # noqa: BLE001
        r, impl = None, "raised:" + type(e).__name__
    parts = [_ratio_parts(o, n) for o, n in zip(old, new)]
    m = ctx.driver.call("c15.resample", shape=shape, origin=case["origin"], rate=[p[0] for p in parts],
                        newrate=[p[1] for p in parts])
    exact_vals = [Fraction(n) * Fraction(a, b) for n, (a, b) in zip(shape, parts)]
    near_tie = any(abs((v - int(v)) - Fraction(1, 2)) < Fraction(1, 10**6) for v in exact_vals) and not case.get("exact")
    if near_tie:
        ctx.count("resample:float-tie-not-compared")
    else:
        want = m["shape"]
        if case["method"] == "fourier" and 0 in want:
            want = "err:ValueError"      # numpy refuses a zero-point inverse FFT
        ctx.agree("resample(extents)", inp, impl, want)
    if r is None:
        ctx.count("resample:raised")
        return
    ctx.agree("resample(rate := new, origin kept)", inp,
              [bool(np.array_equal(np.asarray(r.sampling_rate, dtype=np.float64).reshape(-1), np.array(new, dtype=np.float64))),
               bool(np.array_equal(np.asarray(r.origin, dtype=np.float64).reshape(-1), origin))],
              [m["rate"] == [p[1] for p in parts], m["origin"] == case["origin"]])
    ok = len(impl) == len(shape) and all(abs(Fraction(s) - v) <= Fraction(1, 2) + Fraction(1, 10**6) for s, v in zip(impl, exact_vals))
    ctx.spec("resample: extents = round(n * old/new)", inp, ok, {"shape": impl, "exact": [float(v) for v in exact_vals]}, key="resample:shape")
    rr = np.asarray(r.sampling_rate, dtype=np.float64).reshape(-1)
    ctx.spec("resample: new rate recorded", inp, rr.shape == (len(shape),) and bool(np.array_equal(rr, np.array(new, dtype=np.float64))),
             rr.tolist(), key="resample:rate")
    ctx.spec("resample: origin kept", inp, bool(np.array_equal(np.asarray(r.origin, dtype=np.float64).reshape(-1), origin)),
             np.asarray(r.origin).tolist(), key="resample:origin")
    ctx.spec("resample: source untouched", inp,
             bool(np.array_equal(d.data, raw) and np.array_equal(d.sampling_rate, old) and np.array_equal(d.origin, origin)),
             key="resample:source")
    ctx.spec("resample: result shares no buffer with the source", inp,
             not (np.shares_memory(r.data, d.data) or np.shares_memory(r.origin, d.origin)
                  or np.shares_memory(r.sampling_rate, d.sampling_rate)), key="resample:alias")
    ctx.count("resample:" + case["method"])
    for v in exact_vals:
        f = v - int(v)
        ctx.count("resample:frac:" + ("0" if f == 0 else "1/2" if f == Fraction(1, 2) else "<1/2" if f < Fraction(1, 2) else ">1/2"))
    if impl != list(shape):
        ctx.distinct(("resample", shape, case["old"], case["new"], case["method"]))
    return impl


@_guard
def case_broadcast(ctx, case):
    """per-axis arguments: a scalar is repeated, a full tuple kept, anything else refused (constructor, resample)."""
    from tme import Density
    nd, xs = case["ndim"], case["xs"]          # xs in units of 1/Q, all > 0
    inp = {"kind": "broadcast", **case}
    vals = [x / Q for x in xs]
    m = ctx.driver.call("c15.broadcast", ndim=nd, xs=xs)
    want = m if not isinstance(m, str) else "raised"
    shape = (2,) * nd
    got = {}
    for which in ("origin", "sampling_rate", "resample"):
        try:
            if which == "origin":
                r = _units(Density(np.zeros(shape, np.float32), origin=list(vals)).origin)
            elif which == "sampling_rate":
                r = _units(Density(np.zeros(shape, np.float32), sampling_rate=list(vals)).sampling_rate)
            else:
                r = _units(Density(np.ones(shape, np.float32)).resample(list(vals), order=0).sampling_rate)
        except Exception:  # noqa: BLE001
            r = "raised"
        got[which] = r
        ctx.agree(f"per-axis argument ({which})", inp, r, want)
        if r != "raised" and which == "resample":      # "records the new rate"; the constructor's rule is compared with the model only
            ok = len(r) == nd and (r == xs if len(xs) == nd else r == [xs[0]] * nd if len(xs) == 1 else False)
            ctx.spec("resample: the new rate is recorded per axis (scalar repeated / tuple kept)", inp, ok, {which: r}, key="resample:rate")
    ctx.count("broadcast:" + ("accepted" if want != "raised" else "refused"))
    if len(xs) > 1:
        ctx.distinct(("broadcast", nd, len(xs)))


def _shares(a, b):
    return [bool(np.shares_memory(a.data, b.data)), bool(np.shares_memory(a.origin, b.origin)),
            bool(np.shares_memory(a.sampling_rate, b.sampling_rate)), a.metadata is b.metadata]


@_guard
def case_alias(ctx, case):
    """copies never share data with their source; which buffers are fresh (heap model)."""
    from tme import Density
    inp = {"kind": "alias", **case}
    raw = np.array(case["data"], dtype=np.int64).reshape(case["shape"]).astype(case.get("dtype", "float32"))
    o = np.array(case["origin"], dtype=np.float64) / Q
    r = np.array(case["rate"], dtype=np.float64) / Q
    md = {"k": [1, 2, 3]}
    d = Density(raw, origin=o, sampling_rate=r, metadata=md)

    class _Raw:  # the four objects handed to the constructor
        data, origin, sampling_rate, metadata = raw, o, r, md
    # the constructor keeping the caller's array and adjust_box allocating new buffers are facts the heap model
    # mirrors, but the property does not claim them: they are counted, not compared
    ctx.count("alias:construct:" + ("as-model" if _shares(d, _Raw) == ctx.driver.call("c15.alias", which="construct") else "differs"))
    for name, mk in (("copy", lambda x: x.copy()), ("empty", lambda x: x.empty)):
        c = mk(d)
        sh = _shares(c, d)
        ctx.agree(f"alias({name})", inp, sh, ctx.driver.call("c15.alias", which=name))
        ctx.spec(f"{name}: shares no buffer with its source", inp, not any(sh), sh, key=f"{name}:alias")
        if name == "copy":
            ctx.spec("copy: equal content", inp, _state(c) == _state(d) and c.metadata == d.metadata, key="copy:content")
        # writes through one object are invisible through the other
        before_d = (_state(d), repr(d.metadata))
        if c.data.size:
            c.data.reshape(-1)[...] = 77
        c.origin[...] = 1234.5
        c.sampling_rate[...] = 99.0
        c.metadata["k2"] = 1
        if "k" in c.metadata:
            c.metadata["k"].append(9)
        ctx.spec(f"{name}: writing through the copy leaves the source unchanged", inp, (_state(d), repr(d.metadata)) == before_d,
                 key=f"{name}:independent")
        c2 = mk(d)
        before_c = (_state(c2), repr(c2.metadata))
        if d.data.size:
            d.data.reshape(-1)[...] = 55
        d.origin[...] = -3.5
        d.sampling_rate[...] = 7.0
        d.metadata["k"].append(8)
        ctx.spec(f"{name}: writing through the source leaves the copy unchanged", inp, (_state(c2), repr(c2.metadata)) == before_c,
                 key=f"{name}:independent")
        # restore
        d = Density(raw, origin=o, sampling_rate=r, metadata=md)
        raw[...] = np.array(case["data"], dtype=np.int64).reshape(case["shape"])
        o[...] = np.array(case["origin"], dtype=np.float64) / Q
        r[...] = np.array(case["rate"], dtype=np.float64) / Q
        md.clear(); md["k"] = [1, 2, 3]
    # the same for a memory-mapped source (Density.to_memmap / from_file(use_memmap=True)): the copy is an ordinary array
    if raw.size:
        dm = Density(raw.copy(), origin=o.copy(), sampling_rate=r.copy(), metadata={"k": [1, 2, 3]})
        fname = None
        try:
            dm.to_memmap()
            fname = getattr(dm.data, "filename", None)
            cm = dm.copy()
            shm_ = _shares(cm, dm)
            inpm = dict(inp, source="memmap")
            ctx.spec("copy: shares no buffer with its source", inpm, not any(shm_), shm_, key="copy:alias")
            ctx.spec("copy: equal content", inpm, _state(cm) == _state(dm), key="copy:content")
            before_m = _state(dm)
            try:
                cm.data.reshape(-1)[...] = 77
                wrote = True
            except Exception:  # noqa  (a read-only view of the source's file is not an independent copy)
                wrote = False
            ctx.spec("copy: writing through the copy leaves the source unchanged", inpm, wrote and _state(dm) == before_m, key="copy:independent")
            ctx.count("alias:memmap-source")
        finally:
            if fname and os.path.exists(str(fname)):
                try:
                    del dm, cm
                except Exception:  # noqa
                    pass
                try:
                    os.remove(str(fname))
                except OSError:
                    pass
    # adjust_box in place: fresh data/origin, same rate/metadata objects
    e = d.copy()
    class _Old:
        data, origin, sampling_rate, metadata = e.data, e.origin, e.sampling_rate, e.metadata
    e.adjust_box(tuple(slice(0, n) for n in e.shape))
    ctx.count("alias:adjust_box:" + ("as-model" if _shares(e, _Old) == ctx.driver.call("c15.alias", which="adjust") else "differs"))
    ctx.count("alias:ndim=%d" % raw.ndim)
    ctx.distinct(("alias", case["shape"], case.get("dtype")))


# ----------------------------------------------------------------------------------------------
# histories
# ----------------------------------------------------------------------------------------------
def gen_history(rng, case, length, maxvox=1500):
    """ops generated against the *model-free* evolving shape (we only need plausible parameters; the real run decides)."""
    ops = []
    shape = list(case["shape"])
    data0 = np.array(case["data"])
    for _ in range(length):
        k = str(rng.choice(["adjust", "pad", "trim", "copy"], p=[0.4, 0.3, 0.2, 0.1]))
        big = int(np.prod([max(s, 1) for s in shape])) > maxvox
        if k == "adjust" or (big and k == "pad"):
            box = gen_box(rng, shape)
            if big:
                box = [[int(rng.integers(0, max(n // 2, 1))), int(max(n // 2, 1) + rng.integers(0, 2))] for n in shape]
            ops.append({"op": "adjust", "box": box, "pad": int(rng.choice([0, -1, -5]))})
            shape = [max(b[1] - b[0], 0) if b[1] >= 0 else None for b in box]
            if None in shape:   # cannot happen: gen_box(quirk=False)
                shape = [1] * len(box)
        elif k == "pad":
            ns = [int(max(0, n + rng.integers(-3, 5))) for n in shape]
            ops.append({"op": "pad", "newshape": ns, "center": bool(rng.random() < 0.7), "pad": int(rng.choice([0, -1, -5]))})
            shape = ns
        elif k == "trim":
            lowq = np.sort(data0.reshape(-1))[: max(1, data0.size // 2)]
            cutoff = int(rng.choice(np.concatenate([lowq, lowq, data0.reshape(-1), [-1, 0, 0, data0.size + 3]])))
            ops.append({"op": "trim", "cutoff": cutoff, "margin": int(rng.integers(0, 3)), "pad": 0})
            shape = None
        else:
            ops.append({"op": "copy"})
        if shape is None:
            shape = [max(1, s // 2 + 1) for s in case["shape"]]   # unknown after a trim; only used to pick parameters
    return ops


def apply_real(d, op):
    """Apply one history operation to the real object; returns (object, box used or None, raised?)."""
    if op["op"] == "adjust":
        d.adjust_box(tuple(slice(b[0], b[1]) for b in op["box"]), pad_kwargs={"constant_values": op["pad"]})
        return d, op["box"], False
    if op["op"] == "pad":
        before_o = np.asarray(d.origin, dtype=np.float64).copy()
        r = np.asarray(d.sampling_rate, dtype=np.float64)
        d.pad(tuple(op["newshape"]), center=op["center"], padding_value=op["pad"])
        left = np.round((before_o - np.asarray(d.origin, dtype=np.float64)) / r).astype(np.int64)
        return d, [[int(-l), int(-l + n)] for l, n in zip(left, op["newshape"])], False
    if op["op"] == "trim":
        try:
            box = d.trim_box(op["cutoff"], op["margin"])
        except ValueError:
            return d, None, True
        d.adjust_box(box)
        return d, [[int(b.start), int(b.stop)] for b in box], False
    return d.copy(), None, False


@_guard
def case_history(ctx, case):
    """case: density + ops.  States after every operation against the model; provenance / physical position /
    retained set evaluated on the real final state."""
    inp = {"kind": "history", **case}
    d, raw = _mk(case)
    nd = raw.ndim
    states = []
    # spec-level tracking in the coordinates of the initial array: surviving window and cumulative offset
    wlo = np.zeros(nd, dtype=np.int64); whi = np.array(raw.shape, dtype=np.int64); off = np.zeros(nd, dtype=np.int64)
    crashed = None
    for op in case["ops"]:
        try:
            d, box, raised = apply_real(d, op)
        except Exception as e:  # noqa: BLE001
            crashed = type(e).__name__
            break
        if raised:
            states.append("raised")
            continue
        states.append(_state(d))
        if op["op"] in ("adjust", "pad"):
            want = list(op["newshape"]) if op["op"] == "pad" else [max(b[1] - b[0], 0) for b in op["box"]]
            ctx.spec("history: every operation yields exactly the requested extents", inp, [int(x) for x in d.shape] == want,
                     {"after": op, "shape": [int(x) for x in d.shape], "requested": want}, key="history:extent")
        if box is not None:
            b = np.array(box, dtype=np.int64)
            wlo = np.maximum(wlo, b[:, 0] + off); whi = np.minimum(whi, b[:, 1] + off)
            off = off + b[:, 0]
    if crashed:
        ctx.spec("history: operations return", inp, False, crashed, key="history:raised")
        return
    m = ctx.driver.call("c15.run", **_margs(case), ops=case["ops"])
    ctx.agree("history(states)", inp, states, m["states"])
    # provenance of the real final state vs the model's trace
    arr = np.asarray(d.data)
    if _idmap_ok(case):
        data0 = np.array(case["data"], dtype=np.int64)
        pos_of = np.full(data0.size + 2, -1, dtype=np.int64)
        pos_of[data0] = np.arange(data0.size)
        vals = arr.reshape(-1)
        isid = (vals >= 1) & (vals <= data0.size)
        tr = np.where(isid, pos_of[np.clip(vals, 0, data0.size).astype(np.int64)], -1)
        ctx.agree("history(trace)", inp, [int(x) for x in tr], m["trace"])
        spec_provenance(ctx, "history", inp, case, d)
        # retained set = the voxels whose initial index stayed inside every box
        want_ids = set()
        if np.all(whi > wlo):
            sub = data0.reshape(case["shape"])[tuple(slice(int(a), int(b)) for a, b in zip(wlo, whi))]
            want_ids = set(int(x) for x in sub.reshape(-1))
        got_ids = set(int(x) for x in vals[isid])
        ctx.spec("history: exactly the voxels that stayed inside every box are retained", inp, got_ids == want_ids,
                 {"missing": sorted(want_ids - got_ids)[:5], "extra": sorted(got_ids - want_ids)[:5]}, key="history:retained")
    # cumulative origin: origin_final = origin_0 + offset * rate
    o0, r0 = np.array(case["origin"]) / Q, np.array(case["rate"]) / Q
    if not np.all(whi > wlo):
        ctx.count("history:nothing-retained")
    else:
        ok_o = bool(np.array_equal(np.asarray(d.origin, dtype=np.float64).reshape(-1), o0 + off * r0)) \
            and bool(np.array_equal(np.asarray(d.sampling_rate, dtype=np.float64).reshape(-1), r0))
        ctx.spec("history: origin = initial origin + accumulated start * rate", inp, ok_o,
                 {"origin": np.asarray(d.origin).tolist(), "want": (o0 + off * r0).tolist()}, key="history:physical")
    ctx.count("history:len=%d" % len(case["ops"]))
    for op, s in zip(case["ops"], states):
        ctx.count("history:op:" + op["op"] + (":raised" if s == "raised" else ""))
    ctx.distinct(("history", case["shape"], case["ops"]))


# ----------------------------------------------------------------------------------------------
# float (non-dyadic) stream: spec only, with tolerance
# ----------------------------------------------------------------------------------------------
@_guard
def case_float(ctx, case):
    from tme import Density
    inp = {"kind": "float", **case}
    shape = case["shape"]
    n = int(np.prod(shape))
    raw = (np.arange(n) + 1).reshape(shape).astype("float32")
    o0 = np.array(case["forigin"], dtype=np.float64); r0 = np.array(case["frate"], dtype=np.float64)
    d = Density(raw.copy(), origin=o0.copy(), sampling_rate=r0.copy())
    off = np.zeros(len(shape), dtype=np.int64)
    for op in case["ops"]:
        d, box, raised = apply_real(d, op)
        if box is not None and not raised:
            off += np.array([b[0] for b in box], dtype=np.int64)
    arr = np.asarray(d.data)
    vals = arr.reshape(-1)
    isid = vals >= 1
    J = np.indices(arr.shape).reshape(len(shape), -1)[:, isid] if arr.size else np.zeros((len(shape), 0))
    idx0 = np.array(np.unravel_index((vals[isid] - 1).astype(np.int64), shape)).reshape(len(shape), -1)
    pn = _phys_float(d.origin, d.sampling_rate, J); po = _phys_float(o0, r0, idx0)
    scale = np.maximum(1.0, np.abs(po))
    ok = bool(np.all(np.abs(pn - po) <= 1e-6 * scale)) if pn.size else True
    ctx.spec("float coordinates: retained values keep their physical coordinate (rel 1e-6)", inp, ok, key="float:physical")
    ctx.count("float:history")


# ----------------------------------------------------------------------------------------------
def _obligations(ctx):
    """Constants the model / history ops assume, read from the source on every run."""
    from tme import Density
    sig = inspect.signature
    p = sig(Density.pad).parameters
    ctx.obligation("defaults:pad(center=True, padding_value=0)", p["center"].default is True and p["padding_value"].default == 0,
                   {k: repr(v.default) for k, v in p.items()})
    a = sig(Density.adjust_box).parameters
    ctx.obligation("defaults:adjust_box(pad_kwargs={}) -> numpy constant 0", a["pad_kwargs"].default == {} and
                   sig(np.pad).parameters["mode"].default == "constant", repr(a["pad_kwargs"].default))
    t = sig(Density.trim_box).parameters
    ctx.obligation("defaults:trim_box(margin=0)", t["margin"].default == 0, repr(t["margin"].default))
    r = sig(Density.resample).parameters
    ctx.obligation("defaults:resample(method='spline', order=1)", r["method"].default == "spline" and r["order"].default == 1,
                   {k: repr(v.default) for k, v in r.items()})
    m = sig(Density.minimum_enclosing_box).parameters
    c = sig(Density.centered).parameters
    ctx.obligation("defaults:minimum_enclosing_box(use_geometric_center=False), centered(cutoff=0)",
                   m["use_geometric_center"].default is False and c["cutoff"].default == 0, None)
    ctx.obligation("default pad value 0 really is what numpy.pad writes", bool(np.array_equal(np.pad(np.ones(1), (1, 1)), [0, 1, 0])), None)


def _gen_trim_case(rng, **kw):
    case = gen_density(rng, **kw)
    data = np.array(case["data"])
    r = rng.random()
    if r < 0.6:
        cutoff = int(rng.choice(data))
    elif r < 0.8:
        cutoff = int(data.min()) - 1
    elif r < 0.9:
        cutoff = int(data.max())          # raises
    else:
        cutoff = int(rng.integers(-4, data.size + 2))
    margin = int(rng.choice([0, 0, 1, 2, 3, -1])) if rng.random() < 0.9 else int(rng.integers(-3, 9))
    case.update(cutoff=cutoff, margin=margin, default_margin=bool(margin == 0 and rng.random() < 0.3))
    return case


def _gen_resample_case(rng, exact):
    nd = int(rng.choice([1, 2, 3]))
    shape = [int(x) for x in rng.integers(1, {1: 24, 2: 10, 3: 6}[nd] + 1, size=nd)]
    if exact:
        old = [float(rng.integers(1, 25)) / 4 for _ in range(nd)]
        k = rng.integers(-3, 3, size=nd)
        new = [float(o * (2.0 ** int(kk))) for o, kk in zip(old, k)]
        if rng.random() < 0.3:      # integer down-sampling factors
            new = [float(o * int(rng.integers(1, 5))) for o in old]
            # o/(o*f) = 1/f exactly representable only for powers of two; keep those, others go to the inexact stream
            exact = all(Fraction(o) / Fraction(nw) == Fraction(float(o / nw)) for o, nw in zip(old, new))
    else:
        old = [float(rng.integers(1, 60)) / 10 for _ in range(nd)]
        new = [float(rng.integers(1, 60)) / 10 for _ in range(nd)]
    iso = rng.random() < 0.2
    if iso:
        new = [new[0]] * nd
        exact = exact and all(Fraction(o) / Fraction(nw) == Fraction(float(o / nw)) for o, nw in zip(old, new))
    exact = bool(exact and all(Fraction(o) / Fraction(nw) == Fraction(float(o / nw)) for o, nw in zip(old, new)))
    return {"shape": shape, "origin": [int(x) for x in rng.integers(-40, 41, size=nd)], "old": old, "new": new,
            "method": str(rng.choice(["spline", "fourier"])), "order": int(rng.choice([0, 1, 3])),
            "scalar_new": bool(iso), "exact": exact, "dataseed": int(rng.integers(0, 1000)),
            "dtype": str(rng.choice(["float32", "float64"]))}


def run(ctx):
    import warnings
    warnings.filterwarnings("ignore")
    d = ctx.driver
    _obligations(ctx)

    # ---- corpus (minimised past disagreements) first
    import glob, json, os
    from pv import env
    for f in sorted(glob.glob(os.path.join(env.VERIF, "corpus", "C15_*.json"))):
        rec = json.load(open(f))
        _dispatch(ctx, rec.get("input", rec))
        ctx.count("corpus")

    # ---- per-axis plan, exhaustive (the arithmetic core of adjust_box): n, start, stop
    rng = ctx.rng("axis")
    B = ctx.budget(6, 9)
    for n in range(0, B + 1):
        if n == 0:
            continue
        reqs, keep = [], []
        for s in range(-n - 3, n + 4):
            for e in range(-n - 2, n + 5):
                case = {"shape": [n], "data": list(range(1, n + 1)), "mode": "perm", "origin": [int(rng.integers(-40, 41))],
                        "rate": [int(rng.integers(1, 17))], "dtype": "float32", "box": [[s, e]], "pad": -1,
                        "np_ints": bool((s + e) % 3 == 0)}
                keep.append(case)
                reqs.append(("c15.adjustBox", {**_margs(case), "box": case["box"], "pad": -1}))
        for case, m in zip(keep, d.batch(reqs)):
            case_adjust(ctx, case, m)
    ctx.sample({"op": "adjust_box", "case": {k: keep[3][k] for k in ("shape", "box", "origin", "rate")}})

    # ---- adjust_box, random n-D
    rng = ctx.rng("adjust")
    N = ctx.budget(2500, 20000)
    keep, reqs = [], []
    for i in range(N):
        case = gen_density(rng)
        case["box"] = gen_box(rng, case["shape"], quirk=(i % 12 == 0))
        case["default_pad"] = bool(rng.random() < 0.15)
        case["pad"] = 0 if case["default_pad"] else _pad_for(rng, case)
        case["np_ints"] = bool(rng.random() < 0.2)
        keep.append(case)
        reqs.append(("c15.adjustBox", {**_margs(case), "box": case["box"], "pad": case["pad"]}))
    out = None
    for case, m in zip(keep, d.batch(reqs)):
        out = case_adjust(ctx, case, m)
    ctx.sample({"op": "adjust_box", "shape": keep[-1]["shape"], "box": keep[-1]["box"], "origin/8": keep[-1]["origin"],
                "rate/8": keep[-1]["rate"], "result": {k: v for k, v in (out or {}).items() if k != "data"} if isinstance(out, dict) else out})
    # malformed: rank mismatch must raise
    for i in range(ctx.budget(20, 100)):
        case = gen_density(rng, nd=int(rng.choice([2, 3])))
        k = len(case["shape"]) + int(rng.choice([-1, 1]))
        case["box"] = [[0, 2]] * k
        case["pad"] = 0
        case_adjust(ctx, case, "err:ValueError")
        ctx.count("adjust:malformed-rank")

    # ---- pad: exhaustive 1-D (n, new, centre) + random n-D
    rng = ctx.rng("pad")
    P = ctx.budget(9, 14)
    keep, reqs = [], []
    for n in range(1, P + 1):
        for new in range(0, P + 4):
            for center in (True, False):
                case = {"shape": [n], "data": list(range(1, n + 1)), "mode": "perm", "origin": [int(rng.integers(-40, 41))],
                        "rate": [int(rng.integers(1, 17))], "dtype": "float32", "newshape": [new], "center": center,
                        "pad": int(rng.choice([0, -1])), "default_args": bool(rng.random() < 0.3)}
                keep.append(case)
    for i in range(ctx.budget(1500, 12000)):
        case = gen_density(rng)
        case["newshape"] = [int(max(0, n + rng.integers(-n, 7))) for n in case["shape"]]
        case["center"] = bool(rng.random() < 0.65)
        case["pad"] = _pad_for(rng, case)
        case["default_args"] = bool(rng.random() < 0.3)
        keep.append(case)
    reqs = [("c15.pad", {**_margs(c), "newshape": c["newshape"], "center": c["center"], "pad": c["pad"]}) for c in keep]
    for case, m in zip(keep, d.batch(reqs)):
        out = case_pad(ctx, case, m)
    ctx.sample({"op": "pad", "shape": keep[-1]["shape"], "new_shape": keep[-1]["newshape"], "center": keep[-1]["center"],
                "result_origin/8": out["origin"] if isinstance(out, dict) else out})
    for i in range(ctx.budget(10, 50)):
        case = gen_density(rng, nd=2)
        case.update(newshape=[3] * int(rng.choice([1, 3])), center=True, pad=0)
        case_pad(ctx, case, "err:ValueError")
        ctx.count("pad:malformed-rank")

    # ---- trim_box: exhaustive binary 1-D patterns + small 2-D patterns + random
    rng = ctx.rng("trim")
    keep = []
    for n in range(1, ctx.budget(6, 8) + 1):
        for bits in itertools.product([0, 1], repeat=n):
            for margin in (0, 1):
                keep.append({"shape": [n], "data": list(bits), "mode": "dup", "origin": [3], "rate": [5], "dtype": "float32",
                             "cutoff": 0, "margin": margin})
    for bits in itertools.product([0, 1], repeat=6):
        for shape in ([2, 3], [3, 2]):
            keep.append({"shape": shape, "data": list(bits), "mode": "dup", "origin": [3, -2], "rate": [5, 2], "dtype": "float64",
                         "cutoff": 0, "margin": 0})
    for i in range(ctx.budget(1500, 12000)):
        keep.append(_gen_trim_case(rng))
    reqs = [("c15.trimBox", {**_margs(c), "cutoff": c["cutoff"], "margin": c["margin"]}) for c in keep]
    for case, m in zip(keep, d.batch(reqs)):
        out = case_trim(ctx, case, m)
    ctx.sample({"op": "trim_box", "shape": keep[-1]["shape"], "cutoff": keep[-1]["cutoff"], "margin": keep[-1]["margin"], "box": out})

    # ---- minimum_enclosing_box / centered
    rng = ctx.rng("mebox")
    for i in range(ctx.budget(250, 2500)):
        case = gen_density(rng, nd=int(rng.choice([1, 2, 3])), mode="blob")
        case["dtype"] = str(rng.choice(["float32", "float64"]))
        case["cutoff"] = int(rng.choice([0, 0, 1, 2]))
        case["geometric"] = bool(len(case["shape"]) >= 2 and rng.random() < 0.2)
        case_mebox(ctx, case)

    # ---- resample
    rng = ctx.rng("resample")
    for i in range(ctx.budget(600, 6000)):
        out = case_resample(ctx, _gen_resample_case(rng, exact=(i % 2 == 0)))
    # exhaustive exact 1-D: every n, every power-of-two ratio (ties at every odd n)
    for n in range(1, ctx.budget(17, 40)):
        for k in (-2, -1, 0, 1, 2, 3):
            for method in ("spline", "fourier"):
                case_resample(ctx, {"shape": [n], "origin": [5], "old": [1.5], "new": [1.5 * 2.0 ** k], "method": method,
                                    "order": 1, "exact": True, "scalar_new": bool(n % 2)})
    # the docstring example
    case_resample(ctx, {"shape": [11, 11], "origin": [0, 0], "old": [2.0, 2.0], "new": [4.0, 1.0], "method": "spline", "order": 3,
                        "exact": True})

    # ---- per-axis arguments (origin / sampling_rate / new_sampling_rate): every rank x every length 0-4
    for nd in (1, 2, 3):
        for k in range(0, 5):
            case_broadcast(ctx, {"ndim": nd, "xs": [8 * (i + 1) for i in range(k)]})
            case_broadcast(ctx, {"ndim": nd, "xs": [4 * (k - i) + 2 for i in range(k)]})

    # ---- copies
    rng = ctx.rng("alias")
    for i in range(ctx.budget(100, 800)):
        case = gen_density(rng)
        case_alias(ctx, case)

    # ---- histories
    rng = ctx.rng("history")
    last = None
    for i in range(ctx.budget(1000, 10000)):
        case = gen_density(rng, mode="perm" if rng.random() < 0.85 else None)
        case["ops"] = gen_history(rng, case, int(rng.integers(2, ctx.budget(8, 12) + 1)))
        case_history(ctx, case)
        last = case
    ctx.sample({"op": "history", "shape": last["shape"], "ops": last["ops"][:4]})

    # ---- arbitrary float coordinates (tolerance)
    rng = ctx.rng("float")
    for i in range(ctx.budget(200, 2000)):
        base = gen_density(rng, mode="perm")
        nd = len(base["shape"])
        case = {"shape": base["shape"], "forigin": [float(x) for x in rng.normal(0, 50, size=nd)],
                "frate": [float(x) for x in rng.uniform(0.3, 9.0, size=nd)],
                "ops": [o for o in gen_history(rng, base, int(rng.integers(1, 6))) if o["op"] != "trim"]}
        case_float(ctx, case)


def _dispatch(ctx, inp):
    k = inp.get("kind")
    case = {a: b for a, b in inp.items() if a != "kind"}
    if k == "adjust":
        case_adjust(ctx, case)
    elif k == "pad":
        case_pad(ctx, case)
    elif k == "trim":
        case_trim(ctx, case)
    elif k == "mebox":
        case_mebox(ctx, case)
    elif k == "resample":
        case_resample(ctx, case)
    elif k == "alias":
        case_alias(ctx, case)
    elif k == "history":
        case_history(ctx, case)
    elif k == "float":
        case_float(ctx, case)
    elif k == "broadcast":
        case_broadcast(ctx, case)
    else:
        ctx.note("replay: unknown kind %r" % (k,))


def replay(ctx, rec):
    _dispatch(ctx, rec.get("input", {}))


def search(ctx):
    """Correspondence / an obligation broke but no clause failed in the main stream: widen.
    First the inputs on which the correspondence differed, then exhaustive small cases and longer histories."""
    import warnings
    warnings.filterwarnings("ignore")
    for dis in list(ctx.disagreements)[:50]:
        inp = dis.get("input") or {}
        if isinstance(inp, dict) and inp.get("kind"):
            try:
                _dispatch(ctx, inp)
            except Exception:  # noqa: BLE001
                pass
    rng = ctx.rng("search")
    # exhaustive 2-D boxes on a 3x4 array with anisotropic rates
    rngs = [range(-4, 6), range(0, 8)]
    base = {"shape": [3, 4], "data": list(range(1, 13)), "mode": "perm", "origin": [-9, 20], "rate": [3, 10], "dtype": "float64"}
    for s0, e0 in itertools.product(*rngs):
        for s1, e1 in ((-2, 3), (1, 6), (0, 4), (5, 7)):
            case_adjust(ctx, {**base, "box": [[s0, e0], [s1, e1]], "pad": -1})
            case_adjust(ctx, {**base, "box": [[s1, e1], [s0, e0]], "pad": -1, "shape": [4, 3]})
    for n in range(1, 12):
        for new in range(0, 16):
            for c in (True, False):
                case_pad(ctx, {"shape": [n, 2], "data": list(range(1, 2 * n + 1)), "mode": "perm", "origin": [1, 2], "rate": [3, 7],
                               "dtype": "float32", "newshape": [new, 3], "center": c, "pad": -1})
    for i in range(3000):
        case_trim(ctx, _gen_trim_case(rng))
    for i in range(1500):
        case_resample(ctx, _gen_resample_case(rng, exact=True))
    for i in range(300):
        case = gen_density(rng, mode="blob", nd=int(rng.choice([2, 3])))
        case.update(cutoff=0, geometric=False, dtype="float32")
        case_mebox(ctx, case)
    for i in range(100):
        case_alias(ctx, gen_density(rng))
    for i in range(2000):
        case = gen_density(rng, mode="perm")
        case["ops"] = gen_history(rng, case, int(rng.integers(2, 16)))
        case_history(ctx, case)
