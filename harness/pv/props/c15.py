"""C15 — Density box operations preserve the physical position of every voxel.

Leg B: the real `tme.density.Density` of the worktree (adjust_box, pad, trim_box,
minimum_enclosing_box, centered, resample, copy, empty, to_pointcloud, center_of_mass, core_mask,
to_memmap / to_numpy, the origin / sampling_rate setters, the box bookkeeping of rigid_transform) against the Lean model (Model/C15.lean),
plus every clause of the property evaluated directly on the real outputs.

Coordinates are dyadic (multiples of 1/Q) in the correspondence streams so that float arithmetic is
exact and the model can work in integer units; a separate stream uses arbitrary float origins /
rates with a relative tolerance.  Voxel values are integers; in the "perm" mode every voxel of the
initial density carries a unique positive id, so the provenance of every value that survives a
sequence of operations can be read off the real output and its physical coordinate compared with
the one it started at."""
import inspect
import itertools
from fractions import Fraction

import os
import numpy as np

ID = "C15"
RULE = ("random 1-3-D densities (unique-id, blob and duplicate-valued data; float32/float64/int16/int32/int64, uint8/uint16/bool "
        "masks; C / Fortran / transposed / strided / reversed / offset views, read-only arrays, numpy.memmap (r and c), "
        "byte-swapped dtypes; voxel values through affine maps id*scale+offset with scales 1e-9..1e3 and offsets up to "
        "+-1000; origins and rates as float64 / float32 / int64 arrays, lists, tuples, python scalars, dyadic, whole-number "
        "or far from zero (+-2^30)) x boxes with negative starts / stops beyond the data / empty and inverted boxes, given "
        "as tuple or list of python / numpy-int slices, pad_kwargs in three spellings or left out; centred and appended "
        "padding to all target extents incl. shrinking, shapes as tuple / list / numpy arrays, flags as bool / numpy.bool_ / "
        "int, positional or keyword; cut-offs tied with a data value or strictly between two, python or numpy scalars, "
        "margins 0-8; resampling ratios incl. exact ties, both methods, rates in every form; histories of 2-12 mixed "
        "operations incl. default arguments after explicit ones and to_memmap / to_numpy in between; histories that contain "
        "resampling (bookkeeping); extents of hundreds to > 10^6 voxels and box / pad differences beyond 2^7, 2^8, 2^15, 2^16. "
        "to_pointcloud (thresholds tied with a value or between two, default / keyword / numpy-scalar spellings) alone and after a "
        "box operation with a pad value below, at or above the threshold; empty and the frame of rigid_transform (identity / flip / "
        "quarter turn, order 1 and 3, whole-voxel shifts); center_of_mass (static or through an instance, cut-off None / omitted / tied / "
        "between, signed integer and float data with negative values) alone and after adjust_box; core_mask on every binary 1-D pattern "
        "and random mostly-filled 1-3-D arrays, alone and after a zero-padding box; random to_memmap / to_numpy sequences; the origin / "
        "sampling_rate setters for every rank x argument length 0-4 as list / tuple / array / scalar. "
        "distinct = distinct (operation, shape, parameters) tuples; identity boxes / unchanged shapes are not counted")
ASSUMPTIONS = [
    "adjust_box boxes have stop >= 0 on every axis for the extent / fill / conservation clauses (the docstring: only "
    "the start of a slice may be negative); negative stops are still compared with the model and checked for the "
    "physical-position clause",
    "trim_box margins >= 0 for the containment clause; data without NaN",
    "resample: interpolation (scipy.ndimage.zoom / Fourier cropping) is not modelled - extents, rate and origin only; "
    "when n*old/new is within 1e-6 of a tie and the ratio is not exactly representable the extent is not compared; when both "
    "rates are float32 arrays the ratio is formed in float32 and is only compared when it is exact there too",
    "matching_utils.minimum_enclosing_box (float norm + ceil) enters the model as a recorded value; its contract "
    "side >= max-min+1 is checked on every call",
    "coordinates in the exact streams are multiples of 1/8 of magnitude < 2^31 (float arithmetic exact); arbitrary floats are "
    "checked with a tolerance derived from the rounding model: (operations + 2) * eps * largest coordinate magnitude, times 8",
    "voxel values id*scale+offset are used only where the map is strictly increasing with a gap of >= 16 ulp of the dtype and "
    "exactly invertible (checked when the case is generated; otherwise the identity map is used); the library's default pad "
    "value 0 is only exercised where 0 is the image of an id (offset 0); unsigned / bool data only with pad values >= 0",
    "extents beyond ~12 voxels per axis (up to > 10^6 voxels) and histories containing resampling by powers of two are checked "
    "by the property clauses on the real outputs (and the geometry model), not voxel by voxel against the Lean array model",
    "minimum_enclosing_box / centered: float dtypes and value maps that keep 0 at 0 (centre of mass and interpolation inside)",
    "center_of_mass: signed integer and float dtypes, value maps without offset; the library divides in floating point, the model "
    "returns the exact fraction - compared within 8*(voxels+4)*eps(float32)*(sum|w*i| + |com|*sum|w|)/|sum w|; a zero denominator "
    "(nan / inf in the library) is not compared; an array without voxels and no cut-off raises ValueError in numpy's min (compared)",
    "rigid_transform: only the frame (extents, origin, rate, fresh buffers) of the result for 2-D / 3-D float data; the interpolated "
    "values are not modelled.  core_mask: ranks 1-3 (a rank-0 array would never leave the library's loop)",
    "to_numpy on a numpy.memmap without a file (what memmap.copy() returns) raises TypeError inside the library: skipped",
]
TRUSTED = ["C15: numpy.pad(mode='constant'), numpy basic slicing, scipy.ndimage.zoom output-shape rule are modelled and "
           "validated by correspondence only"]

Q = 8            # coordinate quantum 1/Q
DTYPES = ["float32", "float64", "int32", "int16", "int64"]
UDTYPES = ["uint8", "uint16", "bool"]      # masks / 8- and 16-bit maps: values and pad values >= 0 only
# memory layouts of the array handed to Density (same logical content)
LAYOUTS = ["F", "T", "strided", "rev", "offset", "ro", "memmap", "memmap_c", "swapped"]
# affine maps value = id*scale + offset of the voxel values (absolute intensity scale / offset); the Lean model sees the ids
VALUE_MAPS = [(1e-9, 0.0), (7e-6, 0.0), (1e-3, 0.0), (0.1, 0.0), (0.3333333333333333, 0.0), (1e3, 0.0), (2.5, 100.0),
              (1e-3, 1000.0), (1.0, -1000.0), (0.25, -37.5)]
INT_MAPS = [(3, -50), (1000, -5000), (1, 1000)]
OKINDS = ["f8", "f8", "tuple", "list", "f4", "i8", "ilist"]
RKINDS = ["f8", "f8", "scalar", "list", "tuple", "f4", "i8", "iscalar"]
_FILES = []      # scratch files of memory-mapped inputs of the current case
_SEQ = [0]


# ----------------------------------------------------------------------------------------------
# helpers
# ----------------------------------------------------------------------------------------------
def _cleanup():
    while _FILES:
        f = _FILES.pop()
        try:
            os.remove(f)
        except OSError:
            pass


def _guard(fn):
    """A case must never take the run down: an unexpected exception while evaluating one case is recorded as a
    correspondence failure for that input (and the stream goes on)."""
    import functools
    import traceback

    @functools.wraps(fn)
    def wrapped(ctx, case, *a, **k):
        try:
            return fn(ctx, case, *a, **k)
        except Exception:  # noqa: BLE001
            ctx.agree("harness:" + fn.__name__, {"kind": fn.__name__[5:], **case}, "exception: " + traceback.format_exc()[-600:], "ok")
            return None
        finally:
            _cleanup()
    return wrapped


def _units(x):
    u = np.asarray(x, dtype=np.float64).reshape(-1) * Q
    if u.size and np.all(np.isfinite(u)) and np.all(u == np.round(u)):
        return [int(v) for v in u]
    return [float(v) for v in u]


def _ints(a):
    a = np.asarray(a)
    r = a.reshape(-1)
    if r.size == 0:
        return []
    if np.all(np.isfinite(r.astype(np.float64))) and np.all(r == np.round(r)):
        return [int(v) for v in r]
    return [float(v) for v in r]


# ---- value map: real value = dtype(id * scale + offset)
def _vmap(case):
    return case.get("scale", 1), case.get("offset", 0)


def _fwd(case, x):
    """ids -> the values stored in the real array (same rounding as the construction of the input)."""
    s, t = _vmap(case)
    dt = np.dtype(case.get("dtype", "float32"))
    x = np.asarray(x)
    if dt.kind in "iu":
        return (x.astype(np.int64) * int(s) + int(t)).astype(dt)
    return (x.astype(np.float64) * float(s) + float(t)).astype(dt)


def _inv(case, arr):
    """real values -> ids (float64 array); a value that is not the image of an integer becomes a non-integer."""
    a = np.asarray(arr).astype(np.float64)
    s, t = _vmap(case)
    if s == 1 and t == 0:
        return a
    with np.errstate(all="ignore"):
        q = (a - float(t)) / float(s)
        i = np.round(q)
        fin = np.isfinite(i) & (np.abs(i) < 2**40)
        back = _fwd(case, np.where(fin, i, 0)).astype(np.float64)
        ok = fin & (back == a)
        return np.where(ok, i, np.where(fin, np.floor(q) + 0.3, q))


def _real(case, v, half=False):
    """the real scalar standing for the integer v (pad value, cut-off).  half: a value strictly between v and v+1."""
    s, t = _vmap(case)
    dt = np.dtype(case.get("dtype", "float32"))
    if dt.kind in "iub":
        r = int(v) * int(s) + int(t)
        return r + int(s) / 2 if half else r
    if half:
        return (float(_fwd(case, [v])[0]) + float(_fwd(case, [v + 1])[0])) / 2
    return float(v) * float(s) + float(t)


def _map_ok(case, lo, hi):
    """the value map is strictly increasing on lo..hi with a margin of several ulps (also for mid-points) and exactly
    invertible there; otherwise the generator falls back to the identity map (deterministic, no resampling)."""
    dt = np.dtype(case.get("dtype", "float32"))
    s, t = _vmap(case)
    ids = np.arange(lo, hi + 1)
    if dt.kind in "iu":
        ii = np.iinfo(dt)
        v = ids.astype(object) * int(s) + int(t)
        return float(s) == int(s) and float(t) == int(t) and int(s) >= 1 and min(v) >= ii.min and max(v) <= ii.max
    f = _fwd(case, ids)
    f64 = f.astype(np.float64)
    if not np.all(np.isfinite(f64)):
        return False
    gap = np.diff(f64)
    ulp = float(np.spacing(np.abs(f).max().astype(dt)))
    if not np.all(gap >= 16 * ulp):
        return False
    mid = ((f64[:-1] + f64[1:]) / 2).astype(dt).astype(np.float64)
    if not (np.all(mid > f64[:-1]) and np.all(mid < f64[1:])):
        return False
    return bool(np.array_equal(_inv(case, f), ids.astype(np.float64)))


def _state(d, case=None):
    case = case or {}
    return {"shape": [int(x) for x in d.shape], "data": _ints(_inv(case, d.data)), "origin": _units(d.origin),
            "rate": _units(d.sampling_rate)}


def _lay(raw, layout):
    """the same logical array in another memory layout"""
    nd = raw.ndim
    if layout in (None, "C") or raw.size == 0 or nd == 0:
        return raw
    if layout == "F":
        return np.asfortranarray(raw)
    if layout == "T":
        return np.ascontiguousarray(raw.T).T
    if layout == "strided":
        big = np.full(tuple(2 * n + 1 for n in raw.shape), 7777, dtype=raw.dtype)
        v = big[tuple(slice(1, None, 2) for _ in raw.shape)]
        v[...] = raw
        return v
    if layout == "rev":
        rev = (slice(None, None, -1),) * nd
        return np.ascontiguousarray(raw[rev])[rev]
    if layout == "offset":
        big = np.full(tuple(n + 3 for n in raw.shape), 7777, dtype=raw.dtype)
        v = big[tuple(slice(2, 2 + n) for n in raw.shape)]
        v[...] = raw
        return v
    if layout == "ro":
        r = raw.copy()
        r.setflags(write=False)
        return r
    if layout == "swapped":
        return raw.astype(raw.dtype.newbyteorder())
    if layout in ("memmap", "memmap_c"):
        from pv import env
        _SEQ[0] += 1
        fname = os.path.join(env.scratch(), "c15_in_%d_%d.mm" % (os.getpid(), _SEQ[0]))
        with open(fname, "wb") as f:
            f.write(b"\x5a" * 24)
            f.write(np.ascontiguousarray(raw).tobytes())
        _FILES.append(fname)
        return np.memmap(fname, dtype=raw.dtype, mode="r" if layout == "memmap" else "c", offset=24, shape=raw.shape)
    return raw


def _coords(case):
    """origin / sampling rate in the form (container, dtype) the case asks for; falls back to float64 arrays when the
    values do not fit the form.  Returns (origin argument, rate argument, origin float64, rate float64)."""
    ou = np.array(case["origin"], dtype=np.int64)
    ru = np.array(case["rate"], dtype=np.int64)
    o = ou.astype(np.float64) / Q
    r = ru.astype(np.float64) / Q
    ok = case.get("okind") or ("tuple" if case.get("tuple_origin") else "f8")
    rk = case.get("rkind") or ("scalar" if case.get("scalar_rate") else "f8")
    int_o, int_r = bool(np.all(ou % Q == 0)), bool(np.all(ru % Q == 0))
    small_o, small_r = bool(np.all(np.abs(ou) < 2**20)), bool(np.all(np.abs(ru) < 2**20))
    same_r = bool(ru.size and np.all(ru == ru[0]))
    if ok == "none" and not np.any(ou):
        origin = None                      # constructor default: zeros
    elif ok == "tuple":
        origin = tuple(float(x) for x in o)
    elif ok == "list":
        origin = [float(x) for x in o]
    elif ok == "f4" and small_o:
        origin = o.astype(np.float32)
    elif ok == "i8" and int_o:
        origin = (ou // Q).astype(np.int64)
    elif ok == "ilist" and int_o:
        origin = [int(x) for x in ou // Q]
    else:
        origin = o.copy()
    if rk == "none" and bool(np.all(ru == Q)):
        rate = None                        # constructor default: 1
    elif rk == "scalar" and same_r:
        rate = float(r[0])
    elif rk == "iscalar" and same_r and int_r:
        rate = int(ru[0] // Q)
    elif rk == "list":
        rate = [float(x) for x in r]
    elif rk == "tuple":
        rate = tuple(float(x) for x in r)
    elif rk == "f4" and small_r:
        rate = r.astype(np.float32)
    elif rk == "i8" and int_r:
        rate = (ru // Q).astype(np.int64)
    else:
        rate = r.copy()
    return origin, rate, o, r


def _mk(case, **kw):
    """Build the real Density of a case: returns (density, the array handed to the constructor)."""
    from tme import Density
    raw = _fwd(case, np.array(case["data"], dtype=np.int64).reshape(case["shape"]))
    raw = _lay(raw, case.get("layout"))
    origin, rate, _, _ = _coords(case)
    return Density(raw, origin=origin, sampling_rate=rate, **kw), raw


def _margs(case):
    return {"shape": case["shape"], "data": case["data"], "origin": case["origin"], "rate": case["rate"]}


def _variants(rng, case, lo=-120, hi=None, maps=True):
    """memory layout, value map and the form of origin / rate of a generated density (in place)."""
    n = len(case["data"])
    case["layout"] = str(rng.choice(LAYOUTS)) if rng.random() < 0.45 else "C"
    kind = np.dtype(case["dtype"]).kind
    if maps and rng.random() < 0.4:
        tab = INT_MAPS if kind in "iu" else VALUE_MAPS
        s, t = tab[int(rng.integers(0, len(tab)))]
        case["scale"], case["offset"] = s, t
        if not _map_ok(case, lo, (hi if hi is not None else n + 10)):
            case.pop("scale"); case.pop("offset")
    case["okind"] = str(rng.choice(OKINDS))
    case["rkind"] = str(rng.choice(RKINDS))
    case.pop("scalar_rate", None); case.pop("tuple_origin", None)
    return case


def _vary(case, i, maps=True):
    """deterministic variation (layout, dtype, value map, forms of origin / rate) for the exhaustive grids"""
    case["layout"] = (["C"] + LAYOUTS)[i % (len(LAYOUTS) + 1)]
    case["dtype"] = DTYPES[(i // 3) % len(DTYPES)]
    if maps and i % 2:
        tab = INT_MAPS if np.dtype(case["dtype"]).kind in "iu" else VALUE_MAPS
        case["scale"], case["offset"] = tab[(i // 2) % len(tab)]
        if not _map_ok(case, -120, len(case["data"]) + 10):
            case.pop("scale"); case.pop("offset")
    case["okind"] = OKINDS[(i // 5) % len(OKINDS)]
    case["rkind"] = RKINDS[(i // 7) % len(RKINDS)]
    return case


def gen_density(rng, nd=None, mode=None, maxext=None, maps=True, dtypes=None):
    nd = int(nd or rng.choice([1, 2, 3], p=[0.3, 0.4, 0.3]))
    hi = maxext or {1: 12, 2: 7, 3: 5}[nd]
    shape = [int(x) for x in rng.integers(1, hi + 1, size=nd)]
    n = int(np.prod(shape))
    mode = mode or str(rng.choice(["perm", "blob", "dup"], p=[0.5, 0.3, 0.2]))
    if mode == "perm":
        data = (np.arange(n) + 1)            # id = flat index + 1  (values need not be shuffled for provenance)
        if rng.random() < 0.5:
            data = rng.permutation(n) + 1
    elif mode == "blob":
        data = np.zeros(n, dtype=np.int64)
        k = int(rng.integers(1, n + 1))
        sel = rng.choice(n, size=k, replace=False)
        data[sel] = rng.permutation(n)[:k] + 1
    else:
        data = rng.integers(-3, 6, size=n)
    dtype = str(rng.choice(dtypes or DTYPES))
    if dtypes is None and mode == "dup" and rng.random() < 0.5:
        dtype = str(rng.choice(UDTYPES))
        data = rng.integers(0, 2 if dtype == "bool" else 6, size=n)
    iso = rng.random() < 0.25
    rate = [int(rng.integers(1, 33))] * nd if iso else [int(x) for x in rng.integers(1, 33, size=nd)]
    origin = [int(x) for x in rng.integers(-80, 81, size=nd)]
    r = rng.random()
    if r < 0.3:            # whole-number coordinates (so that integer-typed origins / rates are possible)
        origin = [Q * int(x) for x in rng.integers(-10, 11, size=nd)]
        rate = [Q * int(x) for x in (rng.integers(1, 5, size=1).repeat(nd) if iso else rng.integers(1, 5, size=nd))]
    elif r < 0.45:         # far from zero: origin +-2^30, rates up to 2^9 (still exact in float64)
        origin = [int(x) for x in rng.integers(-2**33, 2**33, size=nd)]
        rate = [int(x) for x in (rng.integers(1, 2**12, size=1).repeat(nd) if iso else rng.integers(1, 2**12, size=nd))]
    case = {"shape": shape, "data": [int(x) for x in data], "mode": mode, "origin": origin, "rate": rate,
            "dtype": dtype}
    _variants(rng, case, maps=maps and dtype not in UDTYPES)
    if rng.random() < 0.08:            # origin and / or sampling rate left to the constructor's defaults (0 and 1)
        if rng.random() < 0.7:
            case.update(origin=[0] * nd, okind="none")
        if rng.random() < 0.7:
            case.update(rate=[Q] * nd, rkind="none")
    return case


def gen_box(rng, shape, quirk=False):
    box = []
    for n in shape:
        r = rng.random()
        if r < 0.15:
            s, e = 0, n                                          # identity on this axis
        elif r < 0.35:
            s = int(rng.integers(0, n + 1)); e = int(rng.integers(s, n + 1))          # pure crop
        elif r < 0.9:
            s = int(rng.integers(-n - 3, n + 4)); e = int(rng.integers(max(s, 0), n + 6))   # extend / shift
        else:
            s = int(rng.integers(-n - 3, n + 4)); e = int(rng.integers(0, n + 6))      # possibly inverted
        if quirk and rng.random() < 0.6:
            e = -int(rng.integers(1, n + 4))
        box.append([s, e])
    return box


def _idmap_ok(case):
    return case.get("mode") == "perm"


def _pad_for(rng, case):
    if case.get("dtype") in UDTYPES:
        return int(rng.choice([0, 0, 1]))
    return int(rng.choice([0, 0, -1, -7, -100]))


def _phys_float(origin, rate, idx):
    return (np.asarray(origin, dtype=np.float64).reshape(-1)[:, None]
            + np.asarray(idx, dtype=np.float64) * np.asarray(rate, dtype=np.float64).reshape(-1)[:, None])


# ----------------------------------------------------------------------------------------------
# property clauses on real outputs (independent of the Lean model)
# ----------------------------------------------------------------------------------------------
def spec_provenance(ctx, tag, inp, case, new, exact=True):
    """Every value that carries an id of the initial density sits at the physical coordinate it started at,
    and no id occurs twice."""
    if not _idmap_ok(case):
        return True
    shape0 = case["shape"]
    data0 = np.array(case["data"], dtype=np.int64)
    pos_of = np.zeros(data0.size + 2, dtype=np.int64)
    pos_of[data0] = np.arange(data0.size)
    nd = len(shape0)
    arr = np.asarray(new.data)
    vals = _inv(case, arr).reshape(-1)
    J = np.indices(arr.shape).reshape(nd, -1) if arr.size else np.zeros((nd, 0), dtype=np.int64)
    isid = (vals >= 1) & (vals <= data0.size) & (vals == np.round(vals))
    ids = vals[isid].astype(np.int64)
    ok_unique = len(set(ids.tolist())) == ids.size
    idx0 = np.array(np.unravel_index(pos_of[ids], shape0)).reshape(nd, -1)
    o0 = np.array(case["origin"], dtype=np.float64) / Q
    r0 = np.array(case["rate"], dtype=np.float64) / Q
    if len(np.asarray(new.origin).reshape(-1)) != nd or len(np.asarray(new.sampling_rate).reshape(-1)) != nd:
        ctx.spec(f"{tag}: retained values keep their physical coordinate", inp, False, "origin/rate rank", key=f"{tag}:physical")
        return False
    pn = _phys_float(new.origin, new.sampling_rate, J[:, isid])
    po = _phys_float(o0, r0, idx0)
    if exact:
        ok_phys = bool(np.array_equal(pn, po))
    else:
        ok_phys = bool(np.allclose(pn, po, rtol=1e-6, atol=1e-6))
    detail = None
    if not ok_phys and pn.size:
        bad = np.argwhere(~np.isclose(pn, po, rtol=0 if exact else 1e-6, atol=0 if exact else 1e-6))
        if len(bad):
            k = int(bad[0][1])
            detail = {"value": int(ids[k]), "new_index": J[:, isid][:, k].tolist(), "old_index": idx0[:, k].tolist(),
                      "new_physical": pn[:, k].tolist(), "old_physical": po[:, k].tolist()}
    a = ctx.spec(f"{tag}: retained values keep their physical coordinate", inp, ok_phys, detail, key=f"{tag}:physical")
    b = ctx.spec(f"{tag}: no value duplicated", inp, ok_unique, key=f"{tag}:duplicate")
    return a and b


def spec_box(ctx, tag, inp, old_data, old_origin, old_rate, new, box, padv, extent=True):
    """new = old seen through `box`: extents as requested, new[j] = old[j+start] inside, pad value outside,
    origin' = origin + start*rate, rate unchanged."""
    nd = old_data.ndim
    starts = np.array([b[0] for b in box], dtype=np.int64)
    stops = np.array([b[1] for b in box], dtype=np.int64)
    arr = np.asarray(new.data)
    want = [int(max(e - s, 0)) for s, e in zip(starts, stops)]
    ok = True
    lo_ = np.maximum(starts, 0); hi_ = np.minimum(stops, np.array(old_data.shape))
    retained = bool(np.all(hi_ > lo_)) and old_data.size > 0
    if extent:
        ok &= ctx.spec(f"{tag}: exactly the requested extents", inp, list(arr.shape) == want,
                       {"shape": list(arr.shape), "requested": want}, key=f"{tag}:extent")
    if arr.ndim == nd and extent:
        J = np.indices(arr.shape).reshape(nd, -1) if arr.size else np.zeros((nd, 0), dtype=np.int64)
        S = J + starts[:, None]
        inside = np.all((S >= 0) & (S < np.array(old_data.shape)[:, None]), axis=0)
        flat = arr.reshape(-1)
        src = old_data[tuple(S[:, inside])] if inside.any() else np.zeros(0)
        ok_in = bool(np.array_equal(flat[inside], src))
        padc = np.array(padv).astype(arr.dtype)
        ok_fill = bool(np.all(flat[~inside] == padc))
        # every voxel of the old data that lies inside the box must be present (conservation)
        lo = np.maximum(starts, 0); hi = np.minimum(stops, np.array(old_data.shape))
        n_inside_expected = int(np.prod(np.maximum(hi - lo, 0)))
        ok_cons = int(inside.sum()) == n_inside_expected
        d = None
        if not ok_in and inside.any():
            k = int(np.argwhere(flat[inside] != src)[0][0])
            d = {"new_index": J[:, inside][:, k].tolist(), "got": float(flat[inside][k]), "want": float(src[k])}
        ok &= ctx.spec(f"{tag}: values inside the box are conserved", inp, ok_in and ok_cons, d, key=f"{tag}:values")
        ok &= ctx.spec(f"{tag}: new voxels hold the pad value", inp, ok_fill, key=f"{tag}:fill")
    o_new = np.asarray(new.origin, dtype=np.float64).reshape(-1)
    r_new = np.asarray(new.sampling_rate, dtype=np.float64).reshape(-1)
    want_o = np.asarray(old_origin, dtype=np.float64) + starts * np.asarray(old_rate, dtype=np.float64)
    ok_o = o_new.shape == want_o.shape and bool(np.array_equal(o_new, want_o))
    if retained:      # the clause speaks about retained values; with none retained only the model comparison applies
        ok &= ctx.spec(f"{tag}: origin + index*rate of retained voxels unchanged", inp, ok_o,
                       {"origin": o_new.tolist(), "want": want_o.tolist(), "box": [list(map(int, b)) for b in box]},
                       key=f"{tag}:physical")
    else:
        ctx.count(f"{tag}:nothing-retained")
    ok_r = r_new.shape == np.asarray(old_rate).shape and bool(np.array_equal(r_new, np.asarray(old_rate, dtype=np.float64)))
    ok &= ctx.spec(f"{tag}: sampling rate unchanged", inp, ok_r, key=f"{tag}:rate")
    return ok


# ----------------------------------------------------------------------------------------------
# single cases (used by run, search and replay)
# ----------------------------------------------------------------------------------------------
def _box_arg(case, box):
    """the box in the container / integer type the case asks for"""
    form = case.get("boxform") or ("np64" if case.get("np_ints") else "tuple")
    if form == "np64":
        sl = [slice(np.int64(b[0]), np.int64(b[1])) for b in box]
    elif form == "np32":
        sl = [slice(np.int32(b[0]), np.int32(b[1])) for b in box]
    else:
        sl = [slice(int(b[0]), int(b[1])) for b in box]
    return sl if form == "list" else tuple(sl)


@_guard
def case_adjust(ctx, case, model=None):
    """case: density + box + pad (+ 'default_pad', 'padform', 'boxform')."""
    d, raw = _mk(case)
    box, padv = case["box"], case["pad"]
    padr = _real(case, padv)
    inp = {"kind": "adjust", **case}
    quirk = any(b[1] < 0 for b in box)
    old = np.array(raw).astype(raw.dtype.newbyteorder("=")) if raw.size else np.array(raw)
    _, _, o0, r0 = _coords(case)
    sl = _box_arg(case, box)
    try:
        if case.get("default_pad"):
            d.adjust_box(sl)
        elif case.get("padform") == "mode":
            d.adjust_box(sl, pad_kwargs={"mode": "constant", "constant_values": padr})
        elif case.get("padform") == "positional":
            d.adjust_box(sl, {"constant_values": padr})
        else:
            d.adjust_box(sl, pad_kwargs={"constant_values": padr})
        impl = _state(d, case)
    except Exception as e:  # noqa: BLE001
        impl = "raised:" + type(e).__name__
    if model is None:
        model = ctx.driver.call("c15.adjustBox", **_margs(case), box=box, pad=padv)
    if isinstance(model, str):
        ctx.agree("adjust_box(raises)", inp, isinstance(impl, str), True)
        return
    ctx.agree("adjust_box", inp, impl, model)
    if isinstance(impl, str):
        ctx.spec("adjust_box: returns", inp, False, impl, key="adjust_box:raised")
        return
    spec_box(ctx, "adjust_box", inp, old, o0, r0, d, box, padr, extent=not quirk)
    spec_provenance(ctx, "adjust_box", inp, case, d)
    ctx.spec("adjust_box: caller's array untouched", inp, bool(np.array_equal(raw, old)), key="adjust_box:source")
    ctx.count("adjust:ndim=%d" % len(box))
    ctx.count("layout:" + str(case.get("layout", "C")))
    ctx.count("dtype:" + str(case.get("dtype")))
    ctx.count("values:" + ("id" if _vmap(case) == (1, 0) else "scale=%g,offset=%g" % _vmap(case)))
    ctx.count("origin-form:" + str(case.get("okind", "f8")))
    ctx.count("rate-form:" + str(case.get("rkind", "f8")))
    for b, n in zip(box, case["shape"]):
        s, e = b
        ctx.count("adjust:axis:" + ("neg-stop" if e < 0 else "identity" if (s, e) == (0, n) else
                                    "inverted" if e < s else "empty" if e == s else
                                    "crop" if s >= 0 and e <= n else "beyond" if s >= n else
                                    "extend-both" if s < 0 and e > n else "extend-left" if s < 0 else "extend-right"))
    if any((b[0], b[1]) != (0, n) for b, n in zip(box, case["shape"])):
        ctx.distinct(("adjust", case["shape"], box, padv))
    return impl


@_guard
def case_pad(ctx, case, model=None):
    d, raw = _mk(case)
    ns, center, padv = case["newshape"], case["center"], case["pad"]
    padr = _real(case, padv)
    inp = {"kind": "pad", **case}
    old = np.array(raw).astype(raw.dtype.newbyteorder("=")) if raw.size else np.array(raw)
    _, _, o0, r0 = _coords(case)
    try:
        kw = {}
        dflt = case.get("default_args") and _vmap(case)[1] == 0
        if not (center is True and dflt):
            kw["center"] = {"npbool": np.bool_(center), "int": int(center)}.get(case.get("centerform"), center)
        if not (padv == 0 and dflt):
            kw["padding_value"] = padr
        nsform = case.get("nsform", "tuple")
        nsa = (list(ns) if nsform == "list" else np.array(ns, dtype=np.int64) if nsform == "np64" else
               np.array(ns, dtype=np.int32) if nsform == "np32" else tuple(np.int64(x) for x in ns) if nsform == "tuple64"
               else tuple(ns))
        if case.get("positional") and "center" in kw:
            d.pad(nsa, *([kw["center"], kw["padding_value"]] if "padding_value" in kw else [kw["center"]]))
        else:
            d.pad(nsa, **kw)
        impl = _state(d, case)
    except Exception as e:  # noqa: BLE001
        impl = "raised:" + type(e).__name__
    if model is None:
        model = ctx.driver.call("c15.pad", **_margs(case), newshape=ns, center=center, pad=padv)
    if isinstance(model, str):
        ctx.agree("pad(raises)", inp, impl, "raised:ValueError")
        return
    ctx.agree("pad", inp, impl, model)
    if isinstance(impl, str):
        ctx.spec("pad: returns", inp, False, impl, key="pad:raised")
        return
    ctx.spec("pad: exactly the requested extents", inp, list(d.shape) == list(ns), {"shape": list(d.shape)}, key="pad:extent")
    # where did the old voxel 0 go?  read it from the origin bookkeeping, then check the data against it
    o_new = np.asarray(d.origin, dtype=np.float64).reshape(-1)
    left = (o0 - o_new) / r0 if o_new.shape == o0.shape else np.full(len(ns), np.nan)
    ok_int = bool(np.all(left == np.round(left)))
    if min(min(case["shape"]), min(ns)) == 0:
        ctx.count("pad:nothing-retained")     # no voxel survives: the position clauses are vacuous, only the model comparison applies
        return impl
    ctx.spec("pad: origin moves by a whole number of voxels", inp, ok_int, {"shift": left.tolist()}, key="pad:physical")
    if ok_int:
        left = left.astype(np.int64)
        right = np.array(ns) - np.array(case["shape"]) - left
        if center:
            ok_split = bool(np.all((right - left >= 0) & (right - left <= 1)))
        else:
            ok_split = bool(np.all(left == 0))
        ctx.spec("pad: centred (margins differ by at most one) / appended (nothing in front)", inp, ok_split,
                 {"left": left.tolist(), "right": right.tolist()}, key="pad:split")
        box = [[int(-l), int(-l + n)] for l, n in zip(left, ns)]
        spec_box(ctx, "pad", inp, old, o0, r0, d, box, padr)
    spec_provenance(ctx, "pad", inp, case, d)
    ctx.spec("pad: caller's array untouched", inp, bool(np.array_equal(raw, old)), key="pad:source")
    for n, m in zip(case["shape"], ns):
        ctx.count("pad:%s:%s:%s" % ("centre" if center else "append", "grow" if m > n else "shrink" if m < n else "same",
                                    "odd" if (m - n) % 2 else "even"))
    if list(ns) != list(case["shape"]):
        ctx.distinct(("pad", case["shape"], ns, center, padv))
    return impl


@_guard
def case_trim(ctx, case, model=None):
    d, raw = _mk(case)
    cutoff, margin = case["cutoff"], case["margin"]
    half = bool(case.get("half"))           # a cut-off strictly between the images of cutoff and cutoff+1: same answer
    rc = _real(case, cutoff, half=half)
    if not half and np.dtype(case.get("dtype", "float32")).kind == "f":
        rc = float(_fwd(case, [cutoff])[0])   # exactly the stored value of that id (a tie with the data)
    cform = case.get("cutform")
    rca = np.float32(rc) if cform == "f4" and float(np.float32(rc)) == rc else np.float64(rc) if cform == "f8" else rc
    ma = np.int64(margin) if case.get("marginform") == "np64" else margin
    inp = {"kind": "trim", **case}
    logical = np.array(case["data"], dtype=np.int64).reshape(case["shape"])
    old = np.array(raw).astype(raw.dtype.newbyteorder("=")) if raw.size else np.array(raw)
    try:
        if case.get("default_margin"):
            box = d.trim_box(rca)
        elif case.get("kwform"):
            box = d.trim_box(cutoff=rca, margin=ma)
        else:
            box = d.trim_box(rca, ma)
        impl = [[int(b.start), int(b.stop)] for b in box]
    except ValueError:
        impl = "err:ValueError"
    except Exception as e:  # noqa: BLE001
        impl = "raised:" + type(e).__name__
    if model is None:
        model = ctx.driver.call("c15.trimBox", **_margs(case), cutoff=cutoff, margin=margin)
    ctx.agree("trim_box", inp, impl, model)
    ctx.spec("trim_box: the data are left as they were", inp, bool(np.array_equal(raw, old)), key="trim_box:source")
    above = np.argwhere(logical > cutoff)
    if isinstance(impl, str):
        # "raises iff nothing is above the cut-off"
        ctx.spec("trim_box: raises only when nothing exceeds the cut-off", inp, len(above) == 0, impl, key="trim_box:raised")
        ctx.count("trim:raised")
        return
    if len(above) == 0:
        ctx.spec("trim_box: raises only when nothing exceeds the cut-off", inp, False, impl, key="trim_box:not-raised")
        return
    starts = np.array([b[0] for b in impl]); stops = np.array([b[1] for b in impl])
    if margin >= 0:
        ok = len(impl) == raw.ndim and bool(np.all(above >= starts[None, :]) and np.all(above < stops[None, :]))
        det = None
        if not ok and len(impl) == raw.ndim:
            bad = above[np.any((above < starts[None, :]) | (above >= stops[None, :]), axis=1)]
            det = {"box": impl, "voxel_outside": bad[0].tolist()}
        ctx.spec("trim_box: box contains every voxel above the cut-off", inp, ok, det, key="trim_box:contains")
        # (that the box stays inside the data and is tight is compared with the model only: the property does not claim it)
        ok2 = bool(np.all(starts >= 0) and np.all(stops <= np.array(raw.shape)) and np.all(starts < stops))
        ctx.count("trim:box-inside-data" if ok2 else "trim:box-outside-data")
        # trimming = adjust_box(trim_box): positions, extents, values
        d.adjust_box(box)
        _, _, o0, r0 = _coords(case)
        spec_box(ctx, "trim", inp, old, o0, r0, d, impl, 0)
        spec_provenance(ctx, "trim", inp, case, d)
        kept = np.asarray(d.data)
        from collections import Counter
        have, need = Counter(kept[kept > rc].tolist()), Counter(old[logical > cutoff].tolist())
        ctx.spec("trim: every value above the cut-off survives", inp, all(have[v] >= c for v, c in need.items()),
                 key="trim:values")
    ctx.count("trim:margin=%s" % ("neg" if margin < 0 else margin if margin < 4 else ">=4"))
    ctx.count("trim:ndim=%d" % raw.ndim)
    ctx.count("trim:cutoff:" + ("between" if half else "tie"))
    if impl != [[0, n] for n in raw.shape]:
        ctx.distinct(("trim", case["shape"], case["data"], cutoff, margin))
    return impl


@_guard
def case_mebox(ctx, case):
    from tme.matching_utils import minimum_enclosing_box
    d, raw = _mk(case)
    cutoff, geo = case["cutoff"], case.get("geometric", False)
    rc = float(_fwd(case, [cutoff])[0])
    inp = {"kind": "mebox", **case}
    logical = np.array(case["data"], dtype=np.int64).reshape(case["shape"])
    old = np.array(raw).astype(raw.dtype.newbyteorder("=")) if raw.size else np.array(raw)
    above = np.argwhere(logical > cutoff)
    if len(above) == 0:
        return
    try:
        side = minimum_enclosing_box(coordinates=np.array(np.where(logical > cutoff)), use_geometric_center=geo)
    except Exception as e:  # noqa: BLE001  (qhull on degenerate clouds, geometric centre only)
        ctx.count("mebox:oracle-raised:" + type(e).__name__)
        if not geo:
            ctx.agree("matching_utils.minimum_enclosing_box returns for a non-empty cloud", inp, type(e).__name__, "returns")
        return
    try:
        box = d.minimum_enclosing_box(rc, use_geometric_center=geo)
    except Exception as e:  # noqa: BLE001
        ctx.spec("minimum_enclosing_box: returns a box when voxels exceed the cut-off", inp, False, type(e).__name__ + ": " + str(e)[:160],
                 key="mebox:raised")
        return
    side = [int(s) for s in np.asarray(side).reshape(-1)]
    impl = [[int(b.start), int(b.stop)] for b in box]
    lo, hi = above.min(axis=0), above.max(axis=0)
    contract = len(set(side)) == 1 and all(s >= int(h - l) + 1 for s, l, h in zip(side, lo, hi))
    ctx.spec("minimum_enclosing_box: side >= extent of the cloud (contract of the recorded value)", inp, contract,
             {"side": side, "lo": lo.tolist(), "hi": hi.tolist()}, key="mebox:contract")
    model = ctx.driver.call("c15.mebox", **_margs(case), cutoff=cutoff, side=side[0])
    ctx.agree("minimum_enclosing_box", inp, impl, model)
    starts = np.array([b[0] for b in impl]); stops = np.array([b[1] for b in impl])
    ok = bool(np.all(above >= starts[None, :]) and np.all(above < stops[None, :]))
    ctx.spec("minimum_enclosing_box: contains every voxel above the cut-off", inp, ok, impl, key="mebox:contains")
    ctx.count("mebox:" + ("geometric" if geo else "mass"))
    ctx.distinct(("mebox", case["shape"], case["data"], cutoff, geo))
    if geo:
        return
    # centered(): frame of the result (copy -> mebox -> adjust_box -> odd pad); the translation inside is interpolation
    before = _state(d, case)
    try:
        c, _shift = d.centered(rc)
    except Exception as e:  # noqa: BLE001
        ctx.spec("centered: returns", inp, False, type(e).__name__, key="centered:raised")
        return
    m = ctx.driver.call("c15.centeredFrame", **_margs(case), cutoff=cutoff, side=side[0])
    ctx.agree("centered(frame)", inp, {"shape": [int(x) for x in c.shape], "origin": _units(c.origin)},
              {"shape": m["shape"], "origin": m["origin"]})
    sh = np.array(c.shape)
    ctx.spec("centered: box at least the source box and the enclosing cube, odd", inp,
             bool(np.all(sh >= np.array(raw.shape)) and np.all(sh >= side[0]) and np.all(sh % 2 == 1)), list(c.shape),
             key="centered:shape")
    # origin moved by whole voxels so that old voxel (0,..) sits at index `left` of the new grid
    _, _, o0, r0 = _coords(case)
    left = (o0 - np.asarray(c.origin, dtype=np.float64)) / r0
    ctx.spec("centered: origin consistent with a whole-voxel box", inp, bool(np.all(left == np.round(left))),
             left.tolist(), key="centered:physical")
    ctx.spec("centered: sampling rate unchanged", inp,
             bool(np.array_equal(np.asarray(c.sampling_rate, dtype=np.float64).reshape(-1), r0)), key="centered:rate")
    ctx.spec("centered: source untouched", inp, _state(d, case) == before and bool(np.array_equal(raw, old))
             and not np.shares_memory(c.data, d.data), key="centered:source")
    ctx.count("centered")


def _ratio_parts(old, new):
    fo, fn = Fraction(old), Fraction(new)
    r = fo / fn
    return r.numerator, r.denominator


@_guard
def case_resample(ctx, case):
    """case: shape, origin(units), old (floats), new (floats), method, order, exact (ratio exactly representable)."""
    from tme import Density
    shape = case["shape"]
    inp = {"kind": "resample", **case}
    rng = np.random.default_rng(case.get("dataseed", 0))
    raw0 = rng.integers(0, 5, size=shape).astype(case.get("dtype", "float32"))
    raw = _lay(raw0.copy(), case.get("layout"))
    origin = np.array(case["origin"], dtype=np.float64) / Q
    old = np.array(case["old"], dtype=np.float64)
    new = case["new"]

    def f4ok(xs):
        return all(float(np.float32(x)) == float(x) for x in xs)

    def whole(xs):
        return all(float(x) == int(x) for x in xs)
    oldform, newform = case.get("oldform", "f8"), case.get("newform") or ("scalar" if case.get("scalar_new") else "tuple")
    # both in float32: the ratio is then formed in float32 - only compared when it is exact there as well
    if oldform == "f4" and newform in ("f4", "f4scalar"):
        with np.errstate(all="ignore"):
            if not all(Fraction(float(np.float32(o) / np.float32(n))) == Fraction(o) / Fraction(n) for o, n in zip(old, new)):
                oldform = "f8"
    old_arg = (old.astype(np.float32) if oldform == "f4" and f4ok(old) else
               old.astype(np.int64) if oldform == "i8" and whole(old) else
               [float(x) for x in old] if oldform == "list" else
               float(old[0]) if oldform == "scalar" and len(set(old.tolist())) == 1 else old.copy())
    iso_new = len(set(float(x) for x in new)) == 1
    new_arg = (float(new[0]) if newform == "scalar" and iso_new else
               int(new[0]) if newform == "iscalar" and iso_new and whole(new) else
               np.float32(new[0]) if newform == "f4scalar" and iso_new and f4ok(new) else
               [float(x) for x in new] if newform == "list" else
               np.array(new, dtype=np.float64) if newform == "array" else
               np.array(new, dtype=np.float32) if newform == "f4" and f4ok(new) else
               np.array(new, dtype=np.int64) if newform == "i8" and whole(new) else tuple(float(x) for x in new))
    origin_arg = tuple(float(x) for x in origin) if case.get("okind") == "tuple" else \
        origin.astype(np.int64) if case.get("okind") == "i8" and whole(origin) else origin.copy()
    d = Density(raw, origin=origin_arg, sampling_rate=old_arg)
    try:
        if case.get("positional"):
            r = d.resample(new_arg, case["method"], case.get("order", 1))
        elif case.get("default_method") and case["method"] == "spline" and case.get("order", 1) == 1:
            r = d.resample(new_arg)
        else:
            r = d.resample(new_arg, method=case["method"], order=case.get("order", 1))
        impl = [int(x) for x in r.shape]
    except ValueError:
        r, impl = None, "err:ValueError"
    except Exception as e:  # noqa: BLE001
        r, impl = None, "raised:" + type(e).__name__
    parts = [_ratio_parts(o, n) for o, n in zip(old, new)]
    m = ctx.driver.call("c15.resample", shape=shape, origin=case["origin"], rate=[p[0] for p in parts],
                        newrate=[p[1] for p in parts])
    exact_vals = [Fraction(n) * Fraction(a, b) for n, (a, b) in zip(shape, parts)]
    near_tie = any(abs((v - int(v)) - Fraction(1, 2)) < Fraction(1, 10**6) for v in exact_vals) and not case.get("exact")
    if near_tie:
        ctx.count("resample:float-tie-not-compared")
    else:
        want = m["shape"]
        if case["method"] == "fourier" and 0 in want:
            want = "err:ValueError"      # numpy refuses a zero-point inverse FFT
        ctx.agree("resample(extents)", inp, impl, want)
    if r is None:
        ctx.count("resample:raised")
        if not near_tie and isinstance(want, list):
            ctx.spec("resample: returns a density when the implied extents exist", inp, False, impl, key="resample:raised")
        return
    ctx.agree("resample(rate := new, origin kept)", inp,
              [bool(np.array_equal(np.asarray(r.sampling_rate, dtype=np.float64).reshape(-1), np.array(new, dtype=np.float64))),
               bool(np.array_equal(np.asarray(r.origin, dtype=np.float64).reshape(-1), origin))],
              [m["rate"] == [p[1] for p in parts], m["origin"] == case["origin"]])
    ok = len(impl) == len(shape) and all(abs(Fraction(s) - v) <= Fraction(1, 2) + Fraction(1, 10**6) for s, v in zip(impl, exact_vals))
    ctx.spec("resample: extents = round(n * old/new)", inp, ok, {"shape": impl, "exact": [float(v) for v in exact_vals]}, key="resample:shape")
    rr = np.asarray(r.sampling_rate, dtype=np.float64).reshape(-1)
    ctx.spec("resample: new rate recorded", inp, rr.shape == (len(shape),) and bool(np.array_equal(rr, np.array(new, dtype=np.float64))),
             rr.tolist(), key="resample:rate")
    ctx.spec("resample: origin kept", inp, bool(np.array_equal(np.asarray(r.origin, dtype=np.float64).reshape(-1), origin)),
             np.asarray(r.origin).tolist(), key="resample:origin")
    ctx.spec("resample: source untouched", inp,
             bool(np.array_equal(d.data, raw0) and np.array_equal(raw, raw0) and np.array_equal(d.sampling_rate, old)
                  and np.array_equal(d.origin, origin)),
             key="resample:source")
    ctx.spec("resample: result shares no buffer with the source", inp,
             not (np.shares_memory(r.data, d.data) or np.shares_memory(r.origin, d.origin)
                  or np.shares_memory(r.sampling_rate, d.sampling_rate)), key="resample:alias")
    ctx.count("resample:" + case["method"])
    ctx.count("resample:rate-forms:%s->%s" % (oldform, newform))
    for v in exact_vals:
        f = v - int(v)
        ctx.count("resample:frac:" + ("0" if f == 0 else "1/2" if f == Fraction(1, 2) else "<1/2" if f < Fraction(1, 2) else ">1/2"))
    if impl != list(shape):
        ctx.distinct(("resample", shape, case["old"], case["new"], case["method"]))
    return impl


@_guard
def case_broadcast(ctx, case):
    """per-axis arguments: a scalar is repeated, a full tuple kept, anything else refused (constructor, resample)."""
    from tme import Density
    nd, xs = case["ndim"], case["xs"]          # xs in units of 1/Q, all > 0
    inp = {"kind": "broadcast", **case}
    vals = [x / Q for x in xs]
    m = ctx.driver.call("c15.broadcast", ndim=nd, xs=xs)
    want = m if not isinstance(m, str) else "raised"
    shape = (2,) * nd
    got = {}
    for which in ("origin", "sampling_rate", "resample"):
        try:
            if which == "origin":
                r = _units(Density(np.zeros(shape, np.float32), origin=list(vals)).origin)
            elif which == "sampling_rate":
                r = _units(Density(np.zeros(shape, np.float32), sampling_rate=list(vals)).sampling_rate)
            else:
                r = _units(Density(np.ones(shape, np.float32)).resample(list(vals), order=0).sampling_rate)
        except Exception:  # noqa: BLE001
            r = "raised"
        got[which] = r
        ctx.agree(f"per-axis argument ({which})", inp, r, want)
        if r != "raised" and which == "resample":      # "records the new rate"; the constructor's rule is compared with the model only
            ok = len(r) == nd and (r == xs if len(xs) == nd else r == [xs[0]] * nd if len(xs) == 1 else False)
            ctx.spec("resample: the new rate is recorded per axis (scalar repeated / tuple kept)", inp, ok, {which: r}, key="resample:rate")
    ctx.count("broadcast:" + ("accepted" if want != "raised" else "refused"))
    if len(xs) > 1:
        ctx.distinct(("broadcast", nd, len(xs)))


def _shares(a, b):
    return [bool(np.shares_memory(a.data, b.data)), bool(np.shares_memory(a.origin, b.origin)),
            bool(np.shares_memory(a.sampling_rate, b.sampling_rate)), a.metadata is b.metadata]


def _close_leaked(fname):
    """Density.to_memmap leaves the descriptor of mkstemp open; close it so that long runs do not exhaust descriptors."""
    try:
        for fd in os.listdir("/proc/self/fd"):
            try:
                if os.readlink("/proc/self/fd/" + fd) == str(fname):
                    os.close(int(fd))
            except OSError:
                pass
    except OSError:
        pass


def _try_write(arr, v):
    try:
        arr[...] = v
        return True
    except Exception:  # noqa: BLE001   (read-only buffer)
        return False


@_guard
def case_alias(ctx, case):
    """copies never share data with their source; which buffers are fresh (heap model)."""
    inp = {"kind": "alias", **case}
    md = {"k": [1, 2, 3]}
    d, raw = _mk(case, metadata=md)
    o_arg, r_arg, _, _ = _coords(case)

    # the constructor keeping the caller's array and adjust_box allocating new buffers are facts the heap model
    # mirrors, but the property does not claim them: they are counted, not compared
    ctx.count("alias:construct:data-" + ("kept" if np.shares_memory(d.data, raw) else "copied"))
    for name, mk in (("copy", lambda x: x.copy()), ("empty", lambda x: x.empty)):
        d, raw = _mk(case, metadata={"k": [1, 2, 3]})
        c = mk(d)
        sh = _shares(c, d)
        ctx.agree(f"alias({name})", inp, sh, ctx.driver.call("c15.alias", which=name))
        ctx.spec(f"{name}: shares no buffer with its source", inp, not any(sh), sh, key=f"{name}:alias")
        if name == "copy":
            ctx.spec("copy: equal content", inp, _state(c, case) == _state(d, case) and c.metadata == d.metadata
                     and bool(np.array_equal(np.asarray(c.data), np.asarray(d.data))), key="copy:content")
        else:   # (the content of `empty` is not part of the property: counted only)
            ctx.count("alias:empty:" + ("zeros-same-frame" if tuple(c.shape) == tuple(d.shape) and not np.any(np.asarray(c.data))
                                        and _state(c, {})["origin"] == _state(d, {})["origin"] else "other"))
        # writes through one object are invisible through the other
        before_d = (_state(d, case), repr(d.metadata))
        wrote = _try_write(c.data, 77) if c.data.size else True
        wrote = _try_write(c.origin, 1234.5) and wrote
        wrote = _try_write(c.sampling_rate, 99.0) and wrote
        c.metadata["k2"] = 1
        if "k" in c.metadata:
            c.metadata["k"].append(9)
        if not wrote:
            ctx.count(f"alias:{name}:not-writable")
        ctx.spec(f"{name}: writing through the copy leaves the source unchanged", inp,
                 (_state(d, case), repr(d.metadata)) == before_d, key=f"{name}:independent")
        # a box operation on the copy leaves the source where it was, and the other way round
        d, raw = _mk(case, metadata={"k": [1, 2, 3]})
        c2 = mk(d)
        before_c, before_d = (_state(c2, case), repr(c2.metadata)), _state(d, case)
        c3 = mk(d)
        c3.adjust_box(tuple(slice(-1, n + 1) for n in c3.shape), pad_kwargs={"constant_values": 5})
        c3.pad(tuple(n + 3 for n in c3.shape), center=True)
        ctx.spec(f"{name}: box operations on the copy leave the source unchanged", inp, _state(d, case) == before_d,
                 key=f"{name}:independent")
        d.adjust_box(tuple(slice(1, n + 2) for n in d.shape), pad_kwargs={"constant_values": 3})
        ctx.spec(f"{name}: box operations on the source leave the copy unchanged", inp,
                 (_state(c2, case), repr(c2.metadata)) == before_c, key=f"{name}:independent")
        d, raw = _mk(case, metadata={"k": [1, 2, 3]})
        c2 = mk(d)
        before_c = (_state(c2, case), repr(c2.metadata))
        if d.data.size:
            _try_write(d.data, 55)           # a read-only source cannot be written: nothing to observe then
        _try_write(d.origin, -3.5)
        _try_write(d.sampling_rate, 7.0)
        d.metadata["k"].append(8)
        ctx.spec(f"{name}: writing through the source leaves the copy unchanged", inp, (_state(c2, case), repr(c2.metadata)) == before_c,
                 key=f"{name}:independent")
    # the same for a source turned into a memory map by the library itself (Density.to_memmap / from_file(use_memmap=True)):
    # the copy is an ordinary array.  Calling to_memmap twice keeps the first map.
    if case.get("to_memmap") and len(case["data"]):
        dm, raw = _mk(case, metadata={"k": [1, 2, 3]})
        fname = None
        try:
            dm.to_memmap()
            fname = getattr(dm.data, "filename", None)
            if fname and case.get("layout") not in ("memmap", "memmap_c"):
                _FILES.append(str(fname))
                _close_leaked(fname)
            first = dm.data
            dm.to_memmap()
            inpm = dict(inp, source="to_memmap")
            ctx.count("alias:to_memmap:" + ("same-content" if dm.data is first and _state(dm, case) == _state(_mk(case)[0], case) else "other"))
            cm = dm.copy()
            shm_ = _shares(cm, dm)
            ctx.spec("copy: shares no buffer with its source", inpm, not any(shm_), shm_, key="copy:alias")
            ctx.spec("copy: equal content", inpm, _state(cm, case) == _state(dm, case), key="copy:content")
            before_m = _state(dm, case)
            wrote = _try_write(cm.data, 77)   # a read-only view of the source's file is not an independent copy
            ctx.spec("copy: the copy is writable and writing through it leaves the source unchanged", inpm,
                     wrote and _state(dm, case) == before_m, key="copy:independent")
            ctx.count("alias:to_memmap-source")
        finally:
            dm = cm = first = None
    # adjust_box in place: fresh data/origin, same rate/metadata objects
    d, raw = _mk(case, metadata={"k": [1, 2, 3]})
    e = d.copy()
    class _Old:
        data, origin, sampling_rate, metadata = e.data, e.origin, e.sampling_rate, e.metadata
    e.adjust_box(tuple(slice(0, n) for n in e.shape))
    ctx.count("alias:adjust_box:" + ("as-model" if _shares(e, _Old) == ctx.driver.call("c15.alias", which="adjust") else "differs"))
    ctx.count("alias:ndim=%d" % len(case["shape"]))
    ctx.count("alias:layout:" + str(case.get("layout", "C")))
    ctx.distinct(("alias", case["shape"], case.get("dtype"), case.get("layout")))


# ----------------------------------------------------------------------------------------------
# histories
# ----------------------------------------------------------------------------------------------
def gen_history(rng, case, length, maxvox=1500):
    """ops generated against the *model-free* evolving shape (we only need plausible parameters; the real run decides)."""
    ops = []
    shape = list(case["shape"])
    data0 = np.array(case["data"])
    zero_ok = _vmap(case)[1] == 0        # the library's default pad value 0 is the image of the id 0
    pads = [0, 1, 1] if case.get("dtype") in UDTYPES else [0, -1, -5]
    for _ in range(length):
        k = str(rng.choice(["adjust", "pad", "trim", "copy"], p=[0.4, 0.3, 0.2, 0.1]))
        big = int(np.prod([max(s, 1) for s in shape])) > maxvox
        if k == "adjust" or (big and k == "pad"):
            box = gen_box(rng, shape)
            if big:
                box = [[int(rng.integers(0, max(n // 2, 1))), int(max(n // 2, 1) + rng.integers(0, 2))] for n in shape]
            op = {"op": "adjust", "box": box, "pad": int(rng.choice(pads))}
            if zero_ok and rng.random() < 0.3:      # pad_kwargs left out after having been given: the default again
                op.update(pad=0, default=True)
            ops.append(op)
            shape = [max(b[1] - b[0], 0) if b[1] >= 0 else None for b in box]
            if None in shape:   # cannot happen: gen_box(quirk=False)
                shape = [1] * len(box)
        elif k == "pad":
            ns = [int(max(0, n + rng.integers(-3, 5))) for n in shape]
            op = {"op": "pad", "newshape": ns, "center": bool(rng.random() < 0.7), "pad": int(rng.choice(pads))}
            if zero_ok and rng.random() < 0.3:
                op.update(pad=0, default=True)      # padding_value (and center, when True) left out
            ops.append(op)
            shape = ns
        elif k == "trim":
            lowq = np.sort(data0.reshape(-1))[: max(1, data0.size // 2)]
            cutoff = int(rng.choice(np.concatenate([lowq, lowq, data0.reshape(-1), [-1, 0, 0, data0.size + 3]])))
            ops.append({"op": "trim", "cutoff": cutoff, "margin": int(rng.integers(0, 3)), "pad": 0})
            shape = None
        else:
            r = rng.random()
            ops.append({"op": "copy", "how": "memmap" if r < 0.12 else "numpy" if r < 0.24 else "copy"})
        if shape is None:
            shape = [max(1, s // 2 + 1) for s in case["shape"]]   # unknown after a trim; only used to pick parameters
    return ops


def apply_real(d, op, case=None):
    """Apply one history operation to the real object; returns (object, box used or None, raised?)."""
    case = case or {}
    if op["op"] == "adjust":
        sl = tuple(slice(b[0], b[1]) for b in op["box"])
        if op.get("default"):
            d.adjust_box(sl)
        else:
            d.adjust_box(sl, pad_kwargs={"constant_values": _real(case, op["pad"])})
        return d, op["box"], False
    if op["op"] == "pad":
        before_o = np.asarray(d.origin, dtype=np.float64).copy()
        r = np.asarray(d.sampling_rate, dtype=np.float64)
        if op.get("default"):
            d.pad(tuple(op["newshape"]), **({} if op["center"] else {"center": False}))
        else:
            d.pad(tuple(op["newshape"]), center=op["center"], padding_value=_real(case, op["pad"]))
        left = np.round((before_o - np.asarray(d.origin, dtype=np.float64)) / r).astype(np.int64)
        return d, [[int(-l), int(-l + n)] for l, n in zip(left, op["newshape"])], False
    if op["op"] == "trim":
        rc = _real(case, op["cutoff"])
        if np.dtype(case.get("dtype", "float32")).kind == "f":
            rc = float(_fwd(case, [op["cutoff"]])[0])
        try:
            box = d.trim_box(rc, op["margin"])
        except ValueError:
            return d, None, True
        d.adjust_box(box)
        return d, [[int(b.start), int(b.stop)] for b in box], False
    how = op.get("how", "copy")
    if how == "memmap":          # same object, voxels moved into a read-only memory map
        if d.data.size == 0:     # (numpy cannot map an empty file; to_memmap is not one of the box operations)
            return d, None, False
        was = isinstance(d.data, np.memmap)
        d.to_memmap()
        if not was and isinstance(d.data, np.memmap):
            _FILES.append(str(d.data.filename))
            _close_leaked(d.data.filename)
        return d, None, False
    if how == "numpy":
        # (to_numpy is not one of the property's operations.  An in-memory array of class numpy.memmap without a file -
        # what memmap.copy() returns, e.g. inside Density.copy() - makes it raise TypeError from os.remove(None);
        # that is outside C15 and skipped here.)
        if isinstance(d.data, np.memmap) and getattr(d.data, "filename", None) is None:
            return d, None, False
        d.to_numpy()
        return d, None, False
    return d.copy(), None, False


@_guard
def case_history(ctx, case):
    """case: density + ops.  States after every operation against the model; provenance / physical position /
    retained set evaluated on the real final state."""
    inp = {"kind": "history", **case}
    d, raw = _mk(case)
    nd = raw.ndim
    old = np.array(raw).astype(raw.dtype.newbyteorder("=")) if raw.size else np.array(raw)
    states = []
    # spec-level tracking in the coordinates of the initial array: surviving window and cumulative offset
    wlo = np.zeros(nd, dtype=np.int64); whi = np.array(raw.shape, dtype=np.int64); off = np.zeros(nd, dtype=np.int64)
    crashed = None
    for k, op in enumerate(case["ops"]):
        prev = np.array(d.data)
        prev = prev.astype(prev.dtype.newbyteorder("=")) if prev.size else prev
        prev_o = np.asarray(d.origin, dtype=np.float64).reshape(-1).copy()
        prev_r = np.asarray(d.sampling_rate, dtype=np.float64).reshape(-1).copy()
        try:
            d, box, raised = apply_real(d, op, case)
        except Exception as e:  # noqa: BLE001
            crashed = type(e).__name__
            break
        if raised:
            states.append("raised")
            continue
        states.append(_state(d, case))
        if box is not None and all(b[1] >= 0 for b in box):
            fill = 0 if (op.get("default") or op["op"] == "trim") else _real(case, op["pad"])
            spec_box(ctx, "history", {**inp, "at_step": k}, prev, prev_o, prev_r, d, box, fill)
        if op["op"] in ("adjust", "pad"):
            want = list(op["newshape"]) if op["op"] == "pad" else [max(b[1] - b[0], 0) for b in op["box"]]
            ctx.spec("history: every operation yields exactly the requested extents", inp, [int(x) for x in d.shape] == want,
                     {"after": op, "shape": [int(x) for x in d.shape], "requested": want}, key="history:extent")
        if box is not None:
            b = np.array(box, dtype=np.int64)
            wlo = np.maximum(wlo, b[:, 0] + off); whi = np.minimum(whi, b[:, 1] + off)
            off = off + b[:, 0]
    if crashed:
        ctx.spec("history: operations return", inp, False, crashed, key="history:raised")
        return
    m = ctx.driver.call("c15.run", **_margs(case), ops=case["ops"])
    ctx.agree("history(states)", inp, states, m["states"])
    # provenance of the real final state vs the model's trace
    arr = np.asarray(d.data)
    if _idmap_ok(case):
        data0 = np.array(case["data"], dtype=np.int64)
        pos_of = np.full(data0.size + 2, -1, dtype=np.int64)
        pos_of[data0] = np.arange(data0.size)
        vals = _inv(case, arr).reshape(-1)
        isid = (vals >= 1) & (vals <= data0.size) & (vals == np.round(vals))
        tr = np.where(isid, pos_of[np.clip(np.nan_to_num(vals, nan=0.0), 0, data0.size).astype(np.int64)], -1)
        ctx.agree("history(trace)", inp, [int(x) for x in tr], m["trace"])
        spec_provenance(ctx, "history", inp, case, d)
        # retained set = the voxels whose initial index stayed inside every box
        want_ids = set()
        if np.all(whi > wlo):
            sub = data0.reshape(case["shape"])[tuple(slice(int(a), int(b)) for a, b in zip(wlo, whi))]
            want_ids = set(int(x) for x in sub.reshape(-1))
        got_ids = set(int(x) for x in vals[isid])
        ctx.spec("history: exactly the voxels that stayed inside every box are retained", inp, got_ids == want_ids,
                 {"missing": sorted(want_ids - got_ids)[:5], "extra": sorted(got_ids - want_ids)[:5]}, key="history:retained")
    # cumulative origin: origin_final = origin_0 + offset * rate
    _, _, o0, r0 = _coords(case)
    ctx.spec("history: the array handed to the constructor is left as it was", inp, bool(np.array_equal(raw, old)), key="history:source")
    if not np.all(whi > wlo):
        ctx.count("history:nothing-retained")
    else:
        ok_o = bool(np.array_equal(np.asarray(d.origin, dtype=np.float64).reshape(-1), o0 + off * r0)) \
            and bool(np.array_equal(np.asarray(d.sampling_rate, dtype=np.float64).reshape(-1), r0))
        ctx.spec("history: origin = initial origin + accumulated start * rate", inp, ok_o,
                 {"origin": np.asarray(d.origin).tolist(), "want": (o0 + off * r0).tolist()}, key="history:physical")
    ctx.count("history:len=%d" % len(case["ops"]))
    for op, s in zip(case["ops"], states):
        ctx.count("history:op:" + op["op"] + (":" + op["how"] if op.get("how", "copy") != "copy" else "")
                  + (":default-args" if op.get("default") else "") + (":raised" if s == "raised" else ""))
    ctx.distinct(("history", case["shape"], case["ops"]))


# ----------------------------------------------------------------------------------------------
# float (non-dyadic) stream: spec only, with tolerance
# ----------------------------------------------------------------------------------------------
@_guard
def case_float(ctx, case):
    """arbitrary (non-dyadic) float origins / rates of any magnitude.  Tolerance from the rounding model: every box
    operation forms start*rate and subtracts it (2 roundings), reading a coordinate is 2 more, each at most eps/2 times
    the largest magnitude M that can occur on that axis: |error| <= (ops + 2) * eps * M; a factor 8 is allowed on top.
    (One voxel is `rate`, so a position that is off by a voxel is far outside whenever M / rate < 2^40.)"""
    from tme import Density
    inp = {"kind": "float", **case}
    shape = case["shape"]
    n = int(np.prod(shape))
    raw = _lay((np.arange(n) + 1).reshape(shape).astype(case.get("dtype", "float32")), case.get("layout"))
    o0 = np.array(case["forigin"], dtype=np.float64); r0 = np.array(case["frate"], dtype=np.float64)
    d = Density(raw, origin=o0.copy(), sampling_rate=r0.copy())
    off = np.zeros(len(shape), dtype=np.int64)
    reach = np.array(shape, dtype=np.float64)
    nops = 0
    for op in case["ops"]:
        d, box, raised = apply_real(d, op)
        if box is not None and not raised:
            off += np.array([b[0] for b in box], dtype=np.int64)
            reach = np.maximum(reach, np.abs(off) + np.array([max(abs(b[0]), abs(b[1])) for b in box]))
            nops += 1
    arr = np.asarray(d.data)
    vals = arr.reshape(-1)
    isid = vals >= 1
    J = np.indices(arr.shape).reshape(len(shape), -1)[:, isid] if arr.size else np.zeros((len(shape), 0))
    idx0 = np.array(np.unravel_index((vals[isid] - 1).astype(np.int64), shape)).reshape(len(shape), -1)
    pn = _phys_float(d.origin, d.sampling_rate, J); po = _phys_float(o0, r0, idx0)
    M = np.abs(o0) + (reach + np.array(shape)) * np.abs(r0)
    tol = 8 * (nops + 2) * np.finfo(np.float64).eps * M
    ok = bool(np.all(np.abs(pn - po) <= tol[:, None])) if pn.size else True
    det = None
    if not ok:
        k = int(np.argwhere(np.any(np.abs(pn - po) > tol[:, None], axis=0))[0][0])
        det = {"new_physical": pn[:, k].tolist(), "old_physical": po[:, k].tolist(), "tolerance": tol.tolist()}
    ctx.spec("float coordinates: retained values keep their physical coordinate (rounding-model tolerance)", inp, ok, det, key="float:physical")
    ctx.spec("float coordinates: sampling rate unchanged", inp,
             bool(np.array_equal(np.asarray(d.sampling_rate, dtype=np.float64).reshape(-1), r0)), key="float:rate")
    ctx.count("float:history")
    ctx.count("float:magnitude:origin~1e%d,rate~1e%d" % (int(np.round(np.log10(max(np.abs(o0).max(), 1e-30)))),
                                                       int(np.round(np.log10(np.abs(r0).max())))))


# ----------------------------------------------------------------------------------------------
# extents beyond the small model-compared ones: clauses on the real outputs only
# ----------------------------------------------------------------------------------------------
@_guard
def case_big(ctx, case):
    """case: shape, dtype, layout, origin / rate (units), op in adjust / pad / trim with its parameters.  Voxel ids are
    1..n in C order (trim: zero outside `blob`), so nothing bulky is stored in the case."""
    from tme import Density
    inp = {"kind": "big", **case}
    shape = case["shape"]
    n = int(np.prod(shape))
    ids = (np.arange(n) + 1).reshape(shape)
    if case["op"] == "trim":
        keepm = np.zeros(shape, dtype=bool)
        if case.get("blob"):
            keepm[tuple(slice(a, b) for a, b in case["blob"])] = True
        for pt in case.get("points", []):       # isolated voxels
            keepm[tuple(pt)] = True
        ids = np.where(keepm, ids, 0)
    raw = _lay(ids.astype(case["dtype"]), case.get("layout"))
    old = np.array(raw).astype(raw.dtype.newbyteorder("=")) if raw.size else np.array(raw)
    origin, rate, o0, r0 = _coords(case)
    d = Density(raw, origin=origin, sampling_rate=rate)
    padv = case.get("pad", 0)
    try:
        if case["op"] == "adjust":
            box = case["box"]
            d.adjust_box(tuple(slice(b[0], b[1]) for b in box), pad_kwargs={"constant_values": padv})
        elif case["op"] == "pad":
            d.pad(tuple(case["newshape"]), center=case["center"], padding_value=padv)
            left = (o0 - np.asarray(d.origin, dtype=np.float64).reshape(-1)) / r0
            ctx.spec("pad: origin moves by a whole number of voxels", inp, bool(np.all(left == np.round(left))), left.tolist(), key="pad:physical")
            left = np.round(left).astype(np.int64)
            right = np.array(case["newshape"]) - np.array(shape) - left
            ctx.spec("pad: centred (margins differ by at most one) / appended (nothing in front)", inp,
                     bool(np.all((right - left >= 0) & (right - left <= 1))) if case["center"] else bool(np.all(left == 0)),
                     {"left": left.tolist(), "right": right.tolist()}, key="pad:split")
            box = [[int(-l), int(-l + m)] for l, m in zip(left, case["newshape"])]
            ctx.spec("pad: exactly the requested extents", inp, list(d.shape) == list(case["newshape"]), list(d.shape), key="pad:extent")
        else:
            b = d.trim_box(case["cutoff"], case["margin"])
            box = [[int(x.start), int(x.stop)] for x in b]
            above = np.argwhere(old > case["cutoff"])
            starts = np.array([x[0] for x in box]); stops = np.array([x[1] for x in box])
            ctx.spec("trim_box: box contains every voxel above the cut-off", inp,
                     bool(np.all(above >= starts[None, :]) and np.all(above < stops[None, :])), box, key="trim_box:contains")
            d.adjust_box(b)
            padv = 0
    except Exception as e:  # noqa: BLE001
        ctx.spec("large extents: the operation returns", inp, False, type(e).__name__ + ": " + str(e)[:200], key=case["op"] + ":raised")
        return
    tag = {"adjust": "adjust_box", "pad": "pad", "trim": "trim"}[case["op"]]
    spec_box(ctx, tag, inp, old, o0, r0, d, box, padv)
    ctx.count("big:" + case["op"] + ":ndim=%d" % len(shape))
    ctx.count("big:largest-extent>=%d" % (2 ** int(np.log2(max(max(d.shape), 1)))))
    ctx.distinct(("big", case["op"], shape, box))


def _gen_big(rng, huge=None, op=None):
    nd = int(huge or rng.choice([1, 2, 3]))
    r = rng.random()       # voxel counts: hundreds-thousands / beyond 10 000 / beyond 100 000 / (huge) beyond 1 000 000
    hi = ({1: 400, 2: 60, 3: 24} if r < 0.5 else {1: 30000, 2: 170, 3: 32} if r < 0.9 else {1: 250000, 2: 500, 3: 64})[nd]
    if huge:
        hi = {1: 1300000, 2: 1150, 3: 110}[nd]
    shape = [int(x) for x in rng.integers(int(hi * (0.95 if huge else 0.7)), hi + 1, size=nd)]
    case = {"shape": shape, "dtype": str(rng.choice(["float32", "float64", "int32"])),
            "layout": str(rng.choice(["C", "C"] + LAYOUTS)), "origin": [int(x) for x in rng.integers(-2**20, 2**20, size=nd)],
            "rate": [int(x) for x in rng.integers(1, 200, size=nd)], "okind": str(rng.choice(OKINDS)), "rkind": str(rng.choice(RKINDS)),
            "op": op or str(rng.choice(["adjust", "pad", "trim"])), "pad": int(rng.choice([0, -1, -7]))}
    far = [130, 260, 33000, 70000]          # differences past 2^7, 2^8, 2^15, 2^16
    if case["op"] == "adjust":
        box = []
        for n in shape:
            s = int(rng.integers(-n, n)); e = int(rng.integers(max(s, 0) + 1, n + 40))
            if huge:     # keep most of the voxels
                s = int(rng.integers(-20, 20)); e = n + int(rng.integers(-20, 20))
            box.append([s, e])
        if nd == 1:
            r = rng.random()
            if r < 0.5:
                box[0][1] = max(box[0][0], 0) + shape[0] + int(rng.choice(far)) + int(rng.integers(0, 5))
            elif r < 0.7:
                box[0][0] = -int(rng.choice(far)) - int(rng.integers(0, 5))
        case["box"] = box
    elif case["op"] == "pad":
        ns = [int(max(1, n + rng.integers(-n // 2 if not huge else -20, 60))) for n in shape]
        if nd == 1 and rng.random() < 0.6:
            ns[0] = shape[0] + int(rng.choice(far)) + int(rng.integers(0, 5))
        case.update(newshape=ns, center=bool(rng.random() < 0.7))
    else:
        blob = []
        for n in shape:
            a = int(rng.integers(0, n)); b = int(rng.integers(a + 1, n + 1))
            if huge:
                a = int(rng.integers(0, 30)); b = n - int(rng.integers(0, 30))
            blob.append([a, b])
        case.update(blob=blob, cutoff=0, margin=int(rng.choice([0, 1, 5, 130, 300])))
        if huge or rng.random() < 0.5:       # a few isolated voxels instead of a filled box
            case.pop("blob")
            case.update(points=[[int(rng.integers(0, n)) for n in shape] for _ in range(int(rng.integers(1, 5)))],
                        margin=int(rng.choice([0, 0, 1])))
    return case


# ----------------------------------------------------------------------------------------------
# histories that contain resampling: the bookkeeping of every later operation starts from what resample left
# ----------------------------------------------------------------------------------------------
@_guard
def case_rehistory(ctx, case):
    """case: shape, origin (units of 1/Q), rate (floats, dyadic), ops: resample (per-axis power-of-two factors) / adjust /
    pad / copy.  Values are interpolated by resample and not followed; extents, origin and rate are, exactly."""
    from tme import Density
    inp = {"kind": "rehistory", **case}
    shape = list(case["shape"])
    rng = np.random.default_rng(case.get("dataseed", 0))
    raw = _lay(rng.integers(0, 5, size=shape).astype(case.get("dtype", "float32")), case.get("layout"))
    E_o = [Fraction(int(x), Q) for x in case["origin"]]
    E_r = [Fraction(float(x)) for x in case["rate"]]
    d = Density(raw, origin=np.array([float(x) for x in E_o]), sampling_rate=np.array([float(x) for x in E_r]))

    def fr(a):
        return [Fraction(float(x)) for x in np.asarray(a, dtype=np.float64).reshape(-1)]
    U = 4096           # the model's common unit 2^-12 for origin and rates

    def inU(xs):
        return [int(x * U) if (x * U).denominator == 1 else float(x * U) for x in xs]
    mops, real_states = [], []
    rr_ = list(E_r)
    for op in case["ops"]:      # the same history for the Lean model (rates as numerators over 2^-12)
        if op["op"] == "resample":
            rr_ = [r * Fraction(2) ** int(e) for r, e in zip(rr_, op["log2"])]
            mops.append({"op": "resample", "newrate": inU(rr_)})
        else:
            mops.append({k_: v for k_, v in op.items() if k_ in ("op", "box", "newshape", "center")})
    model = ctx.driver.call("c15.geoRun", shape=shape, origin=inU(E_o), rate=inU(E_r), ops=mops)
    for k, op in enumerate(case["ops"]):
        at = {"step": k, "op": op}
        try:
            if op["op"] == "resample":
                new = [float(r * Fraction(2) ** int(e)) for r, e in zip(E_r, op["log2"])]
                arg = new[0] if op.get("scalar") and len(set(new)) == 1 else tuple(new)
                d = d.resample(arg, method=op["method"], order=op.get("order", 1))
                exact = [Fraction(n) * r / Fraction(nw) for n, r, nw in zip(shape, E_r, new)]
                got = [int(x) for x in d.shape]
                ctx.spec("history with resampling: extents = round(n * old/new)", inp,
                         len(got) == len(shape) and all(abs(Fraction(g) - v) <= Fraction(1, 2) for g, v in zip(got, exact)),
                         {**at, "shape": got, "exact": [float(v) for v in exact]}, key="rehistory:extent")
                parts = [_ratio_parts(float(r), nw) for r, nw in zip(E_r, new)]
                m = ctx.driver.call("c15.resample", shape=shape, origin=[0] * len(shape), rate=[p[0] for p in parts],
                                    newrate=[p[1] for p in parts])
                ctx.agree("resample(extents) inside a history", {**inp, "at": at}, got, m["shape"])
                E_r = [Fraction(x) for x in new]
                shape = got
            elif op["op"] == "adjust":
                d.adjust_box(tuple(slice(b[0], b[1]) for b in op["box"]))
                E_o = [o + b[0] * r for o, b, r in zip(E_o, op["box"], E_r)]
                want = [max(b[1] - b[0], 0) for b in op["box"]]
                ctx.spec("history with resampling: exactly the requested extents", inp, [int(x) for x in d.shape] == want,
                         {**at, "shape": [int(x) for x in d.shape]}, key="rehistory:extent")
                shape = [int(x) for x in d.shape]
            elif op["op"] == "pad":
                before = fr(d.origin)
                d.pad(tuple(op["newshape"]), center=op["center"])
                left = [(b - a) / r for a, b, r in zip(fr(d.origin), before, E_r)]
                right = [Fraction(m - n) - l for m, n, l in zip(op["newshape"], shape, left)]
                okp = all(l.denominator == 1 for l in left) and (all(0 <= r_ - l <= 1 for l, r_ in zip(left, right)) if op["center"]
                                                                 else all(l == 0 for l in left))
                ctx.spec("history with resampling: pad moves the origin by its front margin in voxels of the current rate", inp, okp,
                         {**at, "left": [float(l) for l in left]}, key="rehistory:origin")
                ctx.spec("history with resampling: exactly the requested extents", inp, [int(x) for x in d.shape] == list(op["newshape"]),
                         {**at, "shape": [int(x) for x in d.shape]}, key="rehistory:extent")
                E_o = fr(d.origin) if okp else E_o
                shape = [int(x) for x in d.shape]
            else:
                d = d.copy()
        except Exception as e:  # noqa: BLE001
            ctx.spec("history with resampling: operations return", inp, False, {**at, "raised": type(e).__name__ + ": " + str(e)[:160]},
                     key="rehistory:raised")
            return
        ctx.spec("history with resampling: origin = what the property prescribes after every step", inp, fr(d.origin) == E_o,
                 {**at, "origin": np.asarray(d.origin).tolist(), "want": [float(x) for x in E_o]}, key="rehistory:origin")
        ctx.spec("history with resampling: rate = the last rate asked for", inp, fr(d.sampling_rate) == E_r,
                 {**at, "rate": np.asarray(d.sampling_rate).tolist(), "want": [float(x) for x in E_r]}, key="rehistory:rate")
        ctx.count("rehistory:op:" + op["op"])
        real_states.append({"shape": [int(x) for x in d.shape], "origin": inU(fr(d.origin)), "rate": inU(fr(d.sampling_rate))})
    ctx.agree("history with resampling(states)", inp, real_states, model)
    ctx.distinct(("rehistory", case["shape"], case["ops"]))


def _gen_rehistory(rng, length):
    nd = int(rng.choice([1, 2, 3]))
    cap = {1: 48, 2: 20, 3: 10}[nd]
    shape = [int(x) for x in rng.integers(2, cap // 2 + 1, size=nd)]
    rate = [float(rng.choice([1, 3, 5])) * 2.0 ** int(rng.integers(-2, 3)) for _ in range(nd)]
    case = {"shape": list(shape), "origin": [int(x) for x in rng.integers(-400, 401, size=nd)], "rate": rate,
            "dtype": str(rng.choice(["float32", "float64"])), "layout": str(rng.choice(["C", "C"] + LAYOUTS)),
            "dataseed": int(rng.integers(0, 1000)), "ops": []}
    for i in range(length):
        k = str(rng.choice(["resample", "adjust", "pad", "copy"], p=[0.4, 0.3, 0.2, 0.1])) if i else "resample"
        if k == "resample":
            lg = []
            for n in shape:
                opts = [0]
                if 2 * n <= cap:
                    opts.append(-1)       # finer: twice as many voxels
                if n >= 2:
                    opts.append(1)        # coarser
                if n >= 4:
                    opts.append(2)
                lg.append(int(rng.choice(opts)))
            if rng.random() < 0.2:
                lg = [lg[0]] * nd if all((e != -1 or 2 * n <= cap) and (e < 1 or n >= 2 ** e) for n, e in zip(shape, [lg[0]] * nd)) else lg
            case["ops"].append({"op": "resample", "log2": lg, "method": str(rng.choice(["spline", "fourier"])),
                                "order": int(rng.choice([0, 1])), "scalar": bool(rng.random() < 0.5)})
            # python's round is half-even, as numpy's and the model's; at a tie the next parameters only need to be plausible
            shape = [max(1, int(round(Fraction(n, 1) / Fraction(2) ** e))) for n, e in zip(shape, lg)]
        elif k == "adjust":
            box = []
            for n in shape:
                s_ = int(rng.integers(-3, n)); e_ = int(rng.integers(max(s_, 0) + 1, max(min(n + 4, s_ + cap), max(s_, 0) + 1) + 1))
                box.append([s_, e_])
            case["ops"].append({"op": "adjust", "box": box})
            shape = [b[1] - b[0] for b in box]
        elif k == "pad":
            ns = [int(min(cap, max(1, n + rng.integers(-2, 5)))) for n in shape]
            case["ops"].append({"op": "pad", "newshape": ns, "center": bool(rng.random() < 0.7)})
            shape = ns
        else:
            case["ops"].append({"op": "copy"})
    return case


# ----------------------------------------------------------------------------------------------
# deepen3: to_pointcloud, empty / rigid_transform bookkeeping, center_of_mass, to_memmap / to_numpy
# ----------------------------------------------------------------------------------------------
def _thr_real(case, thr, half):
    rc = _real(case, thr, half=half)
    if not half and np.dtype(case.get("dtype", "float32")).kind == "f":
        rc = float(_fwd(case, [thr])[0])       # exactly the stored value of that id (a tie with the data)
    return rc


def _phys_units(d, pts):
    """physical coordinates origin + index*rate of the points (k, ndim) in units of 1/Q"""
    o = np.asarray(d.origin, dtype=np.float64).reshape(-1)
    r = np.asarray(d.sampling_rate, dtype=np.float64).reshape(-1)
    pts = np.asarray(pts, dtype=np.float64).reshape(-1, o.size)
    return [_units(o + p * r) for p in pts]


@_guard
def case_cloud(ctx, case):
    """to_pointcloud(threshold) before and after adjust_box(box, pad): the cloud moves with the box."""
    d, raw = _mk(case)
    thr, half = case["thr"], bool(case.get("half"))
    rc = _thr_real(case, thr, half)
    inp = {"kind": "cloud", **case}
    logical = np.array(case["data"], dtype=np.int64).reshape(case["shape"])
    old = np.array(raw).astype(raw.dtype.newbyteorder("=")) if raw.size else np.array(raw)
    before = _state(d, case)
    if case.get("default_thr"):
        pc = d.to_pointcloud()
    elif case.get("kwform"):
        pc = d.to_pointcloud(threshold=rc)
    else:
        pc = d.to_pointcloud(np.float64(rc) if case.get("np_thr") else rc)
    nd = len(case["shape"])
    ok_shape = isinstance(pc, np.ndarray) and pc.ndim == 2 and pc.shape[0] == nd
    impl = [[int(x) for x in p] for p in pc.T] if ok_shape else "shape:" + str(getattr(pc, "shape", None))
    m = ctx.driver.call("c15.pointcloud", **_margs(case), thr=thr)
    ctx.agree("to_pointcloud", inp, impl, m["cloud"] if isinstance(m, dict) else m)
    want = [[int(x) for x in p] for p in np.argwhere(logical > thr)]
    ctx.spec("to_pointcloud: exactly the voxels above the threshold, each once, one row per axis", inp, impl == want,
             {"got": impl if isinstance(impl, str) else impl[:6], "want": want[:6]}, key="to_pointcloud:members")
    ctx.spec("to_pointcloud: density and caller's array untouched, result is a new array", inp,
             _state(d, case) == before and bool(np.array_equal(raw, old)) and not np.shares_memory(pc, d.data),
             key="to_pointcloud:source")
    if isinstance(m, dict) and ok_shape:
        ctx.agree("to_pointcloud(physical coordinates)", inp, _phys_units(d, pc.T), m["phys"])
    ctx.count("cloud:ndim=%d" % nd)
    ctx.count("cloud:points=" + ("0" if not want else "all" if len(want) == logical.size else "some"))
    ctx.count("cloud:thr:" + ("default" if case.get("default_thr") else "between" if half else "tie"))
    ctx.count("layout:" + str(case.get("layout", "C")))
    ctx.count("dtype:" + str(case.get("dtype")))
    if case.get("box") is None or not ok_shape:
        ctx.distinct(("cloud", case["shape"], case["data"], thr))
        return impl
    # the cloud after a box operation
    box, padv = case["box"], case["pad"]
    phys0 = _phys_units(d, pc.T)
    vals0 = {tuple(p): old[tuple(p0)].item() for p, p0 in zip(phys0, pc.T)}
    inbox = [tuple(p) for p, p0 in zip(phys0, pc.T) if all(b[0] <= int(x) < b[1] for x, b in zip(p0, box))]
    try:
        d.adjust_box(_box_arg(case, box), pad_kwargs={"constant_values": _real(case, padv)})
    except Exception as e:  # noqa: BLE001
        ctx.spec("adjust_box: returns", inp, False, type(e).__name__, key="adjust_box:raised")
        return impl
    pc2 = d.to_pointcloud(rc)
    impl2 = [[int(x) for x in p] for p in pc2.T]
    phys2 = _phys_units(d, pc2.T)
    m2 = ctx.driver.call("c15.pointcloud", **_margs(case), thr=thr, box=box, pad=padv)
    ctx.agree("to_pointcloud after adjust_box", inp, {"cloud": impl2, "phys": phys2}, m2)
    quirk = any(b[1] < 0 for b in box)
    new_data = np.asarray(d.data)
    if padv <= thr:
        ok = all(tuple(p) in vals0 and vals0[tuple(p)] == new_data[tuple(i)].item() for p, i in zip(phys2, impl2))
        ctx.spec("to_pointcloud: after a box operation every point is a point of the old cloud, same value, same physical coordinate",
                 inp, ok and len(set(map(tuple, phys2))) == len(phys2), {"new": phys2[:6]}, key="to_pointcloud:physical")
    if not quirk:
        have = set(map(tuple, phys2))
        ctx.spec("to_pointcloud: no point of the old cloud inside the box is lost", inp, all(p in have for p in inbox),
                 {"lost": [p for p in inbox if p not in have][:4]}, key="to_pointcloud:complete")
    ctx.count("cloud:box:" + ("neg-stop" if quirk else "pad-above-thr" if padv > thr else "regular"))
    ctx.distinct(("cloud", case["shape"], case["data"], thr, box, padv))
    return impl2


@_guard
def case_empty(ctx, case):
    """Density.empty and the box bookkeeping of rigid_transform (which fills `self.empty`)."""
    inp = {"kind": "empty", **case}
    d, raw = _mk(case, metadata={"k": [1, 2, 3]})
    old = np.array(raw).astype(raw.dtype.newbyteorder("=")) if raw.size else np.array(raw)
    before = _state(d, case)
    e = d.empty
    m = ctx.driver.call("c15.empty", **_margs(case))
    ident = {k: v for k, v in case.items() if k not in ("scale", "offset")}      # zeros are zeros, whatever the value map
    impl = _state(e, ident)
    ctx.agree("empty", inp, impl, m)
    ctx.spec("empty: same extents, origin and sampling rate (every index keeps its physical coordinate), all voxels zero", inp,
             tuple(e.shape) == tuple(d.shape) and _units(e.origin) == _units(d.origin)
             and _units(e.sampling_rate) == _units(d.sampling_rate) and not np.any(np.asarray(e.data))
             and np.asarray(e.data).dtype == np.asarray(d.data).dtype, impl, key="empty:frame")
    ctx.spec("empty: source untouched, result is a new object with new buffers", inp,
             e is not d and not any(_shares(e, d)) and _state(d, case) == before and bool(np.array_equal(raw, old))
             and d.metadata == {"k": [1, 2, 3]}, key="empty:source")
    ctx.count("empty:ndim=%d" % len(case["shape"]))
    nd = len(case["shape"])
    if case.get("rigid") and nd in (2, 3) and np.dtype(case["dtype"]).kind == "f" and all(n >= 2 for n in case["shape"]):
        rot = np.eye(nd)
        k = case["rigid"]
        if k == "flip":
            rot[0, 0] = -1
        elif k == "rot90":
            rot[:2, :2] = [[0, -1], [1, 0]]
        try:
            tr = np.array(case.get("shift", [0] * nd), dtype=np.float64)
            r = d.rigid_transform(rotation_matrix=rot, translation=tr, order=int(case.get("order", 1)),
                                  use_geometric_center=bool(case.get("geometric", True)))
        except Exception as ex:  # noqa: BLE001    (interpolation is outside C15: counted)
            ctx.count("rigid:raised:" + type(ex).__name__)
            return impl
        got = {"shape": [int(x) for x in r.shape], "origin": _units(r.origin), "rate": _units(r.sampling_rate)}
        ctx.agree("rigid_transform(frame)", inp, got, {k2: m[k2] for k2 in ("shape", "origin", "rate")} if isinstance(m, dict) else m)
        ctx.spec("rigid_transform: extents, origin and sampling rate are those of the source", inp,
                 got == {k2: before[k2] for k2 in ("shape", "origin", "rate")}, got, key="rigid_transform:frame")
        ctx.spec("rigid_transform: source untouched, result is a new object with new buffers", inp,
                 r is not d and not any(_shares(r, d)) and _state(d, case) == before and bool(np.array_equal(raw, old)),
                 key="rigid_transform:source")
        ctx.count("rigid:" + k)
    ctx.distinct(("empty", case["shape"], case.get("dtype"), case.get("layout"), case.get("rigid")))
    return impl


@_guard
def case_com(ctx, case):
    """Density.center_of_mass (static) against the exact fractions of the model; covariance under adjust_box."""
    from tme import Density
    inp = {"kind": "com", **case}
    d, raw = _mk(case)
    cutoff = case.get("cutoff")
    half = bool(case.get("half"))
    rc = None if cutoff is None else _thr_real(case, cutoff, half)
    logical = np.array(case["data"], dtype=np.int64).reshape(case["shape"])
    old = np.array(raw).astype(raw.dtype.newbyteorder("=")) if raw.size else np.array(raw)
    eps = float(np.finfo(np.float32).eps)

    def grid(w, ax):
        return np.arange(w.shape[ax]).reshape([-1 if t == ax else 1 for t in range(w.ndim)])

    def exact(ids):
        w = ids if cutoff is None else np.where(ids > cutoff, ids, 0)
        nums = [int((w * grid(w, ax)).sum()) for ax in range(w.ndim)]
        absw = [int((np.abs(w) * grid(w, ax)).sum()) for ax in range(w.ndim)]
        return nums, int(w.sum()), absw, int(np.abs(w).sum())

    def close(real, nums, den, absw, sumabs, n):
        real = np.asarray(real, dtype=np.float64).reshape(-1)
        if real.size != len(nums):
            return False
        for x, num, aw in zip(real, nums, absw):
            want = num / den
            tol = 8 * (n + 4) * eps * (aw / abs(den) + abs(want) * sumabs / abs(den)) + 1e-30
            if not (np.isfinite(x) and abs(x - want) <= tol):
                return False
        return True

    def one(dd, tag, box=None):
        arr = dd.data
        try:
            if case.get("via_instance"):
                real = dd.center_of_mass(arr, rc)
            elif rc is None and case.get("omit_cutoff"):
                real = Density.center_of_mass(arr)
            else:
                real = Density.center_of_mass(arr, rc)
        except ValueError:
            real = "err:ValueError"
        args = dict(_margs(case), cutoff=cutoff)
        if box is not None:
            args.update(box=box, pad=0)
        m = ctx.driver.call("c15.com", **args)
        if isinstance(real, str) or isinstance(m, str):       # no voxels and no cut-off: numpy's min raises
            ctx.agree(f"center_of_mass{tag}(raises)", inp, real if isinstance(real, str) else "returns", m if isinstance(m, str) else "returns")
            ctx.count("com:raises")
            return None
        ids = np.round(np.asarray(_inv(case, arr))).astype(np.int64)
        nums, den, absw, sumabs = exact(ids)
        ok_model = isinstance(m, dict) and m["num"] == nums and m["den"] == den
        ctx.agree(f"center_of_mass{tag}: the model's fractions are the exact sums over the real array", inp,
                  {"num": nums, "den": den}, {"num": m["num"], "den": m["den"]} if isinstance(m, dict) else m)
        if den == 0 or not ok_model:
            ctx.count("com:den=0")
            return None
        ok_close = close(real, nums, den, absw, sumabs, arr.size)
        ctx.agree(f"center_of_mass{tag} (within rounding of the exact fraction)", inp,
                  "close" if ok_close else [float(x) for x in np.asarray(real).reshape(-1)], "close")
        # the clause itself, from the values of the real array only (no Lean model involved)
        ctx.spec("center_of_mass: sum(w*i)/sum(w) with w = value where value > cut-off, else 0 (all values without a cut-off)", inp,
                 ok_close, {"got": [float(x) for x in np.asarray(real).reshape(-1)], "num": nums, "den": den}, key="center_of_mass:value")
        return m

    m0 = one(d, "")
    ctx.spec("center_of_mass: the array is left as it was", inp, bool(np.array_equal(raw, old)), key="center_of_mass:source")
    ctx.count("com:cutoff:" + ("none" if cutoff is None else "between" if half else "tie"))
    ctx.count("com:ndim=%d" % len(case["shape"]))
    ctx.count("dtype:" + str(case.get("dtype")))
    if case.get("box") is not None and m0 is not None:
        box = case["box"]
        d.adjust_box(_box_arg(case, box))               # library default pad value 0: weighs nothing
        m1 = one(d, " after adjust_box", box=box)
        w = logical if cutoff is None else np.where(logical > cutoff, logical, 0)
        inside = all(all(b[0] <= int(x) < b[1] for x, b in zip(p, box)) for p in np.argwhere(w != 0))
        if m1 is not None and inside and all(b[1] >= 0 for b in box):
            # property clause, in exact integers: den * (origin' + com' * rate) == den * (origin + com * rate) on every axis
            ok = m1["den"] == m0["den"] and all(
                o1 * m1["den"] + n1 * r1 == o0 * m0["den"] + n0 * r0 and r1 == r0
                for o1, n1, r1, o0, n0, r0 in zip(_units(d.origin), m1["num"], _units(d.sampling_rate), m0["origin"], m0["num"], m0["rate"]))
            ctx.spec("center_of_mass: a box operation that keeps every weighing voxel leaves the physical centre of mass where it was",
                     inp, ok, {"before": m0, "after": m1, "origin": _units(d.origin)}, key="center_of_mass:physical")
            ctx.count("com:box:covariant")
        else:
            ctx.count("com:box:cuts-mass")
    ctx.distinct(("com", case["shape"], case["data"], cutoff, case.get("box")))


@_guard
def case_remap(ctx, case):
    """to_memmap / to_numpy: only the place where the data live changes."""
    inp = {"kind": "remap", **case}
    d, raw = _mk(case, metadata={"k": [1, 2, 3]})
    if d.data.size == 0:
        return
    before = _state(d, case)

    class _Old:
        pass

    def step(name):
        was_mm = isinstance(d.data, np.memmap)
        if name == "to_numpy" and was_mm and getattr(d.data, "filename", None) is None:
            return                                     # (numpy.memmap without a file: outside C15, see apply_real)
        o = _Old()
        o.data, o.origin, o.sampling_rate, o.metadata = d.data, d.origin, d.sampling_rate, d.metadata
        ret = getattr(d, name)()
        if name == "to_memmap" and not was_mm and isinstance(d.data, np.memmap):
            _FILES.append(str(d.data.filename))
            _close_leaked(d.data.filename)
        noop = was_mm if name == "to_memmap" else not was_mm
        same_data = d.data is o.data
        if not same_data and not was_mm and not isinstance(d.data, np.memmap):
            same_data = bool(np.shares_memory(d.data, o.data))
        sh = [same_data, d.origin is o.origin, d.sampling_rate is o.sampling_rate, d.metadata is o.metadata]
        ctx.agree(f"alias({name}{'_noop' if noop else ''})", inp, sh,
                  ctx.driver.call("c15.alias", which=name + ("_noop" if noop else "")))
        ctx.spec(f"{name}: returns nothing; shape, values, origin, sampling rate and metadata are what they were", inp,
                 ret is None and _state(d, case) == before and d.metadata == {"k": [1, 2, 3]}
                 and isinstance(d.data, np.memmap) == (name == "to_memmap"), key=f"{name}:content")
        ctx.count(f"remap:{name}:" + ("noop" if noop else "moved"))

    for name in case.get("seq", ["to_memmap", "to_memmap", "to_numpy", "to_numpy"]):
        step(name)
    ctx.distinct(("remap", case["shape"], case.get("dtype"), case.get("layout"), tuple(case.get("seq", []))))


@_guard
def case_core(ctx, case):
    """Density.core_mask(): iterated binary erosion; the mask is aligned with the data and moves with a zero-padding box."""
    inp = {"kind": "core", **case}
    d, raw = _mk(case)
    old = np.array(raw).astype(raw.dtype.newbyteorder("=")) if raw.size else np.array(raw)
    before = _state(d, case)
    logical = np.array(case["data"], dtype=np.int64).reshape(case["shape"])
    cm = d.core_mask()
    impl = {"shape": [int(x) for x in cm.shape], "data": _ints(cm)}
    m = ctx.driver.call("c15.coreMask", **_margs(case))
    ctx.agree("core_mask", inp, impl, m)
    cmi = np.asarray(cm)
    ctx.spec("core_mask: has the extents of the data and is positive exactly where the data are", inp,
             tuple(cmi.shape) == tuple(logical.shape) and bool(np.array_equal(cmi > 0, logical > 0)), impl, key="core_mask:support")
    ctx.spec("core_mask: density and caller's array untouched, result is a new array", inp,
             _state(d, case) == before and bool(np.array_equal(raw, old)) and not np.shares_memory(cm, d.data), key="core_mask:source")
    ctx.count("core:ndim=%d" % len(case["shape"]))
    ctx.count("core:max=%d" % min(int(cmi.max(initial=0)), 4))
    if case.get("box") is not None:
        box = case["box"]
        d.adjust_box(_box_arg(case, box))               # zero padding
        cm2 = np.asarray(d.core_mask())
        m2 = ctx.driver.call("c15.coreMask", **_margs(case), box=box, pad=0)
        ctx.agree("core_mask after adjust_box", inp, {"shape": [int(x) for x in cm2.shape], "data": _ints(cm2)}, m2)
        if all(b[0] <= 0 and b[1] >= n for b, n in zip(box, case["shape"])):
            # a box that only adds zeros: the mask is the old mask at the same physical coordinates, zero elsewhere
            sl = tuple(slice(-b[0], -b[0] + n) for b, n in zip(box, case["shape"]))
            rest = cm2.copy(); rest[sl] = 0
            ctx.spec("core_mask: zero padding moves the mask with the data (same value at the same physical coordinate)", inp,
                     bool(np.array_equal(cm2[sl], cmi)) and not np.any(rest), key="core_mask:physical")
            ctx.count("core:box:extend")
    ctx.distinct(("core", case["shape"], case["data"], case.get("box")))
    return impl


@_guard
def case_setter(ctx, case):
    """the origin / sampling_rate setters of an existing object: np.repeat and no size test (the constructor has one)."""
    from tme import Density
    nd, xs = case["ndim"], case["xs"]          # xs in units of 1/Q
    inp = {"kind": "setter", **case}
    vals = [x / Q for x in xs]
    m = ctx.driver.call("c15.setter", ndim=nd, xs=xs)
    ctor = ctx.driver.call("c15.broadcast", ndim=nd, xs=xs)
    for which in ("origin", "sampling_rate"):
        d = Density(np.zeros((2,) * nd, np.float32), origin=[1.0] * nd, sampling_rate=[2.0] * nd)
        arg = {"list": list(vals), "tuple": tuple(vals), "array": np.array(vals, dtype=np.float64)}[case.get("form", "list")]
        if case.get("scalar") and len(vals) == 1:
            arg = vals[0]
        try:
            setattr(d, which, arg)
            r = _units(getattr(d, which))
        except ZeroDivisionError:
            r = "err:ZeroDivisionError"
        except Exception as e:  # noqa: BLE001
            r = "raised:" + type(e).__name__
        ctx.agree(f"setter ({which})", inp, r, m)
        if not isinstance(ctor, str):       # whatever the constructor accepts, the setter stores the same per-axis values
            ctx.spec("setters: an argument the constructor accepts is stored as the constructor stores it (one entry per axis)", inp,
                     r == ctor and len(r) == nd, {which: r, "constructor": ctor}, key="setter:value")
        other = "sampling_rate" if which == "origin" else "origin"
        ctx.spec("setters: the other per-axis attribute and the data are left alone", inp,
                 _units(getattr(d, other)) == [Q * (2 if which == "origin" else 1)] * nd and d.shape == (2,) * nd, key="setter:other")
    ctx.count("setter:" + ("refused" if isinstance(m, str) else "consistent" if len(m) == nd else "stored-with-wrong-length"))
    ctx.distinct(("setter", nd, len(xs), case.get("form"), bool(case.get("scalar"))))


# ----------------------------------------------------------------------------------------------
def _obligations(ctx):
    """Constants the model / history ops assume, read from the source on every run."""
    from tme import Density
    sig = inspect.signature
    p = sig(Density.pad).parameters
    ctx.obligation("defaults:pad(center=True, padding_value=0)", p["center"].default is True and p["padding_value"].default == 0,
                   {k: repr(v.default) for k, v in p.items()})
    a = sig(Density.adjust_box).parameters
    ctx.obligation("defaults:adjust_box(pad_kwargs={}) -> numpy constant 0", a["pad_kwargs"].default == {} and
                   sig(np.pad).parameters["mode"].default == "constant", repr(a["pad_kwargs"].default))
    t = sig(Density.trim_box).parameters
    ctx.obligation("defaults:trim_box(margin=0)", t["margin"].default == 0, repr(t["margin"].default))
    r = sig(Density.resample).parameters
    ctx.obligation("defaults:resample(method='spline', order=1)", r["method"].default == "spline" and r["order"].default == 1,
                   {k: repr(v.default) for k, v in r.items()})
    m = sig(Density.minimum_enclosing_box).parameters
    c = sig(Density.centered).parameters
    ctx.obligation("defaults:minimum_enclosing_box(use_geometric_center=False), centered(cutoff=0)",
                   m["use_geometric_center"].default is False and c["cutoff"].default == 0, None)
    ctx.obligation("default pad value 0 really is what numpy.pad writes", bool(np.array_equal(np.pad(np.ones(1), (1, 1)), [0, 1, 0])), None)


def _gen_trim_case(rng, **kw):
    case = gen_density(rng, **kw)
    data = np.array(case["data"])
    r = rng.random()
    if r < 0.6:
        cutoff = int(rng.choice(data))
    elif r < 0.8:
        cutoff = int(data.min()) - 1
    elif r < 0.9:
        cutoff = int(data.max())          # raises
    else:
        cutoff = int(rng.integers(-4, data.size + 2))
    margin = int(rng.choice([0, 0, 1, 2, 3, -1])) if rng.random() < 0.9 else int(rng.integers(-3, 9))
    case.update(cutoff=cutoff, margin=margin, default_margin=bool(margin == 0 and rng.random() < 0.3),
                half=bool(rng.random() < 0.3), cutform=str(rng.choice(["py", "py", "f4", "f8"])),
                marginform=str(rng.choice(["py", "np64"])), kwform=bool(rng.random() < 0.2))
    return case


def _gen_resample_case(rng, exact):
    nd = int(rng.choice([1, 2, 3]))
    shape = [int(x) for x in rng.integers(1, {1: 24, 2: 10, 3: 6}[nd] + 1, size=nd)]
    if exact:
        old = [float(rng.integers(1, 25)) / 4 for _ in range(nd)]
        k = rng.integers(-3, 3, size=nd)
        new = [float(o * (2.0 ** int(kk))) for o, kk in zip(old, k)]
        if rng.random() < 0.3:      # integer down-sampling factors
            new = [float(o * int(rng.integers(1, 5))) for o in old]
            # o/(o*f) = 1/f exactly representable only for powers of two; keep those, others go to the inexact stream
            exact = all(Fraction(o) / Fraction(nw) == Fraction(float(o / nw)) for o, nw in zip(old, new))
    else:
        old = [float(rng.integers(1, 60)) / 10 for _ in range(nd)]
        new = [float(rng.integers(1, 60)) / 10 for _ in range(nd)]
    iso = rng.random() < 0.2
    if iso:
        new = [new[0]] * nd
        exact = exact and all(Fraction(o) / Fraction(nw) == Fraction(float(o / nw)) for o, nw in zip(old, new))
    exact = bool(exact and all(Fraction(o) / Fraction(nw) == Fraction(float(o / nw)) for o, nw in zip(old, new)))
    if rng.random() < 0.25:      # whole-number rates (integer-typed rate arrays / python ints become possible)
        old = [float(rng.integers(1, 7)) for _ in range(nd)]
        new = [float(rng.integers(1, 7)) for _ in range(nd)] if not iso else [float(rng.integers(1, 7))] * nd
        exact = bool(all(Fraction(o) / Fraction(nw) == Fraction(float(o / nw)) for o, nw in zip(old, new)))
    return {"shape": shape, "origin": [int(x) for x in rng.integers(-40, 41, size=nd)], "old": old, "new": new,
            "method": str(rng.choice(["spline", "fourier"])), "order": int(rng.choice([0, 1, 3])),
            "scalar_new": bool(iso), "exact": exact, "dataseed": int(rng.integers(0, 1000)),
            "dtype": str(rng.choice(["float32", "float64", "int32"])),
            "layout": str(rng.choice(LAYOUTS)) if rng.random() < 0.4 else "C",
            "oldform": str(rng.choice(["f8", "f8", "f4", "i8", "list", "scalar"])),
            "newform": str(rng.choice(["scalar", "iscalar", "f4scalar"] if iso else ["tuple", "tuple", "list", "array", "f4", "i8"])),
            "okind": str(rng.choice(["f8", "tuple", "i8"])), "positional": bool(rng.random() < 0.15),
            "default_method": bool(rng.random() < 0.3)}


def run(ctx):
    import warnings
    warnings.filterwarnings("ignore")
    d = ctx.driver
    _obligations(ctx)

    # ---- corpus (minimised past disagreements) first
    import glob, json, os
    from pv import env
    for f in sorted(glob.glob(os.path.join(env.VERIF, "corpus", "C15_*.json"))):
        rec = json.load(open(f))
        _dispatch(ctx, rec.get("input", rec))
        ctx.count("corpus")

    # ---- per-axis plan, exhaustive (the arithmetic core of adjust_box): n, start, stop
    rng = ctx.rng("axis")
    B = ctx.budget(6, 9)
    for n in range(0, B + 1):
        if n == 0:
            continue
        reqs, keep = [], []
        for s in range(-n - 3, n + 4):
            for e in range(-n - 2, n + 5):
                case = {"shape": [n], "data": list(range(1, n + 1)), "mode": "perm", "origin": [int(rng.integers(-40, 41))],
                        "rate": [int(rng.integers(1, 17))], "dtype": "float32", "box": [[s, e]], "pad": -1,
                        "boxform": ["tuple", "list", "np64", "np32"][(s + e) % 4]}
                _vary(case, len(keep) + n)
                keep.append(case)
                reqs.append(("c15.adjustBox", {**_margs(case), "box": case["box"], "pad": -1}))
        for case, m in zip(keep, d.batch(reqs)):
            case_adjust(ctx, case, m)
    ctx.sample({"op": "adjust_box", "case": {k: keep[3][k] for k in ("shape", "box", "origin", "rate")}})

    # ---- adjust_box, random n-D
    rng = ctx.rng("adjust")
    N = ctx.budget(2500, 20000)
    keep, reqs = [], []
    for i in range(N):
        case = gen_density(rng)
        case["box"] = gen_box(rng, case["shape"], quirk=(i % 12 == 0))
        case["default_pad"] = bool(rng.random() < 0.15)
        case["pad"] = 0 if case["default_pad"] else _pad_for(rng, case)
        case["boxform"] = str(rng.choice(["tuple", "tuple", "list", "np64", "np32"]))
        case["padform"] = str(rng.choice(["kw", "kw", "mode", "positional"]))
        if case.get("offset"):
            case["default_pad"] = False      # the library's default pad value 0 is not the image of an id under this map
        keep.append(case)
        reqs.append(("c15.adjustBox", {**_margs(case), "box": case["box"], "pad": case["pad"]}))
    out = None
    for case, m in zip(keep, d.batch(reqs)):
        out = case_adjust(ctx, case, m)
    ctx.sample({"op": "adjust_box", "shape": keep[-1]["shape"], "box": keep[-1]["box"], "origin/8": keep[-1]["origin"],
                "rate/8": keep[-1]["rate"], "result": {k: v for k, v in (out or {}).items() if k != "data"} if isinstance(out, dict) else out})
    # malformed: rank mismatch must raise
    for i in range(ctx.budget(20, 100)):
        case = gen_density(rng, nd=int(rng.choice([2, 3])))
        k = len(case["shape"]) + int(rng.choice([-1, 1]))
        case["box"] = [[0, 2]] * k
        case["pad"] = 0
        case_adjust(ctx, case, "err:ValueError")
        ctx.count("adjust:malformed-rank")

    # ---- pad: exhaustive 1-D (n, new, centre) + random n-D
    rng = ctx.rng("pad")
    P = ctx.budget(9, 14)
    keep, reqs = [], []
    for n in range(1, P + 1):
        for new in range(0, P + 4):
            for center in (True, False):
                case = {"shape": [n], "data": list(range(1, n + 1)), "mode": "perm", "origin": [int(rng.integers(-40, 41))],
                        "rate": [int(rng.integers(1, 17))], "dtype": "float32", "newshape": [new], "center": center,
                        "pad": int(rng.choice([0, -1])), "default_args": bool(rng.random() < 0.3)}
                _vary(case, len(keep))
                keep.append(case)
    for i in range(ctx.budget(1500, 12000)):
        case = gen_density(rng)
        case["newshape"] = [int(max(0, n + rng.integers(-n, 7))) for n in case["shape"]]
        case["center"] = bool(rng.random() < 0.65)
        case["pad"] = _pad_for(rng, case)
        case["default_args"] = bool(rng.random() < 0.3)
        case["nsform"] = str(rng.choice(["tuple", "tuple", "list", "np64", "np32", "tuple64"]))
        case["centerform"] = str(rng.choice(["bool", "bool", "npbool", "int"]))
        case["positional"] = bool(rng.random() < 0.2)
        keep.append(case)
    reqs = [("c15.pad", {**_margs(c), "newshape": c["newshape"], "center": c["center"], "pad": c["pad"]}) for c in keep]
    for case, m in zip(keep, d.batch(reqs)):
        out = case_pad(ctx, case, m)
    ctx.sample({"op": "pad", "shape": keep[-1]["shape"], "new_shape": keep[-1]["newshape"], "center": keep[-1]["center"],
                "result_origin/8": out["origin"] if isinstance(out, dict) else out})
    for i in range(ctx.budget(10, 50)):
        case = gen_density(rng, nd=2)
        case.update(newshape=[3] * int(rng.choice([1, 3])), center=True, pad=0)
        case_pad(ctx, case, "err:ValueError")
        ctx.count("pad:malformed-rank")

    # ---- trim_box: exhaustive binary 1-D patterns + small 2-D patterns + random
    rng = ctx.rng("trim")
    keep = []
    for n in range(1, ctx.budget(6, 8) + 1):
        for bits in itertools.product([0, 1], repeat=n):
            for margin in (0, 1):
                keep.append(_vary({"shape": [n], "data": list(bits), "mode": "dup", "origin": [3], "rate": [5], "dtype": "float32",
                                   "cutoff": 0, "margin": margin, "half": bool(len(keep) % 3 == 1)}, len(keep)))
    for bits in itertools.product([0, 1], repeat=6):
        for shape in ([2, 3], [3, 2]):
            keep.append(_vary({"shape": shape, "data": list(bits), "mode": "dup", "origin": [3, -2], "rate": [5, 2], "dtype": "float64",
                               "cutoff": 0, "margin": 0, "half": bool(len(keep) % 3 == 1)}, len(keep)))
    for i in range(ctx.budget(1500, 12000)):
        keep.append(_gen_trim_case(rng))
    reqs = [("c15.trimBox", {**_margs(c), "cutoff": c["cutoff"], "margin": c["margin"]}) for c in keep]
    for case, m in zip(keep, d.batch(reqs)):
        out = case_trim(ctx, case, m)
    ctx.sample({"op": "trim_box", "shape": keep[-1]["shape"], "cutoff": keep[-1]["cutoff"], "margin": keep[-1]["margin"], "box": out})

    # ---- minimum_enclosing_box / centered
    rng = ctx.rng("mebox")
    for i in range(ctx.budget(250, 2500)):
        case = gen_density(rng, nd=int(rng.choice([1, 2, 3])), mode="blob", dtypes=["float32", "float64"])
        if case.get("offset") or case.get("scale", 1) <= 0:     # zero must stay zero (centre of mass, interpolation)
            case.pop("scale", None); case.pop("offset", None)
        case["cutoff"] = int(rng.choice([0, 0, 1, 2]))
        case["geometric"] = bool(len(case["shape"]) >= 2 and rng.random() < 0.2)
        case_mebox(ctx, case)

    # ---- resample
    rng = ctx.rng("resample")
    for i in range(ctx.budget(600, 6000)):
        out = case_resample(ctx, _gen_resample_case(rng, exact=(i % 2 == 0)))
    # exhaustive exact 1-D: every n, every power-of-two ratio (ties at every odd n)
    for n in range(1, ctx.budget(17, 40)):
        for k in (-2, -1, 0, 1, 2, 3):
            for method in ("spline", "fourier"):
                case_resample(ctx, {"shape": [n], "origin": [5], "old": [1.5], "new": [1.5 * 2.0 ** k], "method": method,
                                    "order": 1, "exact": True, "scalar_new": bool(n % 2)})
    # the docstring example
    case_resample(ctx, {"shape": [11, 11], "origin": [0, 0], "old": [2.0, 2.0], "new": [4.0, 1.0], "method": "spline", "order": 3,
                        "exact": True})

    # ---- per-axis arguments (origin / sampling_rate / new_sampling_rate): every rank x every length 0-4
    for nd in (1, 2, 3):
        for k in range(0, 5):
            case_broadcast(ctx, {"ndim": nd, "xs": [8 * (i + 1) for i in range(k)]})
            case_broadcast(ctx, {"ndim": nd, "xs": [4 * (k - i) + 2 for i in range(k)]})

    # ---- copies
    rng = ctx.rng("alias")
    for i in range(ctx.budget(100, 800)):
        case = gen_density(rng)
        case["to_memmap"] = bool(i % 2 == 0)
        case_alias(ctx, case)

    # ---- histories
    rng = ctx.rng("history")
    last = None
    for i in range(ctx.budget(1000, 10000)):
        case = gen_density(rng, mode="perm" if rng.random() < 0.85 else None)
        case["ops"] = gen_history(rng, case, int(rng.integers(2, ctx.budget(8, 12) + 1)))
        case_history(ctx, case)
        last = case
    ctx.sample({"op": "history", "shape": last["shape"], "ops": last["ops"][:4]})

    # ---- arbitrary float coordinates (tolerance)
    rng = ctx.rng("float")
    for i in range(ctx.budget(200, 2000)):
        base = gen_density(rng, mode="perm")
        nd = len(base["shape"])
        om, rm = float(rng.choice([1.0, 1.0, 1e3, 1e6, 1e-3])), float(rng.choice([1.0, 1.0, 1e-3, 1e3]))
        case = {"shape": base["shape"], "forigin": [float(x) * om for x in rng.normal(0, 50, size=nd)],
                "frate": [float(x) * rm for x in rng.uniform(0.3, 9.0, size=nd)], "layout": base["layout"],
                "dtype": str(rng.choice(["float32", "float64", "int32"])),
                "ops": [o for o in gen_history(rng, {**base, "scale": 1, "offset": 0}, int(rng.integers(1, 6))) if o["op"] != "trim"]}
        case_float(ctx, case)
    if os.environ.get("PV_C15_SELFTEST_SEARCH"):     # builder's self-test: the widened stream of search() on this tree
        search(ctx)

    # ---- larger extents (clauses on the real outputs only)
    rng = ctx.rng("big")
    for i in range(ctx.budget(150, 1200)):
        case_big(ctx, _gen_big(rng))
    for i in range(ctx.budget(1, 4)):
        for nd in (1, 2, 3):
            for op in ("adjust", "pad", "trim"):
                case_big(ctx, _gen_big(rng, huge=nd, op=op))

    # ---- histories containing resampling (bookkeeping only)
    rng = ctx.rng("rehistory")
    for i in range(ctx.budget(250, 2500)):
        case_rehistory(ctx, _gen_rehistory(rng, int(rng.integers(2, 7))))

    # ---- deepen3: to_pointcloud (alone and after a box operation)
    rng = ctx.rng("cloud")
    for n in range(1, ctx.budget(5, 7) + 1):           # every binary 1-D pattern x a few boxes
        for bits in itertools.product([0, 1], repeat=n):
            for bi, box in enumerate(([[-1, n + 1]], [[1, n]], [[0, max(n - 1, 0)]], None)):
                case = _vary({"shape": [n], "data": list(bits), "mode": "dup", "origin": [-13], "rate": [5], "dtype": "float32",
                              "thr": 0, "half": bool((n + bi) % 2), "box": box, "pad": 0}, n + bi)
                case_cloud(ctx, case)
    for i in range(ctx.budget(900, 8000)):
        case = gen_density(rng)
        n = len(case["data"])
        if case["mode"] == "dup":
            case["thr"] = int(rng.integers(-3, 5))
        elif case["mode"] == "blob":
            case["thr"] = int(rng.choice([0, 0, 1, max(1, n // 2)]))
        else:
            case["thr"] = int(rng.integers(0, n + 1))
        case["half"] = bool(rng.random() < 0.4)
        if case.get("dtype") in UDTYPES:
            case["half"] = False
            case["thr"] = max(case["thr"], 0)
        case["default_thr"] = bool(case["thr"] == 0 and not case["half"] and not case.get("offset") and rng.random() < 0.5)
        case["kwform"] = bool(rng.random() < 0.3)
        case["np_thr"] = bool(rng.random() < 0.3)
        if rng.random() < 0.7:
            case["box"] = gen_box(rng, case["shape"], quirk=(i % 15 == 0))
            case["boxform"] = str(rng.choice(["tuple", "list", "np64"]))
            lo = 0 if case.get("dtype") in UDTYPES else -5
            case["pad"] = int(rng.integers(lo, case["thr"] + 1)) if case["thr"] >= lo and rng.random() < 0.85 else case["thr"] + 1
            if case.get("dtype") in UDTYPES:
                case["pad"] = min(max(case["pad"], 0), 1)
        else:
            case["box"] = None
            case["pad"] = 0
        case_cloud(ctx, case)

    # ---- deepen3: empty / rigid_transform bookkeeping
    rng = ctx.rng("empty")
    for i in range(ctx.budget(300, 2500)):
        case = gen_density(rng)
        if i % 3 == 0:
            case = gen_density(rng, nd=int(rng.choice([2, 3])), dtypes=["float32", "float64"])
            case["shape"] = [max(2, n) for n in case["shape"]]
            nvox = int(np.prod(case["shape"]))
            case["data"] = [int(x) for x in rng.integers(0, 9, size=nvox)]
            case["mode"] = "dup"
            case.pop("scale", None); case.pop("offset", None)
            case["rigid"] = str(rng.choice(["identity", "flip", "rot90"]))
            case["order"] = int(rng.choice([1, 1, 3]))
            case["geometric"] = bool(rng.random() < 0.7)
            case["shift"] = [int(x) for x in rng.integers(-1, 2, size=len(case["shape"]))]
        case_empty(ctx, case)

    # ---- deepen3: center_of_mass (exact fractions; covariance under adjust_box)
    rng = ctx.rng("com")
    for i in range(ctx.budget(900, 8000)):
        case = gen_density(rng, mode=str(rng.choice(["blob", "dup", "perm"], p=[0.5, 0.35, 0.15])),
                           dtypes=["float32", "float64", "int16", "int32", "int64"])
        if case.get("offset"):                       # the centre of mass is invariant under a scale, not under an offset
            case.pop("scale", None); case.pop("offset", None)
        n = len(case["data"])
        if rng.random() < 0.35:
            case["cutoff"] = None
        elif case["mode"] == "dup":
            case["cutoff"] = int(rng.integers(-3, 4))
        else:
            case["cutoff"] = int(rng.choice([0, 0, 1, 2, max(1, n // 3)]))
        case["half"] = bool(case["cutoff"] is not None and rng.random() < 0.4)
        case["omit_cutoff"] = bool(rng.random() < 0.5)
        case["via_instance"] = bool(rng.random() < 0.2)
        if rng.random() < 0.65:
            if rng.random() < 0.5:                    # a box that keeps everything (extend / identity): always covariant
                case["box"] = [[-int(rng.integers(0, 4)), int(m + rng.integers(0, 4))] for m in case["shape"]]
            else:
                case["box"] = gen_box(rng, case["shape"])
            case["boxform"] = str(rng.choice(["tuple", "list", "np64"]))
        else:
            case["box"] = None
        case_com(ctx, case)

    # ---- deepen3: to_memmap / to_numpy
    rng = ctx.rng("remap")
    for i in range(ctx.budget(80, 600)):
        case = gen_density(rng)
        k = int(rng.integers(2, 6))
        case["seq"] = [str(x) for x in rng.choice(["to_memmap", "to_numpy"], size=k)]
        case_remap(ctx, case)

    # ---- deepen3: core_mask (iterated erosion)
    rng = ctx.rng("core")
    for n in range(1, ctx.budget(6, 8) + 1):           # every binary 1-D pattern
        for bits in itertools.product([0, 1], repeat=n):
            case_core(ctx, _vary({"shape": [n], "data": list(bits), "mode": "dup", "origin": [-13], "rate": [5], "dtype": "float32",
                                  "box": [[-(n % 3), n + 1]] if sum(bits) % 2 else None}, n + sum(bits), maps=False))
    for i in range(ctx.budget(500, 4000)):
        case = gen_density(rng, maxext={1: 12, 2: 7, 3: 5}[1 + i % 3], nd=1 + i % 3, maps=False)
        nvox = len(case["data"])
        lo = 0 if case.get("dtype") in UDTYPES else -2
        hi = 2 if case.get("dtype") == "bool" else 6
        vals = rng.integers(lo, hi, size=nvox)
        dens = float(rng.choice([0.5, 0.8, 0.95, 1.0]))      # mostly filled, so that several erosion rounds happen
        vals = np.where(rng.random(nvox) < dens, np.maximum(vals, 1), np.minimum(vals, 0))
        case["data"] = [int(x) for x in vals]
        case["mode"] = "dup"
        if rng.random() < 0.5:
            case["box"] = [[-int(rng.integers(0, 3)), int(m + rng.integers(0, 3))] for m in case["shape"]]
        elif rng.random() < 0.3:
            case["box"] = gen_box(rng, case["shape"])
        else:
            case["box"] = None
        case_core(ctx, case)

    # ---- deepen3: the origin / sampling_rate setters of an existing object (every rank x every length 0-4 x forms)
    for nd in (1, 2, 3):
        for k in range(0, 5):
            for form in ("list", "tuple", "array"):
                case_setter(ctx, {"ndim": nd, "xs": [8 * (i + 1) - 24 for i in range(k)], "form": form})
                case_setter(ctx, {"ndim": nd, "xs": [4 * (k - i) + 2 for i in range(k)], "form": form, "scalar": True})


def _dispatch(ctx, inp):
    k = inp.get("kind")
    case = {a: b for a, b in inp.items() if a != "kind"}
    if k == "adjust":
        case_adjust(ctx, case)
    elif k == "pad":
        case_pad(ctx, case)
    elif k == "trim":
        case_trim(ctx, case)
    elif k == "mebox":
        case_mebox(ctx, case)
    elif k == "resample":
        case_resample(ctx, case)
    elif k == "alias":
        case_alias(ctx, case)
    elif k == "history":
        case_history(ctx, case)
    elif k == "float":
        case_float(ctx, case)
    elif k == "broadcast":
        case_broadcast(ctx, case)
    elif k == "big":
        case_big(ctx, case)
    elif k == "rehistory":
        case_rehistory(ctx, case)
    elif k == "cloud":
        case_cloud(ctx, case)
    elif k == "empty":
        case_empty(ctx, case)
    elif k == "com":
        case_com(ctx, case)
    elif k == "remap":
        case_remap(ctx, case)
    elif k == "core":
        case_core(ctx, case)
    elif k == "setter":
        case_setter(ctx, case)
    else:
        ctx.note("replay: unknown kind %r" % (k,))


def replay(ctx, rec):
    _dispatch(ctx, rec.get("input", {}))


def search(ctx):
    """Correspondence / an obligation broke but no clause failed in the main stream: widen.
    First the inputs on which the correspondence differed, then exhaustive small cases and longer histories."""
    import warnings
    warnings.filterwarnings("ignore")
    for dis in list(ctx.disagreements)[:50]:
        inp = dis.get("input") or {}
        if isinstance(inp, dict) and inp.get("kind"):
            try:
                _dispatch(ctx, inp)
            except Exception:  # noqa: BLE001
                pass
    rng = ctx.rng("search")
    # exhaustive 2-D boxes on a 3x4 array with anisotropic rates
    rngs = [range(-4, 6), range(0, 8)]
    base = {"shape": [3, 4], "data": list(range(1, 13)), "mode": "perm", "origin": [-9, 20], "rate": [3, 10], "dtype": "float64"}
    for s0, e0 in itertools.product(*rngs):
        for s1, e1 in ((-2, 3), (1, 6), (0, 4), (5, 7)):
            case_adjust(ctx, {**base, "box": [[s0, e0], [s1, e1]], "pad": -1})
            case_adjust(ctx, {**base, "box": [[s1, e1], [s0, e0]], "pad": -1, "shape": [4, 3]})
    for n in range(1, 12):
        for new in range(0, 16):
            for c in (True, False):
                case_pad(ctx, {"shape": [n, 2], "data": list(range(1, 2 * n + 1)), "mode": "perm", "origin": [1, 2], "rate": [3, 7],
                               "dtype": "float32", "newshape": [new, 3], "center": c, "pad": -1})
    for i in range(3000):
        case_trim(ctx, _gen_trim_case(rng))
    for i in range(1500):
        case_resample(ctx, _gen_resample_case(rng, exact=True))
    for i in range(300):
        case = gen_density(rng, mode="blob", nd=int(rng.choice([2, 3])), dtypes=["float32", "float64"])
        if case.get("offset"):
            case.pop("scale", None); case.pop("offset", None)
        case.update(cutoff=0, geometric=False)
        case_mebox(ctx, case)
    for i in range(100):
        case_alias(ctx, gen_density(rng))
    for i in range(2000):
        case = gen_density(rng, mode="perm")
        case["ops"] = gen_history(rng, case, int(rng.integers(2, 16)))
        case_history(ctx, case)
    for i in range(150):
        case_big(ctx, _gen_big(rng))
    for i in range(400):
        case_rehistory(ctx, _gen_rehistory(rng, int(rng.integers(2, 9))))
    # deepen3 operations: exhaustive small binary patterns (2-D) and random cases
    for bits in itertools.product([0, 1], repeat=6):
        for shape in ([2, 3], [3, 2], [6]):
            base = {"shape": shape, "data": list(bits), "mode": "dup", "origin": [3, -2][:len(shape)], "rate": [5, 2][:len(shape)],
                    "dtype": "float64"}
            case_cloud(ctx, {**base, "thr": 0, "box": [[-1, n + 1] for n in shape], "pad": 0})
            case_com(ctx, {**base, "cutoff": 0, "box": [[-1, n + 2] for n in shape]})
            case_com(ctx, {**base, "cutoff": None, "box": None})
            case_core(ctx, {**base, "box": [[-1, n + 1] for n in shape]})
            case_empty(ctx, dict(base))
    for i in range(300):
        case = gen_density(rng, dtypes=["float32", "float64", "int32"], maps=False)
        case_cloud(ctx, {**case, "thr": int(rng.integers(-1, 4)), "box": gen_box(rng, case["shape"]), "pad": -5})
        case_com(ctx, {**case, "cutoff": int(rng.integers(-2, 4)), "box": None})
        case_remap(ctx, {**case, "seq": ["to_memmap", "to_numpy", "to_numpy", "to_memmap", "to_memmap"]})
