"""C04 — aggregation over rotations equals the element-wise maximum, also after merging.

Leg B.  The real `tme.analyzer.MaxScoreOverRotations` (from the repo under test) is driven with
generated submission histories, post-processing frames, tilings with overlapping offsets (merged in
several orders and groupings) and real concurrent submitter processes; its outputs are compared
with the Lean model (Model/C04.lean, through the driver) and every clause of the property is
evaluated on the implementation's outputs with an independent numpy oracle.

Score values travel to the model as ranks (an order isomorphism of the finitely many float32
values of a case); rotation keys are the hex of `rotation_matrix.tobytes()`.
"""
import glob
import json
import os
import queue as _queue
import time
import traceback

import numpy as np

ID = "C04"
RULE = ("histories: random (shape 1-3 D, threshold, rotation pool with repeats, float32 values drawn from a small pool so "
        "ties are frequent, all-negative / all-below-threshold / +-inf variants), thread-safe and plain analyzers; "
        "post-processing frames (roll + crop); tilings of 2-5 overlapping boxes merged in original, permuted and grouped "
        "order and compared with one analyzer fed everything; 2 and 4 real processes submitting to one shared analyzer. "
        "distinct = distinct (kind, shape, threshold-rank, history signature) tuples; histories that never improve a voxel, "
        "single-voxel arrays and empty histories are run but not counted")
ASSUMPTIONS = [
    "float scores are NaN-free float32 (the backend's score dtype); the model sees their ranks, which preserves > and =",
    "merge is called with the score_threshold the stores were built with (different thresholds are outside the property)",
    "a rotation is identified with the bytes of its matrix (as the code does): 0.0 and -0.0 entries are different rotations",
    "real multi-process runs can only show the interleavings the OS produces; the read->write window is widened from the "
    "input side (an ndarray subclass that sleeps after a comparison) so that a missing lock loses updates visibly",
]
TRUSTED = ["C04: multiprocessing.Manager lock/dict proxies and POSIX shared memory are exercised, not modelled; the lock is "
           "modelled as mutual exclusion of the read-modify-write steps"]


# ----------------------------------------------------------------------------------------------
# helpers

def _f32(x):
    return np.asarray(x, dtype=np.float32)


def _hex(m):
    return np.ascontiguousarray(m).tobytes().hex()


def _rot_pool(rng, nd, n):
    """n distinct rotation matrices (as the code sees them: byte strings), incl. near-duplicates."""
    from scipy.spatial.transform import Rotation
    pool = []
    base = np.eye(nd)
    pool.append(base.astype(np.float64))
    neg = base.copy()
    neg[neg == 0] = -0.0           # same matrix numerically, different bytes
    pool.append(neg.astype(np.float64))
    pool.append(base.astype(np.float32))
    while len(pool) < n + 3:
        if nd == 3:
            m = Rotation.random(random_state=int(rng.integers(1 << 30))).as_matrix()
        elif nd == 2:
            a = float(rng.uniform(0, 2 * np.pi))
            m = np.array([[np.cos(a), -np.sin(a)], [np.sin(a), np.cos(a)]])
        else:
            m = np.array([[float(rng.choice([1.0, -1.0])) * (1 + len(pool) * 1e-3)]])
        pool.append(m.astype(np.float32 if rng.random() < 0.5 else np.float64))
    idx = rng.permutation(len(pool))[:n]
    return [pool[i] for i in idx]


def _value_pool(rng, style):
    if style == "neg":
        base = -np.abs(rng.normal(size=6)) - 0.1
    elif style == "pos":
        base = np.abs(rng.normal(size=6)) + 0.1
    elif style == "ints":
        base = rng.integers(-3, 4, size=6).astype(float)
    elif style == "wide":
        base = rng.normal(size=40) * 10.0 ** rng.integers(-3, 4)
    elif style == "inf":
        base = np.concatenate([rng.normal(size=4), [np.inf, -np.inf]])
    else:
        base = rng.normal(size=6)
    return _f32(base)


def gen_history(rng, wide=False, nd=None, shape=None, min_len=0, p_ts=0.3):
    nd = nd or int(rng.integers(1, 4))
    if shape is None:
        hi = 9 if wide else 5
        shape = [int(x) for x in rng.integers(1, hi, size=nd)]
    style = str(rng.choice(["mixed", "neg", "pos", "ints", "wide", "inf", "mixed", "ints"]))
    pool = _value_pool(rng, style)
    tk = str(rng.choice(["zero", "below", "above", "inside", "member", "member"]))
    fin = pool[np.isfinite(pool)]
    thr = {"zero": 0.0, "below": float(fin.min()) - 1.0, "above": float(fin.max()) + 1.0,
           "inside": float(np.median(fin)) + 1e-3, "member": float(rng.choice(fin))}[tk]
    thr = float(_f32(thr))
    nrot = int(rng.integers(1, 5))
    rots = _rot_pool(rng, nd, nrot)
    L = int(rng.integers(min_len, 13 if wide else 8))
    subs = []
    for _ in range(L):
        r = int(rng.integers(nrot))
        v = rng.choice(pool, size=int(np.prod(shape)))
        if subs and rng.random() < 0.2:
            v = np.array(subs[int(rng.integers(len(subs)))]["v"], dtype=np.float32)  # exact repeat -> all ties
        subs.append({"r": r, "v": [float(x) for x in v]})
    return {"kind": "history", "shape": shape, "thr": thr, "thr_kind": tk, "style": style,
            "rots": [{"dtype": str(m.dtype), "m": m.tolist()} for m in rots], "subs": subs,
            "thread_safe": bool(rng.random() < p_ts), "unique": bool(rng.random() < 0.5),
            "sub_dtype": "float64" if rng.random() < 0.15 else "float32"}


def _rot_arrays(case):
    return [np.array(r["m"], dtype=r["dtype"]) for r in case["rots"]]


def _ranker(values):
    u = sorted(set(float(x) for x in values))
    return {v: i for i, v in enumerate(u)}


def _rk(rank, arr):
    out = []
    for x in np.asarray(arr, dtype=np.float64).ravel().tolist():
        out.append(rank.get(x, "unranked:%r" % x))
    return out


def _table_list(tab):
    return [[k.hex() if isinstance(k, (bytes, bytearray)) else repr(k), int(v)] for k, v in tab.items()]


def _batch(ctx, reqs, limit=24000):
    """driver.batch pipelines a whole chunk before reading replies; with large payloads both pipes fill up and the
    two processes wait for each other.  Group requests so that one group stays well below the pipe capacity."""
    out, grp, tot = [], [], 0
    for r in reqs:
        n = len(json.dumps(r[1])) + 64
        if grp and tot + n > limit:
            out += ctx.driver.batch(grp)
            grp, tot = [], 0
        grp.append(r)
        tot += n
    if grp:
        out += ctx.driver.batch(grp)
    return out


class _Shm:
    """SharedMemoryManager whose blocks are released in bulk (the analyzer never unlinks its own)."""

    def __init__(self):
        from multiprocessing.managers import SharedMemoryManager
        self.m = SharedMemoryManager()
        self.m.start()
        self.n = 0

    def handler(self):
        self.n += 1
        if self.n % 400 == 0:
            self.recycle()
        return self.m

    def recycle(self):
        from multiprocessing.managers import SharedMemoryManager
        self.m.shutdown()
        self.m = SharedMemoryManager()
        self.m.start()

    def close(self):
        try:
            self.m.shutdown()
        except Exception:
            pass


def _new_analyzer(shape, thr, thread_safe, smh, offset=None, unique=False):
    from tme.analyzer import MaxScoreOverRotations
    kw = {}
    if unique:
        kw["only_unique_rotations"] = True      # what the scan passes; must not change the table for this backend
    if offset is not None:
        kw["offset"] = np.asarray(offset, dtype=int)
    return MaxScoreOverRotations(shape=tuple(shape), score_threshold=thr, thread_safe=thread_safe,
                                 shared_memory_handler=smh, **kw)


def _post_frame(rng, nd):
    """target / template shapes and the frame arithmetic the scan hands to `_postprocess`."""
    from tme.backends import backend as be
    n = [int(x) for x in rng.integers(2, 7, size=nd)]
    m = [int(min(a, b)) for a, b in zip(n, rng.integers(1, 6, size=nd))]
    conv, fast, _ = be.compute_convolution_shapes(n, m)
    conv, fast = [int(x) for x in conv], [int(x) for x in fast]
    mode = str(rng.choice(["same", "valid", "full", "none"]))
    sk = str(rng.choice(["real", "random", "none"]))
    if sk == "real":
        shift = [-((b - 1) // 2) for b in m]
    elif sk == "random":
        shift = [int(x) for x in rng.integers(-9, 10, size=nd)]
    else:
        shift = None
    return {"target": n, "template": m, "conv": conv, "fast": fast, "mode": mode, "shift": shift}


def _frame_crop(post):
    """independent statement of the crop (DESIGN Appendix A): (starts, extents) per axis"""
    n, m, conv, fast, mode = post["target"], post["template"], post["conv"], post["fast"], post["mode"]
    if mode == "none":
        return [0] * len(n), list(fast)
    if mode == "full":
        return [0] * len(n), list(conv)
    if mode == "same":
        return [(c - a) // 2 for c, a in zip(conv, n)], list(n)
    ext = [a - b + b % 2 for a, b in zip(n, m)]
    return [(c - e) // 2 for c, e in zip(conv, ext)], ext


# ----------------------------------------------------------------------------------------------
# the property's clauses, evaluated with numpy on what the implementation returned

def spec_store(ctx, tag, inp, thr, out_shape, subs_abs, sc, rt, tab, size=None):
    """subs_abs: list of (offset tuple, float32 ndarray, key bytes) in absolute coordinates.
    sc, rt: arrays returned by the implementation (shape must be out_shape); tab: dict bytes->int."""
    thr32 = np.float32(thr)
    ok_shape = tuple(sc.shape) == tuple(out_shape) and tuple(rt.shape) == tuple(out_shape)
    ctx.spec(f"{tag}: result has the aggregated volume's shape", inp, ok_shape,
             {"scores": list(sc.shape), "rotations": list(rt.shape), "want": list(out_shape)}, key=f"{tag}:shape", size=size)
    if not ok_shape:
        return False
    best = np.full(out_shape, thr32, dtype=np.float32)
    boxes = []
    for off, arr, key in subs_abs:
        box = tuple(slice(o, o + s) for o, s in zip(off, arr.shape))
        boxes.append(box)
        best[box] = np.maximum(best[box], arr)
    good = True
    bad = np.argwhere(~(sc == best))
    ok = bad.size == 0
    good &= ctx.spec(f"{tag}: every voxel holds the largest submitted value above the threshold, else the threshold",
                     inp, ok, None if ok else {"voxel": bad[0].tolist(), "got": float(sc[tuple(bad[0])]), "want": float(best[tuple(bad[0])])},
                     key=f"{tag}:max", size=size)
    # identifiers <-> rotations one to one, every submitted rotation has one
    vals = list(tab.values())
    keys_sub = {k for _, _, k in subs_abs}
    ok = len(set(vals)) == len(vals) and set(tab.keys()) == keys_sub
    good &= ctx.spec(f"{tag}: identifiers and submitted rotations are in one-to-one correspondence", inp, ok,
                     None if ok else {"ids": sorted(vals), "n_keys": len(tab), "n_submitted": len(keys_sub)}, key=f"{tag}:table", size=size)
    inv = {v: k for k, v in tab.items()}
    # rotation attains
    detail = None
    ok = True
    for r in np.unique(rt).tolist():
        if r == -1:
            continue
        mask = rt == r
        if r not in inv:
            ok, detail = False, {"identifier": r, "reason": "not in the table", "voxel": np.argwhere(mask)[0].tolist()}
            break
        hit = np.zeros(out_shape, bool)
        for (off, arr, key), box in zip(subs_abs, boxes):
            if key == inv[r]:
                hit[box] |= (arr == sc[box])
        if not np.all(hit[mask]):
            v = np.argwhere(mask & ~hit)[0]
            ok, detail = False, {"identifier": r, "voxel": v.tolist(), "value": float(sc[tuple(v)]),
                                 "reason": "no array submitted with that rotation holds this value here"}
            break
    good &= ctx.spec(f"{tag}: the stored identifier maps back to a rotation whose array attains the value", inp, ok, detail,
                     key=f"{tag}:rot-attains", size=size)
    improved = best > thr32
    bad = np.argwhere((rt == -1) != ~improved)
    ok = bad.size == 0
    good &= ctx.spec(f"{tag}: 'no rotation' marker exactly on the voxels never improved", inp, ok,
                     None if ok else {"voxel": bad[0].tolist(), "rot": int(rt[tuple(bad[0])]), "improved": bool(improved[tuple(bad[0])])},
                     key=f"{tag}:marker", size=size)
    return good


# ----------------------------------------------------------------------------------------------
# histories on one analyzer (+ optional post-processing)

def run_history_impl(case, smh):
    rots = _rot_arrays(case)
    an = _new_analyzer(case["shape"], case["thr"], case["thread_safe"], smh, unique=case.get("unique", False))
    dt = np.dtype(case.get("sub_dtype", "float32"))
    for s in case["subs"]:
        an(scores=np.array(s["v"], dtype=np.float32).reshape(case["shape"]).astype(dt), rotation_matrix=rots[s["r"]])
    post = case.get("post")
    if post:
        an._postprocess(targetshape=tuple(post["target"]), templateshape=tuple(post["template"]),
                        convolution_shape=tuple(post["conv"]),
                        fourier_shift=None if post["shift"] is None else tuple(post["shift"]),
                        convolution_mode=None if post["mode"] == "none" else post["mode"],
                        shared_memory_handler=smh, fast_shape=tuple(post["fast"]))
    return tuple(an)


def _history_req(case, rank):
    rots = _rot_arrays(case)
    hexes = [_hex(m) for m in rots]
    args = {"shape": case["shape"], "thr": rank[float(np.float32(case["thr"]))],
            "subs": [{"d": _rk(rank, _f32(s["v"])), "k": hexes[s["r"]]} for s in case["subs"]]}
    post = case.get("post")
    if post:
        starts, exts = _frame_crop(post)
        args["post"] = {"shift": post["shift"] or [0] * len(case["shape"]), "starts": starts, "exts": exts}
    return ("c04.run", args)


def _case_rank(case):
    vals = [float(np.float32(case["thr"]))]
    for s in case["subs"]:
        vals.extend(float(x) for x in _f32(s["v"]))
    return _ranker(vals)


def check_histories(ctx, cases, smh, do_agree=True):
    reqs, ranks = [], []
    for c in cases:
        rk = _case_rank(c)
        ranks.append(rk)
        reqs.append(_history_req(c, rk))
    models = _batch(ctx, reqs) if do_agree else [None] * len(cases)
    allgood = True
    for case, rank, model in zip(cases, ranks, models):
        tag = "postprocess" if case.get("post") else "aggregate"
        size = len(case["subs"]) * int(np.prod(case["shape"])) + len(case["shape"])
        try:
            sc, off, rt, tab = run_history_impl(case, smh.handler())
        except Exception as e:
            ctx.spec(f"{tag}: submissions are accepted", case, False, traceback.format_exc()[-1500:], key=f"{tag}:raised", size=size)
            allgood = False
            continue
        if do_agree and not case.get("post") and case["subs"] and tuple(sc.shape) == tuple(case["shape"]):
            # the max clause once more, through the Lean *spec* function (`specMax`, what the theorem is stated with)
            stack = np.stack([np.asarray(_rk(rank, _f32(s["v"]))) for s in case["subs"]], axis=1)
            want = ctx.driver.call("c04.specMax", thr=rank[float(np.float32(case["thr"]))], vals=stack.tolist())
            ctx.spec("aggregate: scores == Lean specMax of the submitted values", case, _rk(rank, sc) == want,
                     key="aggregate:max", size=size)
        if do_agree:
            impl = {"shape": list(sc.shape), "scores": _rk(rank, sc), "rots": [int(x) for x in rt.ravel()], "table": _table_list(tab)}
            allgood &= ctx.agree(f"{tag}: tuple(analyzer) == model run", case, impl, model)
            ok_off = np.array_equal(np.asarray(off), np.zeros(len(case["shape"]), int))
            allgood &= ctx.agree(f"{tag}: default offset is zero", case, bool(ok_off), True)
        rots = _rot_arrays(case)
        keys = [m.tobytes() for m in rots]
        post = case.get("post")
        subs_abs = []
        for s in case["subs"]:
            a = np.array(s["v"], dtype=np.float32).reshape(case["shape"])
            if post:
                if post["shift"] is not None:
                    a = np.roll(a, shift=tuple(post["shift"]), axis=tuple(range(a.ndim)))
                st, ex = _frame_crop(post)
                a = a[tuple(slice(x, x + e) for x, e in zip(st, ex))]
            subs_abs.append(((0,) * a.ndim, a, keys[s["r"]]))
        out_shape = tuple(case["shape"]) if not post else tuple(_frame_crop(post)[1])
        allgood &= spec_store(ctx, tag, case, case["thr"], out_shape, subs_abs, sc, rt, tab, size=size)
        # evidence bookkeeping
        L = len(case["subs"])
        nvox = int(np.prod(case["shape"]))
        improved = bool(np.any(rt != -1))
        ctx.count(f"{tag}:ndim={len(case['shape'])}")
        ctx.count(f"{tag}:thr={case.get('thr_kind', '?')}")
        ctx.count(f"{tag}:values={case.get('style', '?')}")
        ctx.count(f"{tag}:len={'0' if L == 0 else '1' if L == 1 else '2-4' if L < 5 else '5+'}")
        ctx.count(f"{tag}:thread_safe={case['thread_safe']}")
        ctx.count(f"{tag}:only_unique_rotations={case.get('unique', False)}")
        ctx.count(f"{tag}:rotation-repeated={len(set(s['r'] for s in case['subs'])) < L}")
        if L >= 2:
            stack = np.stack([_f32(s["v"]) for s in case["subs"]])
            mx = stack.max(axis=0)
            ctx.count(f"{tag}:tie-at-max={bool(np.any((stack == mx).sum(axis=0) > 1))}")
        ctx.count(f"{tag}:some-voxel-never-improved={bool(np.any(rt == -1))}")
        if post:
            ctx.count(f"postprocess:mode={post['mode']}")
            ctx.count(f"postprocess:shift={'none' if post['shift'] is None else 'given'}")
        if L >= 1 and nvox > 1 and improved:
            ctx.distinct((tag, case["shape"], rank[float(np.float32(case["thr"]))], [s["r"] for s in case["subs"]],
                          hash(tuple(tuple(s["v"]) for s in case["subs"])) & 0xFFFFFFFF, json.dumps(post)))
    return allgood


# ----------------------------------------------------------------------------------------------
# tilings and merge

def gen_tiling(rng, wide=False):
    nd = int(rng.integers(1, 4))
    G = [int(x) for x in rng.integers(2, 10 if wide else 7, size=nd)]
    style = str(rng.choice(["mixed", "neg", "ints", "ints", "pos"]))
    pool = _value_pool(rng, style)
    tk = str(rng.choice(["zero", "below", "above", "inside", "member"]))
    fin = pool[np.isfinite(pool)]
    thr = {"zero": 0.0, "below": float(fin.min()) - 1.0, "above": float(fin.max()) + 1.0,
           "inside": float(np.median(fin)) + 1e-3, "member": float(rng.choice(fin))}[tk]
    thr = float(_f32(thr))
    nrot = int(rng.integers(1, 6))
    rots = _rot_pool(rng, nd, nrot)
    ntiles = int(rng.choice([1, 2, 2, 3, 3, 4, 5]))
    layout = str(rng.choice(["random", "random", "same-box", "touching"]))
    tiles = []
    for t in range(ntiles):
        if layout == "same-box":
            off, shp = [0] * nd, list(G)
        else:
            off = [int(rng.integers(0, g)) for g in G]
            shp = [int(rng.integers(1, g - o + 1)) for g, o in zip(G, off)]
            if layout == "touching" and tiles:
                prev = tiles[-1]
                off = [min(po + ps, g - 1) if ax == 0 else po for ax, (po, ps, g) in enumerate(zip(prev["offset"], prev["shape"], G))]
                shp = [max(1, min(s, g - o)) for s, g, o in zip(shp, G, off)]
        L = int(rng.integers(0, 6))
        subs = [{"r": int(rng.integers(nrot)), "v": [float(x) for x in rng.choice(pool, size=int(np.prod(shp)))]} for _ in range(L)]
        tiles.append({"offset": off, "shape": shp, "subs": subs})
    return {"kind": "tiling", "thr": thr, "thr_kind": tk, "style": style, "layout": layout,
            "rots": [{"dtype": str(m.dtype), "m": m.tolist()} for m in rots], "tiles": tiles,
            "thread_safe": bool(rng.random() < 0.1), "use_memmap": bool(rng.random() < 0.1),
            "perm_seed": int(rng.integers(1 << 30))}


def _store_req(st, rank):
    sc, off, rt, tab = st
    return {"shape": list(sc.shape), "offset": [int(x) for x in off], "scores": _rk(rank, sc),
            "rots": [int(x) for x in rt.ravel()], "table": _table_list(tab)}


def _copy_store(st):
    return (np.array(st[0]), np.array(st[1]), np.array(st[2]), dict(st[3]))


def _merge_impl(stores, thr, use_memmap=False):
    from tme.analyzer import MaxScoreOverRotations
    from tme.matching_utils import array_to_memmap
    stores = [None if s is None else _copy_store(s) for s in stores]
    if use_memmap:
        conv = []
        for st in stores:
            if st is None:
                conv.append(None)
                continue
            sc, off, rt, tab = st
            fs, fr = array_to_memmap(sc), array_to_memmap(rt)
            conv.append((np.memmap(fs, mode="r", dtype=sc.dtype, shape=sc.shape), off,
                         np.memmap(fr, mode="r", dtype=rt.dtype, shape=rt.shape), tab))
            _merge_impl.tmpfiles += [fs, fr]
        stores = conv
    res = MaxScoreOverRotations.merge(stores, score_threshold=thr, use_memmap=use_memmap)
    if res is None:
        return None
    out = (np.array(res[0]), np.array(res[1]), np.array(res[2]), dict(res[3]))
    for a in (res[0], res[2]):
        if isinstance(a, np.memmap) and getattr(a, "filename", None):
            _merge_impl.tmpfiles.append(str(a.filename))
    return out


_merge_impl.tmpfiles = []


def _cleanup_tmpfiles():
    for f in _merge_impl.tmpfiles:
        try:
            os.remove(f)
        except OSError:
            pass
    _merge_impl.tmpfiles = []


def check_tilings(ctx, cases, smh, do_agree=True):
    allgood = True
    for case in cases:
        rots = _rot_arrays(case)
        keys = [m.tobytes() for m in rots]
        thr = case["thr"]
        vals = [float(np.float32(thr))]
        for t in case["tiles"]:
            for s in t["subs"]:
                vals.extend(float(x) for x in _f32(s["v"]))
        rank = _ranker(vals)
        size = sum(len(t["subs"]) * int(np.prod(t["shape"])) for t in case["tiles"]) + 10 * len(case["tiles"])
        nd = len(case["tiles"][0]["shape"])
        try:
            stores, subs_abs = [], []
            for t in case["tiles"]:
                an = _new_analyzer(t["shape"], thr, case["thread_safe"], smh.handler(), offset=t["offset"])
                for s in t["subs"]:
                    a = np.array(s["v"], dtype=np.float32).reshape(t["shape"])
                    an(scores=a, rotation_matrix=rots[s["r"]])
                    subs_abs.append((tuple(t["offset"]), a, keys[s["r"]]))
                stores.append(_copy_store(tuple(an)))
            out_shape = tuple(int(max(t["offset"][ax] + t["shape"][ax] for t in case["tiles"])) for ax in range(nd))
            variants = [("given-order", list(range(len(stores))), None)]
            prng = np.random.default_rng(case["perm_seed"])
            if len(stores) >= 2:
                variants.append(("permuted", [int(x) for x in prng.permutation(len(stores))], None))
                variants.append(("reversed", list(range(len(stores)))[::-1], None))
            if len(stores) >= 3:
                cut = int(prng.integers(1, len(stores)))
                variants.append(("grouped", [int(x) for x in prng.permutation(len(stores))], cut))
            # `None` entries (a job without result) are skipped by merge; -1 stands for None
            holes = list(range(len(stores)))
            for _ in range(int(prng.integers(1, 3))):
                holes.insert(int(prng.integers(0, len(holes) + 1)), -1)
            variants.append(("with-none", holes, None))
            results = {}
            def merge_agree(name, grp, order, cut, memmap=False):
                res = _merge_impl(grp, thr, memmap)
                if do_agree:
                    # the model merges exactly what the implementation was given
                    model = ctx.driver.call("c04.merge", thr=rank[float(np.float32(thr))],
                                            stores=[None if s is None else _store_req(s, rank) for s in grp])
                    ok = ctx.agree(f"merge({name}) == model merge", {"case": case, "order": order, "cut": cut}, _store_req(res, rank), model)
                    merge_agree.good &= ok
                return res
            merge_agree.good = True
            for name, order, cut in variants:
                ordered = [stores[i] if i >= 0 else None for i in order]
                if cut is None:
                    res = merge_agree(name, ordered, order, cut, case["use_memmap"] and len(ordered) > 1)
                else:
                    left = merge_agree(name + "/left", ordered[:cut], order, cut)
                    right = merge_agree(name + "/right", ordered[cut:], order, cut)
                    res = merge_agree(name + "/outer", [left, right], order, cut)
                results[name] = res
                allgood &= merge_agree.good
                if len(order) == 1:
                    # `merge` hands a single store back unchanged: judge it in its own frame
                    t = case["tiles"][0]
                    loc = [((0,) * nd, a, k) for (_, a, k) in subs_abs]
                    ok_off = [int(x) for x in res[1]] == [int(x) for x in t["offset"]]
                    ctx.spec("merge: a single partial result keeps its offset", case, ok_off, key="merge:single-offset", size=size)
                    allgood &= spec_store(ctx, "merge", {"case": case, "order": order, "cut": cut}, thr, tuple(t["shape"]), loc, res[0], res[2], res[3], size=size)
                else:
                    ok_off = not np.any(np.asarray(res[1]))
                    ctx.spec("merge: merged result sits at offset zero", case, ok_off, key="merge:offset", size=size)
                    allgood &= spec_store(ctx, "merge", {"case": case, "order": order, "cut": cut}, thr, out_shape, subs_abs, res[0], res[2], res[3], size=size)
                ctx.count(f"merge:variant={name}")
            # all orders / groupings give the same map
            ref = results["given-order"]
            for name, res in results.items():
                if len(stores) == 1:
                    continue        # single store: handed back in its own frame, nothing to permute
                same = res[0].shape == ref[0].shape and np.array_equal(res[0], ref[0])
                ctx.spec("merge: any order or grouping gives the same score map", {"case": case, "variant": name}, same,
                         key="merge:order-invariance", size=size)
                # the rotation *matrices* may differ only at ties; compared through spec_store above
            # one analyzer fed everything at once (partial arrays embedded with the threshold outside their box)
            if len(stores) >= 2:
                big = _new_analyzer(out_shape, thr, False, smh.handler())
                for (off, a, k), rix in zip(subs_abs, [s["r"] for t in case["tiles"] for s in t["subs"]]):
                    e = np.full(out_shape, np.float32(thr), dtype=np.float32)
                    e[tuple(slice(o, o + s) for o, s in zip(off, a.shape))] = a
                    big(scores=e, rotation_matrix=rots[rix])
                bsc, _, brt, btab = tuple(big)
                same = bsc.shape == ref[0].shape and np.array_equal(bsc, ref[0])
                ctx.spec("merge: equals aggregating everything at once", case, same,
                         None if same else {"shapes": [list(bsc.shape), list(ref[0].shape)]} if bsc.shape != ref[0].shape
                         else {"voxel": np.argwhere(bsc != ref[0])[0].tolist()}, key="merge:equals-at-once", size=size)
                if do_agree:
                    # in the given order the model proves more: identifiers and table coincide too
                    allgood &= ctx.agree("merge(given-order) rotations/table == single analyzer fed the concatenated history", case,
                                         {"rots": [int(x) for x in ref[2].ravel()] if ref[2].shape == brt.shape else "shape", "table": _table_list(ref[3])},
                                         {"rots": [int(x) for x in brt.ravel()], "table": _table_list(btab)})
        except Exception:
            ctx.spec("merge: partial results are accepted", case, False, traceback.format_exc()[-1500:], key="merge:raised", size=size)
            allgood = False
            continue
        finally:
            _cleanup_tmpfiles()
        ntl = len(case["tiles"])
        ctx.count(f"merge:tiles={ntl}")
        ctx.count(f"merge:ndim={nd}")
        ctx.count(f"merge:layout={case['layout']}")
        ctx.count(f"merge:thr={case['thr_kind']}")
        ctx.count(f"merge:use_memmap={case['use_memmap']}")
        cover = np.zeros(out_shape, int)
        for t in case["tiles"]:
            cover[tuple(slice(o, o + s) for o, s in zip(t["offset"], t["shape"]))] += 1
        ctx.count(f"merge:overlap={bool(np.any(cover > 1))}")
        ctx.count(f"merge:gap={bool(np.any(cover == 0))}")
        nonempty = sum(1 for t in case["tiles"] if t["subs"])
        if ntl >= 2 and nonempty >= 2 and int(np.prod(out_shape)) > 1:
            ctx.distinct(("merge", [(t["offset"], t["shape"], [s["r"] for s in t["subs"]]) for t in case["tiles"]],
                          rank[float(np.float32(thr))], hash(json.dumps(case["tiles"])) & 0xFFFFFFFF))
    return allgood


# ----------------------------------------------------------------------------------------------
# real processes submitting to one shared analyzer

class SlowArray(np.ndarray):
    """Behaves like its base array; a comparison involving it takes `delay` seconds longer.  Submitting such an
    array widens the window between the aggregator's read (`scores > max_scores`) and its writes, from the input
    side only: no line of the code under test is replaced."""
    delay = 0.0

    def __array_ufunc__(self, ufunc, method, *inputs, **kwargs):
        ins = tuple(np.asarray(x) if isinstance(x, SlowArray) else x for x in inputs)
        if "out" in kwargs:
            kwargs["out"] = tuple(np.asarray(x) if isinstance(x, SlowArray) else x for x in kwargs["out"])
        res = getattr(ufunc, method)(*ins, **kwargs)
        if ufunc in (np.greater, np.less, np.greater_equal, np.less_equal, np.maximum, np.fmax):
            time.sleep(SlowArray.delay)
        return res


def _worker_main(inq, outq):
    import numpy as _np
    from tme.backends import backend as _be  # noqa: F401  (same backend as the parent)
    while True:
        job = inq.get()
        if job is None:
            return
        try:
            analyzer, shape, subs, rots, delay, t_start = job
            arrays = []
            for v, r in subs:
                a = _np.array(v, dtype=_np.float32).reshape(shape)
                if delay > 0:
                    a = a.view(SlowArray)
                arrays.append((a, rots[r]))
            SlowArray.delay = delay
            while time.time() < t_start:
                pass
            for a, m in arrays:
                analyzer(scores=a, rotation_matrix=m)
            outq.put(("ok", len(arrays)))
        except Exception:
            outq.put(("err", traceback.format_exc()[-1500:]))


class _Pool:
    def __init__(self, n):
        import multiprocessing as mp
        self.ctx = mp.get_context("spawn")
        self.workers = []
        for _ in range(n):
            inq, outq = self.ctx.Queue(), self.ctx.Queue()
            p = self.ctx.Process(target=_worker_main, args=(inq, outq), daemon=True)
            p.start()
            self.workers.append((p, inq, outq))

    def run(self, jobs, timeout=180):
        """jobs: one per worker used.  Returns list of ('ok'|'err'|'timeout', info)."""
        for (p, inq, outq), job in zip(self.workers, jobs):
            inq.put(job)
        out = []
        for (p, inq, outq), _ in zip(self.workers, jobs):
            try:
                out.append(outq.get(timeout=timeout))
            except _queue.Empty:
                out.append(("timeout", None))
        return out

    def close(self):
        for p, inq, outq in self.workers:
            try:
                inq.put(None)
            except Exception:
                pass
        for p, inq, outq in self.workers:
            p.join(timeout=5)
            if p.is_alive():
                p.kill()


def gen_concurrent(rng, nproc, slow):
    nd = int(rng.integers(1, 4))
    hi = {1: 513, 2: 33, 3: 11}[nd]
    shape = [int(x) for x in (rng.integers(3, 9, size=nd) if slow else rng.integers(max(4, hi // 4), hi, size=nd))]
    nrot = int(rng.integers(2, 7)) if slow else int(rng.integers(6, 40))
    rots = _rot_pool(rng, nd, nrot)
    nvox = int(np.prod(shape))
    rounds = int(rng.integers(3, 7)) if slow else int(rng.integers(20, 50))
    thr = float(_f32(rng.choice([0.0, -5.0, 2.5])))
    work = []
    for p in range(nproc):
        subs = []
        for j in range(rounds):
            # rising trend + noise: most voxels improve on every submission, the per-voxel winner is spread
            # over processes and rounds, so an overwritten update is not repaired later
            v = _f32(np.round(rng.normal(size=nvox) * 3 + j * 1.5, 1))
            subs.append({"r": int(rng.integers(nrot)), "v": [float(x) for x in v]})
        work.append(subs)
    return {"kind": "concurrent", "shape": shape, "thr": thr, "nproc": nproc, "delay": 0.004 if slow else 0.0,
            "rots": [{"dtype": str(m.dtype), "m": m.tolist()} for m in rots], "work": work}


def check_concurrent(ctx, cases, smh, pool, do_agree=True):
    allgood = True
    for case in cases:
        rots = _rot_arrays(case)
        keys = [m.tobytes() for m in rots]
        shape, thr = case["shape"], case["thr"]
        size = sum(len(w) for w in case["work"]) * int(np.prod(shape))
        an = _new_analyzer(shape, thr, True, smh.handler())
        t_start = time.time() + 0.15
        jobs = [(an, shape, [(s["v"], s["r"]) for s in w], rots, case["delay"], t_start) for w in case["work"]]
        res = pool.run(jobs)
        if any(r[0] == "timeout" for r in res):
            # infrastructure, not a verdict (same convention as pv.main's alarm handler)
            print(f"TIMEOUT property={ID} (concurrent submitter processes did not answer; infrastructure, not a verdict)", flush=True)
            for p, _, _ in pool.workers:
                try:
                    p.kill()
                except Exception:
                    pass
            smh.close()
            os._exit(2)
        errs = [r[1] for r in res if r[0] == "err"]
        small = {k: v for k, v in case.items() if k != "work"}
        small["work"] = case["work"]
        if errs:
            ctx.spec("concurrent: submissions are accepted", small, False, errs[0], key="concurrent:raised", size=size)
            allgood = False
            continue
        sc, off, rt, tab = tuple(an)
        subs_abs = [((0,) * len(shape), np.array(s["v"], dtype=np.float32).reshape(shape), keys[s["r"]])
                    for w in case["work"] for s in w]
        good = spec_store(ctx, "concurrent", small, thr, tuple(shape), subs_abs, sc, rt, tab, size=size)
        allgood &= good
        if do_agree:
            vals = [float(np.float32(thr))] + [float(x) for w in case["work"] for s in w for x in _f32(s["v"])]
            rank = _ranker(vals)
            hexes = [_hex(m) for m in rots]
            model = ctx.driver.call("c04.run", shape=shape, thr=rank[float(np.float32(thr))],
                                    subs=[{"d": _rk(rank, _f32(s["v"])), "k": hexes[s["r"]]} for w in case["work"] for s in w])
            # order-free part of the model's prediction: the score map, the set of keys, the identifier range
            impl = {"scores": _rk(rank, sc), "keys": sorted(k.hex() for k in tab), "ids": sorted(int(v) for v in tab.values())}
            mdl = {"scores": model["scores"], "keys": sorted(k for k, _ in model["table"]), "ids": sorted(v for _, v in model["table"])}
            allgood &= ctx.agree("concurrent: shared analyzer == model (any serial order)", small, impl, mdl)
        ctx.count(f"concurrent:nproc={case['nproc']}")
        ctx.count(f"concurrent:widened-window={case['delay'] > 0}")
        ns = sum(len(w) for w in case["work"])
        ctx.count("concurrent:submissions=" + ("<=30" if ns <= 30 else "31-100" if ns <= 100 else ">100"))
        ctx.distinct(("concurrent", case["nproc"], shape, case["delay"], hash(json.dumps(case["work"])) & 0xFFFFFFFF))
    return allgood


def check_model_schedules(ctx, rng, n):
    """The step model itself: with the lock every schedule ends in the order-free result; without it some
    schedules lose an update (counted, this is what a removed lock looks like).  Model only."""
    lost = 0
    for _ in range(n):
        nproc = int(rng.integers(2, 5))
        shape = [int(rng.integers(1, 4))]
        work = []
        for p in range(nproc):
            work.append([{"d": [int(x) for x in rng.integers(0, 6, size=shape[0])], "k": "r%d" % int(rng.integers(3))}
                         for _ in range(int(rng.integers(1, 4)))])
        steps = sum(len(w) for w in work) * 5
        sched = [int(x) for x in rng.integers(0, nproc, size=steps * nproc * 3)]
        serial = ctx.driver.call("c04.run", shape=shape, thr=0, subs=[s for w in work for s in w])
        for lock in (True, False):
            r = ctx.driver.call("c04.interleave", shape=shape, thr=0, lock=lock, work=work, sched=sched)
            if not r["done"]:
                ctx.count("model-schedule:unfinished")
                continue
            same = r["state"]["scores"] == serial["scores"]
            if lock:
                ctx.agree("model: locked schedule == serial score map", {"work": work, "sched": sched}, same, True)
                ctx.count("model-schedule:locked")
            else:
                lost += (not same)
                ctx.count("model-schedule:unlocked")
    ctx.count("model-schedule:unlocked-lost-update", lost)


# ----------------------------------------------------------------------------------------------
# obligations read from the source under test

def extract(ctx):
    import inspect
    import ast
    from tme.analyzer import MaxScoreOverRotations
    from tme.backends import backend as be
    an = MaxScoreOverRotations(shape=(2,), thread_safe=False)
    ctx.obligation("numpy backend takes the lock path (model = `submit` with setdefault)", an.lock_is_nullcontext is False,
                   {"lock_is_nullcontext": an.lock_is_nullcontext})
    sc, off, rt, tab = tuple(an)
    ctx.obligation("fresh analyzer: threshold default 0, marker -1, empty table (model `init`)",
                   bool(np.all(sc == 0)) and bool(np.all(rt == -1)) and tab == {} and sc.dtype == np.float32 and rt.dtype.kind == "i",
                   {"scores": sc.tolist(), "rots": rt.tolist(), "dtypes": [str(sc.dtype), str(rt.dtype)]})
    try:
        for shm in (an.scores[0], an.rotations[0]):
            shm.close()
            shm.unlink()
    except Exception:
        pass
    import textwrap
    src = inspect.getsource(MaxScoreOverRotations.__call__)
    tree = ast.parse(textwrap.dedent(src))
    withs = [n for n in ast.walk(tree) if isinstance(n, ast.With)]
    uses_lock = any(isinstance(i.context_expr, ast.Attribute) and i.context_expr.attr == "lock" for w in withs for i in w.items)
    ctx.obligation("`__call__` performs its read-modify-write inside `with self.lock` (step model: lock = mutual exclusion)",
                   uses_lock, {"with_statements": len(withs)})
    sig = inspect.signature(MaxScoreOverRotations.__init__)
    ctx.obligation("constructor defaults: score_threshold=0, thread_safe=True",
                   sig.parameters["score_threshold"].default == 0 and sig.parameters["thread_safe"].default is True,
                   {k: repr(v.default) for k, v in sig.parameters.items() if k in ("score_threshold", "thread_safe")})
    ctx.obligation("backend integer / float dtypes are int32 / float32 (identifiers fit, ranks are exact)",
                   be._int_dtype is np.int32 and be._float_dtype is np.float32, {"int": str(be._int_dtype), "float": str(be._float_dtype)})


# ----------------------------------------------------------------------------------------------

def _shm_listing():
    return set(os.path.basename(p) for p in glob.glob("/dev/shm/psm_*"))


def run(ctx):
    from pv import env as _env
    os.environ["TMPDIR"] = _env.scratch()      # memmap-backed merges put their files here
    rng = ctx.rng("main")
    smh = _Shm()
    pool = None
    try:
        # corpus first
        here = os.path.dirname(os.path.dirname(os.path.dirname(os.path.dirname(os.path.abspath(__file__)))))
        for f in sorted(glob.glob(os.path.join(here, "corpus", "C04_*.json"))):
            rec = json.load(open(f))
            _dispatch(ctx, rec["input"] if "input" in rec else rec, smh, None)
            ctx.count("corpus")

        # 1. histories
        n_hist = ctx.budget(400, 10000)
        cases = [gen_history(rng, p_ts=ctx.budget(0.3, 0.12)) for _ in range(n_hist)]
        # deliberate corner cases
        for nd in (1, 2, 3):
            c = gen_history(rng, nd=nd, min_len=2)
            c["subs"] = [c["subs"][0], dict(c["subs"][0])]         # identical arrays, possibly different rotation
            cases.append(c)
        for i in range(0, len(cases), 500):
            check_histories(ctx, cases[i:i + 500], smh)
        ctx.sample({k: v for k, v in cases[0].items()})

        # 2. post-processing frames
        n_post = ctx.budget(120, 2500)
        pcs = []
        prng = ctx.rng("post")
        for _ in range(n_post):
            nd = int(prng.integers(1, 4))
            post = _post_frame(prng, nd)
            if any(e <= 0 for e in _frame_crop(post)[1]):
                ctx.count("postprocess:empty-frame-skipped")
                continue
            c = gen_history(prng, nd=nd, shape=post["fast"], min_len=1)
            c["subs"] = c["subs"][:4]
            c["post"] = post
            c["thread_safe"] = False
            pcs.append(c)
        for i in range(0, len(pcs), 500):
            check_histories(ctx, pcs[i:i + 500], smh)

        # 3. tilings / merge
        n_til = ctx.budget(150, 3000)
        trng = ctx.rng("tiling")
        tcs = [gen_tiling(trng) for _ in range(n_til)]
        check_tilings(ctx, tcs, smh)
        ctx.sample({"kind": "tiling", "tiles": [{"offset": t["offset"], "shape": t["shape"], "n_subs": len(t["subs"])} for t in tcs[0]["tiles"]],
                    "thr": tcs[0]["thr"]})

        # 4. model-only schedules (sanity of the step model; the theorem covers all schedules)
        check_model_schedules(ctx, ctx.rng("sched"), ctx.budget(40, 400))

        # 5. real processes
        crng = ctx.rng("concurrent")
        pool = _Pool(4)
        ccs = []
        for i in range(ctx.budget(8, 60)):
            nproc = 2 if i % 2 == 0 else 4
            ccs.append(gen_concurrent(crng, nproc, slow=(i % 4 != 3)))
        check_concurrent(ctx, ccs, smh, pool)
        ctx.sample({"kind": "concurrent", "nproc": ccs[0]["nproc"], "shape": ccs[0]["shape"], "rounds": len(ccs[0]["work"][0]),
                    "delay_s": ccs[0]["delay"]})
    finally:
        if pool:
            pool.close()
        smh.close()


def _dispatch(ctx, case, smh, pool, do_agree=True):
    kind = case.get("kind")
    if kind is None and "case" in case:
        case = case["case"]
        kind = case.get("kind")
    if kind == "history":
        return check_histories(ctx, [case], smh, do_agree)
    if kind == "tiling":
        return check_tilings(ctx, [case], smh, do_agree)
    if kind == "concurrent":
        own = pool is None
        pool = pool or _Pool(case["nproc"])
        try:
            return check_concurrent(ctx, [case], smh, pool, do_agree)
        finally:
            if own:
                pool.close()
    raise ValueError("unknown case kind %r" % kind)


def search(ctx):
    """Correspondence or an obligation broke without a failing clause so far: widen the generators
    (larger shapes, longer histories, more tiles, more concurrent rounds) and evaluate the property only."""
    smh = _Shm()
    pool = None
    try:
        rng = ctx.rng("search")
        # first: the disagreeing inputs themselves, clause by clause (already done in run); then wider streams
        n = ctx.budget(600, 4000)
        check_histories(ctx, [gen_history(rng, wide=True, min_len=2) for _ in range(n)], smh, do_agree=False)
        pcs = []
        for _ in range(n // 3):
            nd = int(rng.integers(1, 4))
            post = _post_frame(rng, nd)
            if any(e <= 0 for e in _frame_crop(post)[1]):
                continue
            c = gen_history(rng, nd=nd, shape=post["fast"], min_len=1)
            c["subs"] = c["subs"][:4]
            c["post"] = post
            c["thread_safe"] = False
            pcs.append(c)
        check_histories(ctx, pcs, smh, do_agree=False)
        check_tilings(ctx, [gen_tiling(rng, wide=True) for _ in range(n // 2)], smh, do_agree=False)
        if not ctx.spec_failures:
            pool = _Pool(4)
            ccs = [gen_concurrent(rng, 2 + 2 * (i % 2), slow=True) for i in range(ctx.budget(12, 40))]
            check_concurrent(ctx, ccs, smh, pool, do_agree=False)
        ctx.note("search: widened generators evaluated on the implementation (spec only)")
    finally:
        if pool:
            pool.close()
        smh.close()


def replay(ctx, rec):
    smh = _Shm()
    try:
        inp = rec.get("input", rec)
        _dispatch(ctx, inp, smh, None)
    finally:
        smh.close()
