"""C04 — aggregation over rotations equals the element-wise maximum, also after merging.

Leg B.  The real `tme.analyzer.MaxScoreOverRotations` (from the repo under test) is driven with
generated submission histories, post-processing frames, tilings with overlapping offsets (merged in
several orders and groupings) and real concurrent submitter processes; its outputs are compared
with the Lean model (Model/C04.lean, through the driver) and every clause of the property is
evaluated on the implementation's outputs with an independent numpy oracle.

Score values travel to the model as ranks (an order isomorphism of the finitely many float32
values of a case); rotation keys are the hex of `rotation_matrix.tobytes()`.
"""
import glob
import json
import os
import queue as _queue
import time
import traceback

import numpy as np

ID = "C04"
RULE = ("histories: random (shape 1-4 D incl. >10 000 voxels, threshold incl. 0 / -inf / +inf / a submitted value and spelled as float, "
        "int, numpy scalar or left to the default, rotation pool with repeats and one-ulp neighbours, float32 values drawn from a small "
        "pool so ties are frequent: all-negative / all-below-threshold / +-inf / neighbouring floats at 1e-30..1e30 / large mean / +-0), "
        "submitted as float16/32/64 or int8..64 arrays in C / Fortran / strided / reversed / offset / axis-permuted / read-only / memmap "
        "layout with rotation matrices in C / Fortran / strided / read-only layout; thread-safe and plain analyzers set up from a shape "
        "(tuple / list / ndarray) or from prepared arrays, with / without shared_memory_handler, use_memmap, scan's extra keywords; "
        "tuple(analyzer) also read after prefixes; 140-520 and 33 500 / 70 000 different rotations; "
        "post-processing frames (roll + crop, shift as tuple / ndarray); tilings of 1-5 overlapping boxes (stores as tuples / lists in "
        "several layouts, int16/32/64 offsets, analyzers fed one after the other or in turns, >255 rotations, memmap path end to end) merged "
        "in original, permuted, reversed and grouped order, with None entries, and compared with one analyzer fed everything; 2, 3 and 4 "
        "real processes submitting to one shared analyzer (even / (k,1,0) / one-each splits, thread_safe given or default, the parent "
        "submitting before and after). "
        "second layer: histories on a stand-in backend with unshared arrays (path without a lock; only_unique_rotations with every rotation "
        "once / with a repeated rotation), the class docstring's read-back of a rotation at every voxel, analyzers handing memory maps to "
        "merge(use_memmap=True) with None entries (files watched), merge with a threshold above / below the stores' own thresholds, "
        "MemmapHandler on real files (whole file / box, float32 / float64 / int32, unknown rotation). "
        "distinct = distinct (kind, shape, threshold-rank, history signature) tuples; histories that never improve a voxel, "
        "single-voxel arrays and empty histories are run but not counted")
ASSUMPTIONS = [
    "second layer: the backends with unshared arrays (cupy / jax / mlx) are represented by the numpy backend with `to_sharedarr` / "
    "`from_sharedarr` replaced by the identity, which is what those backends define; on the only_unique_rotations path tuple(analyzer) is "
    "read once; MemmapHandler is fed integer-valued arrays (exact in every dtype used) whose box lies inside the file",
    "float scores are NaN-free float32 (the backend's score dtype); the model sees their ranks, which preserves > and =",
    "values submitted as float64 / float16 / integer arrays are exactly representable in float32; no subnormal numbers (the "
    "extension module is built with -ffast-math, which may flush them in this process); thresholds are float32-representable",
    "merge is called with the score_threshold the stores were built with (different thresholds are outside the property)",
    "a rotation is identified with the bytes of its matrix (as the code does): 0.0 and -0.0 entries are different rotations",
    "real multi-process runs can only show the interleavings the OS produces; the read->write window is widened from the "
    "input side (an ndarray subclass that sleeps after a comparison) so that a missing lock loses updates visibly",
]
TRUSTED = ["C04: multiprocessing.Manager lock/dict proxies and POSIX shared memory are exercised, not modelled; the lock is "
           "modelled as mutual exclusion of the read-modify-write steps"]


# ----------------------------------------------------------------------------------------------
# helpers

def _f32(x):
    return np.asarray(x, dtype=np.float32)


def _hex(m):
    return np.ascontiguousarray(m).tobytes().hex()


def _rot_pool(rng, nd, n):
    """n distinct rotation matrices (as the code sees them: byte strings), incl. near-duplicates: the identity in
    float64 / float32 / with negative zeros, and pairs that differ in one unit of the last place of one entry (the
    first or the last one), which any shortened or rounded key would merge."""
    from scipy.spatial.transform import Rotation
    pool = []
    base = np.eye(nd)
    pool.append(base.astype(np.float64))
    neg = base.copy()
    neg[neg == 0] = -0.0           # same matrix numerically, different bytes
    pool.append(neg.astype(np.float64))
    pool.append(base.astype(np.float32))
    while len(pool) < n + 3:
        if pool and len(pool) > 3 and rng.random() < 0.2:
            m = np.array(pool[int(rng.integers(3, len(pool)))])      # neighbour of an earlier one: one entry moved by one ulp
            pos = (0,) * 2 if rng.random() < 0.5 else (m.shape[0] - 1,) * 2
            m[pos] = np.nextafter(m[pos], m.dtype.type(4.0))
            if not any(x.dtype == m.dtype and x.tobytes() == m.tobytes() for x in pool):
                pool.append(m)
                continue
        if nd == 3:
            m = Rotation.random(random_state=int(rng.integers(1 << 30))).as_matrix()
        elif nd == 2:
            a = float(rng.uniform(0, 2 * np.pi))
            m = np.array([[np.cos(a), -np.sin(a)], [np.sin(a), np.cos(a)]])
        elif nd == 1:
            m = np.array([[float(rng.choice([1.0, -1.0])) * (1 + len(pool) * 1e-3)]])
        else:
            m = np.linalg.qr(rng.normal(size=(nd, nd)))[0]
        pool.append(m.astype(np.float32 if rng.random() < 0.5 else np.float64))
    idx = rng.permutation(len(pool))[:n]
    return [pool[i] for i in idx]


_F32_MAX = float(np.finfo(np.float32).max)


def _value_pool(rng, style):
    if style == "neg":
        base = -np.abs(rng.normal(size=6)) - 0.1
    elif style == "pos":
        base = np.abs(rng.normal(size=6)) + 0.1
    elif style == "ints":
        base = rng.integers(-3, 4, size=6).astype(float)
    elif style == "wide":
        base = rng.normal(size=40) * 10.0 ** rng.integers(-3, 4)
    elif style == "inf":
        base = np.concatenate([rng.normal(size=4), [np.inf, -np.inf]])
    elif style == "ulp":
        # neighbouring float32 numbers around a base of any magnitude / sign: a comparison with a tolerance,
        # or one made in a narrower type, cannot tell them apart
        b = np.float32(rng.choice([1.0, -1.0, 1000.0, -1000.0, 1e-9, 0.1, 16777216.0, 3e4, 1e-30, 1e30]))
        vals = [b]
        for _ in range(3):
            vals.append(np.nextafter(vals[-1], np.float32(np.inf), dtype=np.float32))
        lo = b
        for _ in range(3):
            lo = np.nextafter(lo, np.float32(-np.inf), dtype=np.float32)
            vals.append(lo)
        return _f32(vals)
    elif style == "tiny":
        base = rng.normal(size=6) * 10.0 ** float(rng.choice([-9, -20, -30]))     # normal float32 numbers only (no subnormals)
    elif style == "huge":
        base = np.concatenate([rng.normal(size=4) * 1e30, [_F32_MAX, -_F32_MAX]])
    elif style == "offset":
        # small differences on top of a large mean of either sign
        base = float(rng.choice([1000.0, -1000.0, 65536.0])) + rng.integers(-4, 5, size=8) * 2.0 ** -6
    elif style == "zeros":
        base = np.array([0.0, -0.0, 1e-30, -1e-30, 1.0, -1.0])
    else:
        base = rng.normal(size=6)
    return _f32(base)


# memory layouts an array can reach the API in (same shape, dtype and elements; other strides / flags / backing)
LAYOUTS = ["C", "F", "strided", "reversed", "offset", "readonly", "axes", "memmap"]


def _junk(dt):
    dt = np.dtype(dt)
    return np.finfo(dt).max if dt.kind == "f" else np.iinfo(dt).max


def _layout(a, kind):
    """`a` element by element, laid out differently in memory; the surrounding buffer holds the largest number of
    the dtype, so that anything reading the raw buffer instead of the array wins visibly."""
    a = np.ascontiguousarray(a)
    if kind == "F":
        return np.asfortranarray(a)
    if kind == "strided":
        big = np.full(tuple(2 * s for s in a.shape), _junk(a.dtype), dtype=a.dtype)
        v = big[tuple(slice(None, None, 2) for _ in a.shape)]
        v[...] = a
        return v
    if kind == "reversed":
        rev = (slice(None, None, -1),) * a.ndim
        return a[rev].copy()[rev]
    if kind == "offset":
        big = np.full(tuple(s + 3 for s in a.shape), _junk(a.dtype), dtype=a.dtype)
        v = big[tuple(slice(1, 1 + s) for s in a.shape)]
        v[...] = a
        return v
    if kind == "readonly":
        b = a.copy()
        b.setflags(write=False)
        return b
    if kind == "axes" and a.ndim >= 2:
        return np.moveaxis(np.ascontiguousarray(np.moveaxis(a, 0, -1)), -1, 0)     # first axis varies fastest
    if kind == "memmap":
        from pv import env as _env
        _layout.n += 1
        fn = os.path.join(_env.scratch(), "c04_in_%d_%d.bin" % (os.getpid(), _layout.n))
        a.tofile(fn)
        _merge_impl.tmpfiles.append(fn)
        return np.memmap(fn, mode="r", dtype=a.dtype, shape=a.shape)
    return a


_layout.n = 0


def _pick_layout(rng, p_plain=0.55):
    return "C" if rng.random() < p_plain else str(rng.choice(LAYOUTS[1:], p=[0.22, 0.16, 0.14, 0.14, 0.14, 0.14, 0.06]))


_THR_KINDS = ["zero", "below", "above", "inside", "member", "member", "zero", "ninf", "pinf"]
_INT_SUB_DTYPES = ["float32", "float64", "float16", "int8", "int16", "int32", "int64"]
_ROT_LAYOUTS = ["C", "C", "C", "F", "strided", "readonly", "offset"]


def _pick_thr(rng, pool, kinds=_THR_KINDS):
    tk = str(rng.choice(kinds))
    fin = pool[np.isfinite(pool)]
    thr = {"zero": 0.0, "below": float(fin.min()) - 1.0, "above": float(fin.max()) + 1.0,
           "inside": float(np.median(fin)) + 1e-3, "member": float(rng.choice(fin)),
           "ninf": -np.inf, "pinf": np.inf}[tk]
    with np.errstate(over="ignore"):
        thr = float(_f32(thr))
    # how the caller spells the number: python float / int, numpy scalars, or not at all (the default, 0)
    opts = ["float", "float", "f32", "f64"]
    if np.isfinite(thr) and thr == int(thr) and abs(thr) < 2 ** 24:
        opts += ["int", "int"]
    if thr == 0.0:
        opts += ["default"] * 4
    return thr, tk, str(rng.choice(opts))


def _thr_value(thr, thr_type):
    return {"f32": np.float32, "f64": np.float64, "int": int}.get(thr_type, float)(thr)


def gen_history(rng, wide=False, nd=None, shape=None, min_len=0, p_ts=0.3, big=False, manyrot=0):
    nd = nd or int(rng.choice([1, 2, 3, 4], p=[0.3, 0.32, 0.3, 0.08]))
    if shape is None:
        hi = 9 if wide else 5
        shape = [int(x) for x in rng.integers(1, hi, size=nd)]
        if big:      # more than 10 000 voxels, extents that are neither equal nor round
            shape = {1: [10007], 2: [101, 103], 3: [23, 21, 22], 4: [11, 10, 9, 11]}[nd]
    style = str(rng.choice(["mixed", "neg", "pos", "ints", "wide", "inf", "mixed", "ints", "ulp", "ulp", "tiny", "huge", "offset", "zeros"]))
    pool = _value_pool(rng, style)
    thr, tk, thr_type = _pick_thr(rng, pool)
    nrot = manyrot or int(rng.integers(1, 5))
    rots = _rot_pool(rng, nd, nrot)
    L = manyrot or int(rng.integers(min_len, (5 if big else 13 if wide else 8)))
    nvox = int(np.prod(shape))
    subs = []
    for j in range(L):
        r = int(rng.integers(nrot))
        v = rng.choice(pool, size=nvox)
        if subs and rng.random() < 0.2 and not manyrot:
            v = np.array(subs[int(rng.integers(len(subs)))]["v"], dtype=np.float32)  # exact repeat -> all ties
        if manyrot:
            # every rotation once, in a random order of identifiers; a rising trend lets late identifiers win
            r = j
            v = _f32(rng.integers(-3, 4, size=nvox) + (j if rng.random() < 0.9 else 0))
        subs.append({"r": r, "v": [float(x) for x in v], "lay": _pick_layout(rng), "rlay": str(rng.choice(_ROT_LAYOUTS))})
    if style == "ints" or manyrot:
        sub_dtype = str(rng.choice(_INT_SUB_DTYPES)) if not manyrot else str(rng.choice(["float32", "int32", "float64"]))
    else:
        sub_dtype = "float64" if rng.random() < 0.3 else "float32"
    peeks = sorted(set(int(x) for x in rng.integers(0, L + 1, size=int(rng.integers(1, 3))))) if rng.random() < 0.3 else []
    return {"kind": "history", "shape": shape, "thr": thr, "thr_kind": tk, "thr_type": thr_type, "style": style,
            "rots": [{"dtype": str(m.dtype), "m": m.tolist()} for m in rots], "subs": subs,
            "thread_safe": bool(rng.random() < p_ts), "unique": bool(rng.random() < 0.5),
            "sub_dtype": sub_dtype,
            # how the analyzer is set up: shape as tuple / list / ndarray, or prepared arrays handed in
            "init": str(rng.choice(["tuple", "tuple", "tuple", "list", "array", "scores", "scores", "scores+rotations"])),
            "init_lay": _pick_layout(rng, 0.3),
            "managed": bool(rng.random() < 0.9),          # False: no shared_memory_handler (unmanaged segments)
            "use_memmap": bool(rng.random() < 0.08),       # tuple(analyzer) hands out read-only memory maps
            "scan_kwargs": bool(rng.random() < 0.25),      # the other keyword arguments `scan` passes along
            "peeks": peeks}                                # tuple(analyzer) is also read after that many submissions


def gen_synth(rng, n):
    """a history too long to write down: n submissions of n different rotations to four voxels (built from the seed)"""
    return {"kind": "history", "shape": [4], "thr": 0.0, "thr_kind": "zero", "thr_type": str(rng.choice(["default", "float", "int"])),
            "style": "synth", "synth": {"n": int(n), "seed": int(rng.integers(1 << 30))},
            "thread_safe": False, "unique": bool(rng.random() < 0.5), "sub_dtype": str(rng.choice(["float32", "float64", "int32"])),
            "init": "tuple", "managed": True, "use_memmap": False, "peeks": [], "rots": [], "subs": []}


def _expand(case):
    """materialise a synthetic history (identifiers beyond the ranges of int8 / int16 / uint16 must survive)"""
    sy = case.get("synth")
    if not sy or case.get("subs"):
        return case
    n = sy["n"]
    g = np.random.default_rng(sy["seed"])
    c = dict(case)
    # 2x2 matrices, all different
    c["rots"] = [{"dtype": "float64", "m": [[float(j), 0.0], [0.0, 1.0]]} for j in range(n)]
    vals = g.integers(1, 1000, size=(n, 4)).astype(np.float32)
    vals[:, 3] = -1.0                               # voxel 3 never improves
    winners = [n - 1, int(0.83 * n), int(g.integers(0, min(n, 100)))]
    for vox, j in enumerate(winners):
        vals[j, vox] = 5000.0
    c["subs"] = [{"r": j, "v": [float(x) for x in vals[j]]} for j in range(n)]
    return c


def _rot_arrays(case):
    return [np.array(r["m"], dtype=r["dtype"]) for r in case["rots"]]


def _ranker(values):
    u = sorted(set(float(x) for x in values))
    return {v: i for i, v in enumerate(u)}


def _rk(rank, arr):
    out = []
    for x in np.asarray(arr, dtype=np.float64).ravel().tolist():
        out.append(rank.get(x, "unranked:%r" % x))
    return out


def _ids(rt):
    a = np.asarray(rt)
    if a.dtype.kind in "iu":
        return [int(x) for x in a.ravel()]
    return ["not-an-integer:%r" % (x,) for x in a.ravel().tolist()]


def _table_list(tab):
    return [[k.hex() if isinstance(k, (bytes, bytearray)) else repr(k), int(v)] for k, v in tab.items()]


def _batch(ctx, reqs, limit=24000):
    """driver.batch pipelines a whole chunk before reading replies; with large payloads both pipes fill up and the
    two processes wait for each other.  Group requests so that one group stays well below the pipe capacity."""
    out, grp, tot = [], [], 0
    for r in reqs:
        n = len(json.dumps(r[1])) + 64
        if grp and tot + n > limit:
            out += ctx.driver.batch(grp)
            grp, tot = [], 0
        grp.append(r)
        tot += n
    if grp:
        out += ctx.driver.batch(grp)
    return out


class _Shm:
    """SharedMemoryManager whose blocks are released in bulk (the analyzer never unlinks its own)."""

    def __init__(self):
        from multiprocessing.managers import SharedMemoryManager
        self.m = SharedMemoryManager()
        self.m.start()
        self.n = 0

    def handler(self):
        self.n += 1
        if self.n % 400 == 0:
            self.recycle()
        return self.m

    def recycle(self):
        from multiprocessing.managers import SharedMemoryManager
        self.m.shutdown()
        self.m = SharedMemoryManager()
        self.m.start()

    def close(self):
        try:
            self.m.shutdown()
        except Exception:
            pass


def _new_analyzer(shape, thr, thread_safe, smh, offset=None, unique=False, cfg=None):
    """cfg (optional) carries the ways a caller can spell the same set-up: thr_type, init, init_lay, use_memmap,
    off_dtype, ts_default (thread_safe left to its default)"""
    from tme.analyzer import MaxScoreOverRotations
    from tme.backends import backend as be
    cfg = cfg or {}
    kw = {}
    if unique:
        kw["only_unique_rotations"] = True      # what the scan passes; must not change the table for this backend
    if offset is not None:
        kw["offset"] = np.asarray(offset, dtype=cfg.get("off_dtype", "int64"))
    thr_type = cfg.get("thr_type", "float")
    if thr_type != "default":
        kw["score_threshold"] = _thr_value(thr, thr_type)
    if not (cfg.get("ts_default") and thread_safe):
        kw["thread_safe"] = thread_safe
    if cfg.get("use_memmap"):
        kw["use_memmap"] = True
    if cfg.get("scan_kwargs"):
        kw.update(_scan_kwargs(shape))
    init = cfg.get("init", "tuple")
    shape = tuple(int(x) for x in shape)
    if init == "list":
        kw["shape"] = [np.int64(x) for x in shape]
    elif init == "array":
        kw["shape"] = np.asarray(shape, dtype=np.int32)
    else:
        kw["shape"] = shape
    if init in ("scores", "scores+rotations"):
        kw["scores"] = _layout(np.full(shape, np.float32(thr), dtype=be._float_dtype), cfg.get("init_lay", "C"))
    if init == "scores+rotations":
        kw["rotations"] = _layout(np.full(shape, -1, dtype=be._int_dtype), cfg.get("init_lay", "C"))
    return MaxScoreOverRotations(shared_memory_handler=smh, **kw)


def _scan_kwargs(shape):
    """the keyword arguments `scan` hands to the constructor *and* to `merge` besides the ones that matter here"""
    nd = len(shape)
    return {"fourier_shift": np.zeros(nd, dtype=np.int32), "convolution_mode": "same", "targetshape": tuple(shape),
            "templateshape": (1,) * nd, "convolution_shape": tuple(shape), "fast_shape": tuple(shape), "indices": None}


def _segments(an):
    return [x[0] for x in (an.scores, an.rotations) if isinstance(x, tuple)]


def _release(segs):
    """segments made without a manager are ours to remove"""
    seen = set()
    for shm in segs:
        if shm.name in seen:
            continue
        seen.add(shm.name)
        try:
            shm.close()
            shm.unlink()
        except Exception:
            pass


def _own(res):
    """tuple(analyzer) / merge result as in-memory arrays; files behind memory maps are registered for removal"""
    sc, off, rt, tab = res
    for a in (sc, rt):
        if isinstance(a, np.memmap) and getattr(a, "filename", None):
            _merge_impl.tmpfiles.append(str(a.filename))
    return np.array(sc), np.array(off), np.array(rt), dict(tab)


def _post_frame(rng, nd):
    """target / template shapes and the frame arithmetic the scan hands to `_postprocess`."""
    from tme.backends import backend as be
    n = [int(x) for x in rng.integers(2, 7, size=nd)]
    m = [int(min(a, b)) for a, b in zip(n, rng.integers(1, 6, size=nd))]
    conv, fast, _ = be.compute_convolution_shapes(n, m)
    conv, fast = [int(x) for x in conv], [int(x) for x in fast]
    mode = str(rng.choice(["same", "valid", "full", "none"]))
    sk = str(rng.choice(["real", "random", "none"]))
    if sk == "real":
        shift = [-((b - 1) // 2) for b in m]
    elif sk == "random":
        shift = [int(x) for x in rng.integers(-9, 10, size=nd)]
    else:
        shift = None
    return {"target": n, "template": m, "conv": conv, "fast": fast, "mode": mode, "shift": shift,
            "shift_as": str(rng.choice(["tuple", "array"]))}


def _frame_crop(post):
    """independent statement of the crop (DESIGN Appendix A): (starts, extents) per axis"""
    n, m, conv, fast, mode = post["target"], post["template"], post["conv"], post["fast"], post["mode"]
    if mode == "none":
        return [0] * len(n), list(fast)
    if mode == "full":
        return [0] * len(n), list(conv)
    if mode == "same":
        return [(c - a) // 2 for c, a in zip(conv, n)], list(n)
    ext = [a - b + b % 2 for a, b in zip(n, m)]
    return [(c - e) // 2 for c, e in zip(conv, ext)], ext


# ----------------------------------------------------------------------------------------------
# the property's clauses, evaluated with numpy on what the implementation returned

def spec_store(ctx, tag, inp, thr, out_shape, subs_abs, sc, rt, tab, size=None):
    """subs_abs: list of (offset tuple, float32 ndarray, key bytes) in absolute coordinates.
    sc, rt: arrays returned by the implementation (shape must be out_shape); tab: dict bytes->int."""
    thr32 = np.float32(thr)
    ok_shape = tuple(sc.shape) == tuple(out_shape) and tuple(rt.shape) == tuple(out_shape)
    ctx.spec(f"{tag}: result has the aggregated volume's shape", inp, ok_shape,
             {"scores": list(sc.shape), "rotations": list(rt.shape), "want": list(out_shape)}, key=f"{tag}:shape", size=size)
    if not ok_shape:
        return False
    best = np.full(out_shape, thr32, dtype=np.float32)
    boxes = []
    for off, arr, key in subs_abs:
        box = tuple(slice(o, o + s) for o, s in zip(off, arr.shape))
        boxes.append(box)
        best[box] = np.maximum(best[box], arr)
    good = True
    bad = np.argwhere(~(sc == best))
    ok = bad.size == 0
    good &= ctx.spec(f"{tag}: every voxel holds the largest submitted value above the threshold, else the threshold",
                     inp, ok, None if ok else {"voxel": bad[0].tolist(), "got": float(sc[tuple(bad[0])]), "want": float(best[tuple(bad[0])])},
                     key=f"{tag}:max", size=size)
    # identifiers <-> rotations one to one, every submitted rotation has one
    vals = list(tab.values())
    keys_sub = {k for _, _, k in subs_abs}
    ok = len(set(vals)) == len(vals) and set(tab.keys()) == keys_sub
    good &= ctx.spec(f"{tag}: identifiers and submitted rotations are in one-to-one correspondence", inp, ok,
                     None if ok else {"ids": sorted(vals), "n_keys": len(tab), "n_submitted": len(keys_sub)}, key=f"{tag}:table", size=size)
    inv = {v: k for k, v in tab.items()}
    # rotation attains
    detail = None
    ok = True
    for r in np.unique(rt).tolist():
        if r == -1:
            continue
        mask = rt == r
        if r not in inv:
            ok, detail = False, {"identifier": r, "reason": "not in the table", "voxel": np.argwhere(mask)[0].tolist()}
            break
        hit = np.zeros(out_shape, bool)
        for (off, arr, key), box in zip(subs_abs, boxes):
            if key == inv[r]:
                hit[box] |= (arr == sc[box])
        if not np.all(hit[mask]):
            v = np.argwhere(mask & ~hit)[0]
            ok, detail = False, {"identifier": r, "voxel": v.tolist(), "value": float(sc[tuple(v)]),
                                 "reason": "no array submitted with that rotation holds this value here"}
            break
    good &= ctx.spec(f"{tag}: the stored identifier maps back to a rotation whose array attains the value", inp, ok, detail,
                     key=f"{tag}:rot-attains", size=size)
    improved = best > thr32
    bad = np.argwhere((rt == -1) != ~improved)
    ok = bad.size == 0
    good &= ctx.spec(f"{tag}: 'no rotation' marker exactly on the voxels never improved", inp, ok,
                     None if ok else {"voxel": bad[0].tolist(), "rot": int(rt[tuple(bad[0])]), "improved": bool(improved[tuple(bad[0])])},
                     key=f"{tag}:marker", size=size)
    return good


# ----------------------------------------------------------------------------------------------
# histories on one analyzer (+ optional post-processing)

def run_history_impl(case, smh):
    """-> (final tuple(analyzer), [(k, tuple(analyzer) read after k submissions)])"""
    rots = _rot_arrays(case)
    managed = case.get("managed", True)
    handler = smh if managed else None
    an = _new_analyzer(case["shape"], case["thr"], case["thread_safe"], handler, unique=case.get("unique", False), cfg=case)
    segs = [] if managed else _segments(an)
    try:
        dt = np.dtype(case.get("sub_dtype", "float32"))
        peeks, snaps = set(case.get("peeks", [])), []
        for k, s in enumerate(case["subs"]):
            if k in peeks:
                snaps.append((k, _own(tuple(an))))
            a = _layout(np.array(s["v"], dtype=np.float32).reshape(case["shape"]).astype(dt), s.get("lay", "C"))
            an(scores=a, rotation_matrix=_layout(rots[s["r"]], s.get("rlay", "C")))
        post = case.get("post")
        if post:
            shift = None if post["shift"] is None else tuple(post["shift"])
            if shift is not None and post.get("shift_as") == "array":
                shift = np.asarray(shift)
            an._postprocess(targetshape=tuple(post["target"]), templateshape=tuple(post["template"]),
                            convolution_shape=tuple(post["conv"]),
                            fourier_shift=shift,
                            convolution_mode=None if post["mode"] == "none" else post["mode"],
                            shared_memory_handler=handler, fast_shape=tuple(post["fast"]))
            if not managed:
                segs += _segments(an)
        if len(case["subs"]) in peeks:
            snaps.append((len(case["subs"]), _own(tuple(an))))      # read twice: reading must not change anything
        return _own(tuple(an)), snaps
    finally:
        _release(segs)


def _history_req(case, rank):
    rots = _rot_arrays(case)
    hexes = [_hex(m) for m in rots]
    args = {"shape": case["shape"], "thr": rank[float(np.float32(case["thr"]))],
            "subs": [{"d": _rk(rank, _f32(s["v"])), "k": hexes[s["r"]]} for s in case["subs"]]}
    post = case.get("post")
    if post:
        starts, exts = _frame_crop(post)
        args["post"] = {"shift": post["shift"] or [0] * len(case["shape"]), "starts": starts, "exts": exts}
    return ("c04.run", args)


def _case_rank(case):
    vals = [float(np.float32(case["thr"]))]
    for s in case["subs"]:
        vals.extend(float(x) for x in _f32(s["v"]))
    return _ranker(vals)


def _submitted(case, upto=None):
    """what was submitted, in the frame of the result: [(offset, float32 array, key bytes)]"""
    rots = _rot_arrays(case)
    keys = [np.ascontiguousarray(m).tobytes() for m in rots]
    post = case.get("post") if upto is None else None
    out = []
    for s in case["subs"][:upto]:
        a = np.array(s["v"], dtype=np.float32).reshape(case["shape"])
        if post:
            if post["shift"] is not None:
                a = np.roll(a, shift=tuple(post["shift"]), axis=tuple(range(a.ndim)))
            st, ex = _frame_crop(post)
            a = a[tuple(slice(x, x + e) for x, e in zip(st, ex))]
        out.append(((0,) * a.ndim, a, keys[s["r"]]))
    return out


def check_histories(ctx, cases, smh, do_agree=True):
    reqs, ranks, full = [], [], []
    for c in cases:
        e = _expand(c)
        full.append(e)
        rk = _case_rank(e)
        ranks.append(rk)
        if do_agree and len(e["subs"]) <= 600:
            reqs.append(_history_req(e, rk))
    models = iter(_batch(ctx, reqs))
    allgood = True
    for inp, case, rank in zip(cases, full, ranks):
        agree = do_agree and len(case["subs"]) <= 600       # the model's table is a list: longer histories are judged by the clauses only
        model = next(models) if agree else None
        tag = "postprocess" if case.get("post") else "aggregate"
        size = len(case["subs"]) * int(np.prod(case["shape"])) + len(case["shape"])
        try:
            (sc, off, rt, tab), snaps = run_history_impl(case, smh.handler())
        except Exception as e:
            ctx.spec(f"{tag}: submissions are accepted", inp, False, traceback.format_exc()[-1500:], key=f"{tag}:raised", size=size)
            allgood = False
            _cleanup_tmpfiles()
            continue
        _cleanup_tmpfiles()
        if agree and not case.get("post") and case["subs"] and tuple(sc.shape) == tuple(case["shape"]):
            # the max clause once more, through the Lean *spec* function (`specMax`, what the theorem is stated with)
            stack = np.stack([np.asarray(_rk(rank, _f32(s["v"]))) for s in case["subs"]], axis=1)
            want = ctx.driver.call("c04.specMax", thr=rank[float(np.float32(case["thr"]))], vals=stack.tolist())
            ctx.spec("aggregate: scores == Lean specMax of the submitted values", inp, _rk(rank, sc) == want,
                     key="aggregate:max", size=size)
        if agree:
            impl = {"shape": list(sc.shape), "scores": _rk(rank, sc), "rots": _ids(rt), "table": _table_list(tab)}
            allgood &= ctx.agree(f"{tag}: tuple(analyzer) == model run", inp, impl, model)
            ok_off = np.array_equal(np.asarray(off), np.zeros(len(case["shape"]), int))
            allgood &= ctx.agree(f"{tag}: default offset is zero", inp, bool(ok_off), True)
        # the property after every prefix that was observed ("after any sequence ... has been submitted")
        for k, (psc, poff, prt, ptab) in snaps:
            if k < len(case["subs"]) or not case.get("post"):
                pshape, psubs = tuple(case["shape"]), _submitted(case, upto=k)
            else:                                   # read after post-processing: the result's frame
                pshape, psubs = tuple(_frame_crop(case["post"])[1]), _submitted(case)
            allgood &= spec_store(ctx, "aggregate" if k < len(case["subs"]) else tag, {"case": inp, "prefix": k}, case["thr"],
                                  pshape, psubs, psc, prt, ptab, size=size)
            ctx.count(f"{tag}:observed-after-a-prefix")
        post = case.get("post")
        subs_abs = _submitted(case)
        out_shape = tuple(case["shape"]) if not post else tuple(_frame_crop(post)[1])
        allgood &= spec_store(ctx, tag, inp, case["thr"], out_shape, subs_abs, sc, rt, tab, size=size)
        # evidence bookkeeping
        L = len(case["subs"])
        nvox = int(np.prod(case["shape"]))
        improved = bool(np.any(rt != -1))
        ctx.count(f"{tag}:ndim={len(case['shape'])}")
        ctx.count(f"{tag}:thr={case.get('thr_kind', '?')}")
        ctx.count(f"{tag}:values={case.get('style', '?')}")
        ctx.count(f"{tag}:len={'0' if L == 0 else '1' if L == 1 else '2-4' if L < 5 else '5+'}")
        ctx.count(f"{tag}:thread_safe={case['thread_safe']}")
        ctx.count(f"{tag}:only_unique_rotations={case.get('unique', False)}")
        ctx.count(f"{tag}:rotation-repeated={len(set(s['r'] for s in case['subs'])) < L}")
        if L >= 2:
            stack = np.stack([_f32(s["v"]) for s in case["subs"]])
            mx = stack.max(axis=0)
            ctx.count(f"{tag}:tie-at-max={bool(np.any((stack == mx).sum(axis=0) > 1))}")
        ctx.count(f"{tag}:some-voxel-never-improved={bool(np.any(rt == -1))}")
        ctx.count(f"{tag}:submitted-dtype={case.get('sub_dtype', 'float32')}")
        ctx.count(f"{tag}:threshold-given-as={case.get('thr_type', 'float')}")
        ctx.count(f"{tag}:set-up={case.get('init', 'tuple')}")
        ctx.count(f"{tag}:shared_memory_handler={'given' if case.get('managed', True) else 'none'}")
        ctx.count(f"{tag}:use_memmap={case.get('use_memmap', False)}")
        ctx.count(f"{tag}:rotations={'<=4' if len(case['rots']) <= 4 else '5-127' if len(case['rots']) < 128 else '128-32767' if len(case['rots']) < 32768 else '>=32768'}")
        ctx.count(f"{tag}:voxels={'<=10000' if nvox <= 10000 else '>10000'}")
        for lay in sorted(set(s_.get("lay", "C") for s_ in case["subs"])):
            ctx.count(f"{tag}:score-layout={lay}")
        for lay in sorted(set(s_.get("rlay", "C") for s_ in case["subs"])):
            ctx.count(f"{tag}:rotation-matrix-layout={lay}")
        if post:
            ctx.count(f"postprocess:mode={post['mode']}")
            ctx.count(f"postprocess:shift={'none' if post['shift'] is None else 'given'}")
        if L >= 1 and nvox > 1 and improved:
            ctx.distinct((tag, case["shape"], rank[float(np.float32(case["thr"]))], [s["r"] for s in case["subs"]],
                          hash(tuple(tuple(s["v"]) for s in case["subs"])) & 0xFFFFFFFF, json.dumps(post)))
    return allgood


# ----------------------------------------------------------------------------------------------
# tilings and merge

_STORE_LAYOUTS = ["C", "C", "C", "F", "readonly", "strided", "axes", "reversed"]


def gen_tiling(rng, wide=False, manyrot=False):
    nd = int(rng.choice([1, 2, 3, 4], p=[0.3, 0.32, 0.3, 0.08]))
    G = [int(x) for x in rng.integers(2, (5 if nd == 4 else 10 if wide else 7), size=nd)]
    style = str(rng.choice(["mixed", "neg", "ints", "ints", "pos", "ulp", "offset", "huge", "tiny"]))
    pool = _value_pool(rng, style)
    thr, tk, thr_type = _pick_thr(rng, pool, ["zero", "zero", "below", "above", "inside", "member", "ninf", "pinf"])
    nrot = int(rng.integers(1, 6))
    ntiles = int(rng.choice([1, 2, 2, 3, 3, 4, 5]))
    if manyrot:
        # tables with more entries than int8 / uint8 hold, partly shared between the tiles, tiny boxes
        G = [int(x) for x in rng.integers(2, 4, size=nd)]
        nrot, ntiles = int(rng.integers(270, 330)), int(rng.choice([2, 3]))
    rots = _rot_pool(rng, nd, nrot)
    layout = str(rng.choice(["random", "random", "same-box", "touching"]))
    tiles = []
    for t in range(ntiles):
        if layout == "same-box":
            off, shp = [0] * nd, list(G)
        else:
            off = [int(rng.integers(0, g)) for g in G]
            shp = [int(rng.integers(1, g - o + 1)) for g, o in zip(G, off)]
            if layout == "touching" and tiles:
                prev = tiles[-1]
                off = [min(po + ps, g - 1) if ax == 0 else po for ax, (po, ps, g) in enumerate(zip(prev["offset"], prev["shape"], G))]
                shp = [max(1, min(s, g - o)) for s, g, o in zip(shp, G, off)]
        L = int(rng.integers(0, 6))
        nv = int(np.prod(shp))
        if manyrot:
            # consecutive blocks of the pool with a small overlap, in order: whichever store is merged last brings
            # rotations whose merged identifiers lie beyond 255, and its last (winning) submissions carry them
            lo, hi_ = (nrot * t) // ntiles, (nrot * (t + 1)) // ntiles
            order = list(range(max(0, lo - int(rng.integers(0, 25))), hi_))
            L = len(order)
            subs = [{"r": int(order[j]), "v": [float(x) for x in _f32(rng.integers(-3, 4, size=nv) + (j if rng.random() < 0.9 else 0))],
                     "lay": "C", "rlay": "C"} for j in range(L)]
        else:
            subs = [{"r": int(rng.integers(nrot)), "v": [float(x) for x in rng.choice(pool, size=nv)],
                     "lay": _pick_layout(rng, 0.7), "rlay": str(rng.choice(_ROT_LAYOUTS))} for _ in range(L)]
        tiles.append({"offset": off, "shape": shp, "subs": subs,
                      "off_dtype": str(rng.choice(["int64", "int64", "int32", "int16"])),     # `scan` hands over int32
                      "lay": str(rng.choice(_STORE_LAYOUTS)),                                   # layout of the store's arrays at merge
                      "init": str(rng.choice(["tuple", "tuple", "tuple", "list", "array", "scores", "scores+rotations"])),
                      "init_lay": _pick_layout(rng, 0.3)})
    use_memmap = bool(rng.random() < 0.12)
    return {"kind": "tiling", "thr": thr, "thr_kind": tk, "thr_type": thr_type, "style": style, "layout": layout,
            "rots": [{"dtype": str(m.dtype), "m": m.tolist()} for m in rots], "tiles": tiles,
            "thread_safe": bool(rng.random() < 0.1), "use_memmap": use_memmap,
            "an_memmap": bool(use_memmap and rng.random() < 0.6),     # the analyzers hand out memory maps themselves (CLI path)
            "interleaved": bool(rng.random() < 0.3),                    # all analyzers alive, fed in turns
            "stores_as": str(rng.choice(["tuple", "list"])),
            "scan_kwargs": bool(rng.random() < 0.3),                    # merge(...) with everything `scan` passes along
            "sub_dtype": ("float64" if rng.random() < 0.25 else "float32"),
            "manyrot": bool(manyrot),
            "perm_seed": int(rng.integers(1 << 30))}


def _store_req(st, rank):
    sc, off, rt, tab = st
    return {"shape": list(sc.shape), "offset": [int(x) for x in off], "scores": _rk(rank, sc),
            "rots": _ids(rt), "table": _table_list(tab)}


def _copy_store(st):
    return (np.array(st[0]), np.array(st[1]), np.array(st[2]), dict(st[3]))


def _merge_kwargs(thr, use_memmap, cfg, nd):
    cfg = cfg or {}
    kw = {}
    if cfg.get("scan_kwargs"):
        kw.update(_scan_kwargs((2,) * nd))
        kw.update({"offset": np.zeros(nd, dtype=np.int32), "thread_safe": False, "shared_memory_handler": None,
                   "only_unique_rotations": True})
    if cfg.get("thr_type", "float") != "default":
        kw["score_threshold"] = _thr_value(thr, cfg.get("thr_type", "float"))
    if use_memmap or not cfg.get("scan_kwargs"):
        kw["use_memmap"] = use_memmap
    return kw


def _merge_impl(stores, thr, use_memmap=False, cfg=None, lays=None):
    from tme.analyzer import MaxScoreOverRotations
    from tme.matching_utils import array_to_memmap
    stores = [None if s is None else _copy_store(s) for s in stores]
    nd = next((s[0].ndim for s in stores if s is not None), 1)
    if use_memmap:
        conv = []
        for st in stores:
            if st is None:
                conv.append(None)
                continue
            sc, off, rt, tab = st
            fs, fr = array_to_memmap(sc), array_to_memmap(rt)
            conv.append((np.memmap(fs, mode="r", dtype=sc.dtype, shape=sc.shape), off,
                         np.memmap(fr, mode="r", dtype=rt.dtype, shape=rt.shape), tab))
            _merge_impl.tmpfiles += [fs, fr]
        stores = conv
    elif lays:
        stores = [st if st is None else (_layout(st[0], lay), st[1], _layout(st[2], lay), st[3]) for st, lay in zip(stores, lays)]
    if (cfg or {}).get("stores_as") == "list":
        stores = [st if st is None else list(st) for st in stores]
    res = MaxScoreOverRotations.merge(stores, **_merge_kwargs(thr, use_memmap, cfg, nd))
    if res is None:
        return None
    return _own(res)


_merge_impl.tmpfiles = []


def _cleanup_tmpfiles():
    for f in _merge_impl.tmpfiles:
        try:
            os.remove(f)
        except OSError:
            pass
    _merge_impl.tmpfiles = []


class _NoResult(Exception):
    pass


def check_tilings(ctx, cases, smh, do_agree=True):
    allgood = True
    for case in cases:
        rots = _rot_arrays(case)
        keys = [m.tobytes() for m in rots]
        thr = case["thr"]
        vals = [float(np.float32(thr))]
        for t in case["tiles"]:
            for s in t["subs"]:
                vals.extend(float(x) for x in _f32(s["v"]))
        rank = _ranker(vals)
        size = sum(len(t["subs"]) * int(np.prod(t["shape"])) for t in case["tiles"]) + 10 * len(case["tiles"])
        nd = len(case["tiles"][0]["shape"])
        try:
            stores, subs_abs = [], []
            sdt = np.dtype(case.get("sub_dtype", "float32"))
            ans, feeds = [], []
            handler = smh.handler()         # one manager for all analyzers of the case (a recycled manager takes its segments along)
            for t in case["tiles"]:
                cfg = {"thr_type": case.get("thr_type", "float"), "off_dtype": t.get("off_dtype", "int64"), "init": t.get("init", "tuple"),
                       "init_lay": t.get("init_lay", "C"), "use_memmap": case.get("an_memmap", False), "scan_kwargs": case.get("scan_kwargs", False)}
                ans.append(_new_analyzer(t["shape"], thr, case["thread_safe"], handler, offset=t["offset"], cfg=cfg))
                feed = []
                for s in t["subs"]:
                    a = np.array(s["v"], dtype=np.float32).reshape(t["shape"])
                    feed.append((len(ans) - 1, a, s))
                    subs_abs.append((tuple(t["offset"]), a, keys[s["r"]]))
                feeds.append(feed)
            if case.get("interleaved"):
                # all analyzers alive at once, fed in turns (nothing may be shared between objects)
                flat = [f[j] for j in range(max([len(f) for f in feeds] + [0])) for f in feeds if j < len(f)]
            else:
                flat = [x for f in feeds for x in f]
            for ti, a, s in flat:
                ans[ti](scores=_layout(a.astype(sdt), s.get("lay", "C")), rotation_matrix=_layout(rots[s["r"]], s.get("rlay", "C")))
            for an in ans:
                stores.append(_own(tuple(an)))
            ans = None
            lays_of = [t.get("lay", "C") for t in case["tiles"]]
            out_shape = tuple(int(max(t["offset"][ax] + t["shape"][ax] for t in case["tiles"])) for ax in range(nd))
            variants = [("given-order", list(range(len(stores))), None)]
            prng = np.random.default_rng(case["perm_seed"])
            if len(stores) >= 2:
                variants.append(("permuted", [int(x) for x in prng.permutation(len(stores))], None))
                variants.append(("reversed", list(range(len(stores)))[::-1], None))
            if len(stores) >= 3:
                cut = int(prng.integers(1, len(stores)))
                variants.append(("grouped", [int(x) for x in prng.permutation(len(stores))], cut))
            # `None` entries (a job without result) are skipped by merge; -1 stands for None
            holes = list(range(len(stores)))
            for _ in range(int(prng.integers(1, 3))):
                holes.insert(int(prng.integers(0, len(holes) + 1)), -1)
            variants.append(("with-none", holes, None))
            results = {}
            def merge_agree(name, grp, order, cut, memmap=False, lays=None):
                res = _merge_impl(grp, thr, memmap, cfg=case, lays=lays)
                if res is None:
                    ctx.spec("merge: partial results were given, a result comes back", {"case": case, "order": order, "cut": cut},
                             not any(g is not None for g in grp), key="merge:no-result", size=size)
                    raise _NoResult()
                if do_agree:
                    # the model merges exactly what the implementation was given
                    model = ctx.driver.call("c04.merge", thr=rank[float(np.float32(thr))],
                                            stores=[None if s is None else _store_req(s, rank) for s in grp])
                    ok = ctx.agree(f"merge({name}) == model merge", {"case": case, "order": order, "cut": cut}, _store_req(res, rank), model)
                    merge_agree.good &= ok
                return res
            merge_agree.good = True
            for name, order, cut in variants:
                ordered = [stores[i] if i >= 0 else None for i in order]
                lays = [lays_of[i] if i >= 0 else "C" for i in order]
                mm = case["use_memmap"] and len(ordered) > 1
                if cut is None:
                    res = merge_agree(name, ordered, order, cut, mm, lays)
                else:
                    left = merge_agree(name + "/left", ordered[:cut], order, cut, mm and cut > 1, lays[:cut])
                    right = merge_agree(name + "/right", ordered[cut:], order, cut, mm and len(ordered) - cut > 1, lays[cut:])
                    res = merge_agree(name + "/outer", [left, right], order, cut, mm)
                results[name] = res
                allgood &= merge_agree.good
                if len(order) == 1:
                    # `merge` hands a single store back unchanged: judge it in its own frame
                    t = case["tiles"][0]
                    loc = [((0,) * nd, a, k) for (_, a, k) in subs_abs]
                    ok_off = [int(x) for x in res[1]] == [int(x) for x in t["offset"]]
                    ctx.spec("merge: a single partial result keeps its offset", case, ok_off, key="merge:single-offset", size=size)
                    allgood &= spec_store(ctx, "merge", {"case": case, "order": order, "cut": cut}, thr, tuple(t["shape"]), loc, res[0], res[2], res[3], size=size)
                else:
                    ok_off = not np.any(np.asarray(res[1]))
                    ctx.spec("merge: merged result sits at offset zero", case, ok_off, key="merge:offset", size=size)
                    allgood &= spec_store(ctx, "merge", {"case": case, "order": order, "cut": cut}, thr, out_shape, subs_abs, res[0], res[2], res[3], size=size)
                ctx.count(f"merge:variant={name}")
            # nothing but jobs without a result: nothing comes back (the model's `mergeOpt` on a list of `none`)
            if do_agree:
                for k in (1, 2 + len(stores) % 2):
                    res0 = _merge_impl([None] * k, thr, False, cfg=case)
                    allgood &= ctx.agree("merge(only jobs without result) == model merge", {"case": {"kind": "tiling-none", "thr": thr, "k": k}},
                                         "none" if res0 is None else "store", ctx.driver.call("c04.merge", thr=0, stores=[None] * k))
            # all orders / groupings give the same map
            ref = results["given-order"]
            for name, res in results.items():
                if len(stores) == 1:
                    continue        # single store: handed back in its own frame, nothing to permute
                same = res[0].shape == ref[0].shape and np.array_equal(res[0], ref[0])
                ctx.spec("merge: any order or grouping gives the same score map", {"case": case, "variant": name}, same,
                         key="merge:order-invariance", size=size)
                # the rotation *matrices* may differ only at ties; compared through spec_store above
            # one analyzer fed everything at once (partial arrays embedded with the threshold outside their box)
            if len(stores) >= 2:
                big = _new_analyzer(out_shape, thr, False, smh.handler(), cfg={"thr_type": case.get("thr_type", "float")})
                for (off, a, k), rix in zip(subs_abs, [s["r"] for t in case["tiles"] for s in t["subs"]]):
                    e = np.full(out_shape, np.float32(thr), dtype=np.float32)
                    e[tuple(slice(o, o + s) for o, s in zip(off, a.shape))] = a
                    big(scores=e, rotation_matrix=rots[rix])
                bsc, _, brt, btab = tuple(big)
                same = bsc.shape == ref[0].shape and np.array_equal(bsc, ref[0])
                ctx.spec("merge: equals aggregating everything at once", case, same,
                         None if same else {"shapes": [list(bsc.shape), list(ref[0].shape)]} if bsc.shape != ref[0].shape
                         else {"voxel": np.argwhere(bsc != ref[0])[0].tolist()}, key="merge:equals-at-once", size=size)
                if do_agree:
                    # in the given order the model proves more: identifiers and table coincide too
                    allgood &= ctx.agree("merge(given-order) rotations/table == single analyzer fed the concatenated history", case,
                                         {"rots": _ids(ref[2]) if ref[2].shape == brt.shape else "shape", "table": _table_list(ref[3])},
                                         {"rots": _ids(brt), "table": _table_list(btab)})
                    # ... and that single analyzer is the model's `run out thr (bigHist ...)` (merge_eq_aggregate_at_once_exact)
                    hx = [_hex(m) for m in rots]
                    once = ctx.driver.call("c04.once", thr=rank[float(np.float32(thr))],
                                           tiles=[{"offset": t["offset"], "shape": t["shape"],
                                                   "subs": [{"d": _rk(rank, _f32(s["v"])), "k": hx[s["r"]]} for s in t["subs"]]} for t in case["tiles"]])
                    allgood &= ctx.agree("one analyzer fed every tile's submissions (placed at their offsets) == model run over bigHist", case,
                                         {"shape": list(bsc.shape), "scores": _rk(rank, bsc), "rots": _ids(brt), "table": _table_list(btab)}, once)
        except _NoResult:
            allgood = False
            continue
        except Exception:
            ctx.spec("merge: partial results are accepted", case, False, traceback.format_exc()[-1500:], key="merge:raised", size=size)
            allgood = False
            continue
        finally:
            _cleanup_tmpfiles()
        ntl = len(case["tiles"])
        ctx.count(f"merge:tiles={ntl}")
        ctx.count(f"merge:ndim={nd}")
        ctx.count(f"merge:layout={case['layout']}")
        ctx.count(f"merge:thr={case['thr_kind']}")
        ctx.count(f"merge:use_memmap={case['use_memmap']}")
        ctx.count(f"merge:analyzers-hand-out-memmaps={case.get('an_memmap', False)}")
        ctx.count(f"merge:analyzers-fed-in-turns={case.get('interleaved', False)}")
        ctx.count(f"merge:threshold-given-as={case.get('thr_type', 'float')}")
        ctx.count(f"merge:scan-keywords={case.get('scan_kwargs', False)}")
        ctx.count(f"merge:stores-as={case.get('stores_as', 'tuple')}")
        ctx.count(f"merge:rotations={'<128' if len(case['rots']) < 128 else '>=128'}")
        for t in case["tiles"]:
            ctx.count(f"merge:store-layout={t.get('lay', 'C')}")
            ctx.count(f"merge:offset-dtype={t.get('off_dtype', 'int64')}")
        cover = np.zeros(out_shape, int)
        for t in case["tiles"]:
            cover[tuple(slice(o, o + s) for o, s in zip(t["offset"], t["shape"]))] += 1
        ctx.count(f"merge:overlap={bool(np.any(cover > 1))}")
        ctx.count(f"merge:gap={bool(np.any(cover == 0))}")
        nonempty = sum(1 for t in case["tiles"] if t["subs"])
        if ntl >= 2 and nonempty >= 2 and int(np.prod(out_shape)) > 1:
            ctx.distinct(("merge", [(t["offset"], t["shape"], [s["r"] for s in t["subs"]]) for t in case["tiles"]],
                          rank[float(np.float32(thr))], hash(json.dumps(case["tiles"])) & 0xFFFFFFFF))
    return allgood


# ----------------------------------------------------------------------------------------------
# real processes submitting to one shared analyzer

class SlowArray(np.ndarray):
    """Behaves like its base array; a comparison involving it takes `delay` seconds longer.  Submitting such an
    array widens the window between the aggregator's read (`scores > max_scores`) and its writes, from the input
    side only: no line of the code under test is replaced."""
    delay = 0.0

    def __array_ufunc__(self, ufunc, method, *inputs, **kwargs):
        ins = tuple(np.asarray(x) if isinstance(x, SlowArray) else x for x in inputs)
        if "out" in kwargs:
            kwargs["out"] = tuple(np.asarray(x) if isinstance(x, SlowArray) else x for x in kwargs["out"])
        res = getattr(ufunc, method)(*ins, **kwargs)
        if ufunc in (np.greater, np.less, np.greater_equal, np.less_equal, np.maximum, np.fmax):
            time.sleep(SlowArray.delay)
        return res


def _worker_main(inq, outq):
    import numpy as _np
    from tme.backends import backend as _be  # noqa: F401  (same backend as the parent)
    while True:
        job = inq.get()
        if job is None:
            return
        try:
            analyzer, shape, subs, rots, delay, t_start, dt = job
            arrays = []
            for v, r in subs:
                a = _np.array(v, dtype=_np.float32).reshape(shape).astype(dt)
                if delay > 0:
                    a = a.view(SlowArray)
                arrays.append((a, rots[r]))
            SlowArray.delay = delay
            while time.time() < t_start:
                pass
            for a, m in arrays:
                analyzer(scores=a, rotation_matrix=m)
            outq.put(("ok", len(arrays)))
        except Exception:
            outq.put(("err", traceback.format_exc()[-1500:]))


class _Pool:
    def __init__(self, n):
        import multiprocessing as mp
        self.ctx = mp.get_context("spawn")
        self.workers = []
        for _ in range(n):
            inq, outq = self.ctx.Queue(), self.ctx.Queue()
            p = self.ctx.Process(target=_worker_main, args=(inq, outq), daemon=True)
            p.start()
            self.workers.append((p, inq, outq))

    def run(self, jobs, timeout=180):
        """jobs: one per worker used.  Returns list of ('ok'|'err'|'timeout', info)."""
        for (p, inq, outq), job in zip(self.workers, jobs):
            inq.put(job)
        out = []
        for (p, inq, outq), _ in zip(self.workers, jobs):
            try:
                out.append(outq.get(timeout=timeout))
            except _queue.Empty:
                out.append(("timeout", None))
        return out

    def close(self):
        for p, inq, outq in self.workers:
            try:
                inq.put(None)
            except Exception:
                pass
        for p, inq, outq in self.workers:
            p.join(timeout=5)
            if p.is_alive():
                p.kill()


def gen_concurrent(rng, nproc, slow, split="even"):
    nd = int(rng.integers(1, 4))
    hi = {1: 513, 2: 33, 3: 11}[nd]
    shape = [int(x) for x in (rng.integers(3, 9, size=nd) if slow else rng.integers(max(4, hi // 4), hi, size=nd))]
    nrot = int(rng.integers(2, 7)) if slow else int(rng.integers(6, 40))
    rots = _rot_pool(rng, nd, nrot)
    nvox = int(np.prod(shape))
    rounds = int(rng.integers(3, 7)) if slow else int(rng.integers(20, 50))
    thr = float(_f32(rng.choice([0.0, 0.0, -5.0, 2.5])))
    # how the submissions are spread over the processes: evenly; (k, 1, 0, ..) one long history next to a single
    # submission and an idle process; (1, 1, .., 1) one submission each
    if split == "uneven":
        counts = [rounds * 2] + [1] + [0] * (nproc - 2) if nproc > 2 else [rounds * 2, 1]
        counts = [counts[i] for i in rng.permutation(nproc)]
    elif split == "one-each":
        counts = [1] * nproc
    else:
        counts = [rounds] * nproc

    def sub(j):
        # rising trend + noise: most voxels improve on every submission, the per-voxel winner is spread
        # over processes and rounds, so an overwritten update is not repaired later
        v = _f32(np.round(rng.normal(size=nvox) * 3 + j * 1.5, 1))
        return {"r": int(rng.integers(nrot)), "v": [float(x) for x in v]}
    work = [[sub(j) for j in range(c)] for c in counts]
    pre = [sub(0) for _ in range(int(rng.integers(0, 3)))] if rng.random() < 0.5 else []
    after = [sub(rounds) for _ in range(int(rng.integers(0, 3)))] if rng.random() < 0.5 else []
    return {"kind": "concurrent", "shape": shape, "thr": thr, "nproc": nproc, "delay": 0.004 if slow else 0.0,
            "rots": [{"dtype": str(m.dtype), "m": m.tolist()} for m in rots], "work": work, "split": split,
            "pre": pre, "after": after,                     # submitted by the parent before / after the processes ran
            "ts_default": bool(rng.random() < 0.5),         # thread_safe left to its default (True)
            "thr_type": ("default" if thr == 0.0 and rng.random() < 0.5 else "float"),
            "sub_dtype": ("float64" if rng.random() < 0.3 else "float32")}


def check_concurrent(ctx, cases, smh, pool, do_agree=True):
    allgood = True
    for case in cases:
        rots = _rot_arrays(case)
        keys = [m.tobytes() for m in rots]
        shape, thr = case["shape"], case["thr"]
        size = sum(len(w) for w in case["work"]) * int(np.prod(shape))
        an = _new_analyzer(shape, thr, True, smh.handler(), cfg={"ts_default": case.get("ts_default", False), "thr_type": case.get("thr_type", "float")})
        dt = case.get("sub_dtype", "float32")
        for s in case.get("pre", []):
            an(scores=np.array(s["v"], dtype=np.float32).reshape(shape).astype(dt), rotation_matrix=rots[s["r"]])
        t_start = time.time() + 0.15
        jobs = [(an, shape, [(s["v"], s["r"]) for s in w], rots, case["delay"], t_start, dt) for w in case["work"]]
        res = pool.run(jobs)
        if any(r[0] == "timeout" for r in res):
            # infrastructure, not a verdict (same convention as pv.main's alarm handler)
            print(f"TIMEOUT property={ID} (concurrent submitter processes did not answer; infrastructure, not a verdict)", flush=True)
            for p, _, _ in pool.workers:
                try:
                    p.kill()
                except Exception:
                    pass
            smh.close()
            os._exit(2)
        errs = [r[1] for r in res if r[0] == "err"]
        small = {k: v for k, v in case.items() if k != "work"}
        small["work"] = case["work"]
        if errs:
            ctx.spec("concurrent: submissions are accepted", small, False, errs[0], key="concurrent:raised", size=size)
            allgood = False
            continue
        for s in case.get("after", []):
            an(scores=np.array(s["v"], dtype=np.float32).reshape(shape).astype(dt), rotation_matrix=rots[s["r"]])
        sc, off, rt, tab = tuple(an)
        everything = case.get("pre", []) + [s for w in case["work"] for s in w] + case.get("after", [])
        subs_abs = [((0,) * len(shape), np.array(s["v"], dtype=np.float32).reshape(shape), keys[s["r"]]) for s in everything]
        good = spec_store(ctx, "concurrent", small, thr, tuple(shape), subs_abs, sc, rt, tab, size=size)
        allgood &= good
        if do_agree:
            vals = [float(np.float32(thr))] + [float(x) for s in everything for x in _f32(s["v"])]
            rank = _ranker(vals)
            hexes = [_hex(m) for m in rots]
            model = ctx.driver.call("c04.run", shape=shape, thr=rank[float(np.float32(thr))],
                                    subs=[{"d": _rk(rank, _f32(s["v"])), "k": hexes[s["r"]]} for s in everything])
            # order-free part of the model's prediction: the score map, the set of keys, the identifier range
            impl = {"scores": _rk(rank, sc), "keys": sorted(k.hex() for k in tab), "ids": sorted(int(v) for v in tab.values())}
            mdl = {"scores": model["scores"], "keys": sorted(k for k, _ in model["table"]), "ids": sorted(v for _, v in model["table"])}
            allgood &= ctx.agree("concurrent: shared analyzer == model (any serial order)", small, impl, mdl)
        ctx.count(f"concurrent:nproc={case['nproc']}")
        ctx.count(f"concurrent:widened-window={case['delay'] > 0}")
        ctx.count(f"concurrent:split={case.get('split', 'even')}")
        ctx.count(f"concurrent:thread_safe={'default' if case.get('ts_default') else 'given'}")
        ctx.count(f"concurrent:parent-submits-too={bool(case.get('pre') or case.get('after'))}")
        ns = sum(len(w) for w in case["work"])
        ctx.count("concurrent:submissions=" + ("<=30" if ns <= 30 else "31-100" if ns <= 100 else ">100"))
        ctx.distinct(("concurrent", case["nproc"], shape, case["delay"], hash(json.dumps(case["work"])) & 0xFFFFFFFF))
    return allgood


def check_model_schedules(ctx, rng, n):
    """The step model itself: with the lock every schedule ends in the order-free result; without it some
    schedules lose an update (counted, this is what a removed lock looks like).  Model only."""
    lost = 0
    for _ in range(n):
        nproc = int(rng.integers(2, 5))
        shape = [int(rng.integers(1, 4))]
        work = []
        for p in range(nproc):
            work.append([{"d": [int(x) for x in rng.integers(0, 6, size=shape[0])], "k": "r%d" % int(rng.integers(3))}
                         for _ in range(int(rng.integers(1, 4)))])
        steps = sum(len(w) for w in work) * 5
        sched = [int(x) for x in rng.integers(0, nproc, size=steps * nproc * 3)]
        serial = ctx.driver.call("c04.run", shape=shape, thr=0, subs=[s for w in work for s in w])
        for lock in (True, False):
            r = ctx.driver.call("c04.interleave", shape=shape, thr=0, lock=lock, work=work, sched=sched)
            if not r["done"]:
                ctx.count("model-schedule:unfinished")
                continue
            same = r["state"]["scores"] == serial["scores"]
            if lock:
                ctx.agree("model: locked schedule == serial score map", {"work": work, "sched": sched}, same, True)
                ctx.count("model-schedule:locked")
            else:
                lost += (not same)
                ctx.count("model-schedule:unlocked")
    ctx.count("model-schedule:unlocked-lost-update", lost)


# ----------------------------------------------------------------------------------------------
# second layer: the path without a lock / only_unique_rotations, keys as matrix bytes and reading a rotation back,
# results behind memory maps on disk, MemmapHandler

import contextlib


@contextlib.contextmanager
def _unshared_backend():
    """A stand-in for the backends whose arrays are not shared between processes (cupy, jax, mlx: `to_sharedarr` and
    `from_sharedarr` are the identity).  Everything else is the numpy backend.  With it `MaxScoreOverRotations` takes
    the path without a lock (`lock_is_nullcontext`) and honours `only_unique_rotations`; no line of analyzer.py is
    replaced."""
    from tme.backends import backend as be
    from tme.backends.npfftw_backend import NumpyFFTWBackend

    class Unshared(NumpyFFTWBackend):
        def to_sharedarr(self, arr, shared_memory_handler=None):
            return arr

        def from_sharedarr(self, arr):
            return arr

    name, args = be._backend_name, dict(be._backend_args)
    be.add_backend("c04-unshared", Unshared)
    be.change_backend("c04-unshared")
    try:
        yield
    finally:
        be.change_backend(name, **args)


def gen_deep_history(rng, mode):
    """mode: nolock | unique | unique-repeats | matkeys"""
    c = gen_history(rng, min_len=(2 if mode == "unique-repeats" else 0), p_ts=0.08)
    c["kind"] = "deep-history"
    c["mode"] = mode
    c["peeks"] = c["peeks"] if mode == "nolock" else []      # the inverting read of the unique path is taken once
    c["use_memmap"], c["managed"] = False, True
    c["unique"] = mode in ("unique", "unique-repeats")
    if mode in ("nolock", "unique", "unique-repeats"):
        c["init"] = str(rng.choice(["tuple", "list", "array"]))
    L = len(c["subs"])
    if mode == "unique":
        # what the option promises: every rotation once
        seen, rots = set(), []
        for m in _rot_pool(rng, len(c["shape"]), max(L, 1) + 3):
            if m.tobytes() not in seen:         # the pool holds matrices that differ in dtype only: same bytes for 1 x 1
                seen.add(m.tobytes())
                rots.append(m)
        c["subs"] = c["subs"][:len(rots)]
        L = len(c["subs"])
        c["rots"] = [{"dtype": str(m.dtype), "m": m.tolist()} for m in rots]
        order = [int(x) for x in rng.permutation(len(rots))[:L]]
        for s_, r in zip(c["subs"], order):
            s_["r"] = r
    elif mode == "unique-repeats":
        j = int(rng.integers(1, L))
        c["subs"][j]["r"] = c["subs"][int(rng.integers(0, j))]["r"]
    return c


def _words(m):
    """the matrix as rows of words: hex of the bytes of each entry, in the matrix' own dtype"""
    m = np.asarray(m)
    return [[m[i, j].tobytes().hex() for j in range(m.shape[1])] for i in range(m.shape[0])]


def _decode_docstring(tab, r, nd):
    """the class docstring's way to read a rotation back: the key whose value is the identifier, `np.frombuffer(key,
    dtype).reshape(ndim, ndim)` (the dtype is the one whose item size fits the key)"""
    found = None
    for key, value in tab.items():
        if value != r:
            continue
        found = key
    if found is None:
        return None
    isz = len(found) // (nd * nd)
    dt = {4: np.float32, 8: np.float64, 2: np.float16}.get(isz)
    if dt is None or isz * nd * nd != len(found):
        return "bad-key-length:%d" % len(found)
    return np.frombuffer(found, dt).reshape(nd, nd)


def check_deep_histories(ctx, cases, smh, do_agree=True):
    allgood = True
    for case in cases:
        mode = case["mode"]
        rank = _case_rank(case)
        rots = _rot_arrays(case)
        hexes = [_hex(m) for m in rots]
        nd = len(case["shape"])
        size = len(case["subs"]) * int(np.prod(case["shape"])) + nd
        tag = {"nolock": "no-lock path", "unique": "only_unique_rotations", "unique-repeats": "only_unique_rotations",
               "matkeys": "decode"}[mode]
        thr_r = rank[float(np.float32(case["thr"]))]
        subs_req = [{"d": _rk(rank, _f32(s["v"])), "k": hexes[s["r"]]} for s in case["subs"]]
        try:
            if mode == "matkeys":
                (sc, off, rt, tab), _ = run_history_impl(case, smh.handler())
                path = None
            else:
                with _unshared_backend():
                    an = _new_analyzer(case["shape"], case["thr"], case["thread_safe"], None, unique=case["unique"], cfg=case)
                    path = (bool(an.lock_is_nullcontext), bool(an._inversion_mapping))
                    dt = np.dtype(case.get("sub_dtype", "float32"))
                    peeks, snaps, second = set(case.get("peeks", [])), [], None
                    for kk, s in enumerate(case["subs"]):
                        if kk in peeks:
                            snaps.append((kk, _own(tuple(an))))
                        a = _layout(np.array(s["v"], dtype=np.float32).reshape(case["shape"]).astype(dt), s.get("lay", "C"))
                        if not a.flags.writeable or isinstance(a, np.memmap):
                            a = np.array(a)
                        an(scores=a, rotation_matrix=_layout(rots[s["r"]], s.get("rlay", "C")))
                    sc, off, rt, tab = _own(tuple(an))
                    if case["unique"]:
                        # outside the property (the scan reads once): a second read inverts the inverted dict again
                        try:
                            again = _own(tuple(an))
                            second = "same" if (np.array_equal(again[0], sc) and np.array_equal(again[2], rt) and list(again[3].items()) == list(tab.items())) else "different"
                        except Exception as e:
                            second = type(e).__name__
        except Exception:
            ctx.spec(f"{tag}: submissions are accepted", case, False, traceback.format_exc()[-1500:], key=f"{tag}:raised", size=size)
            allgood = False
            _cleanup_tmpfiles()
            continue
        _cleanup_tmpfiles()
        impl = {"shape": list(sc.shape), "scores": _rk(rank, sc), "rots": _ids(rt), "table": _table_list(tab)}
        subs_abs = _submitted(case)
        distinct_rots = len(set(hexes[s["r"]] for s in case["subs"])) == len(case["subs"])
        if mode == "matkeys":
            if do_agree:
                model = ctx.driver.call("c04.runMat", shape=case["shape"], thr=thr_r, n=nd,
                                        subs=[{"d": _rk(rank, _f32(s["v"])), "m": _words(rots[s["r"]])} for s in case["subs"]])
                dec = []
                for r in _ids(rt):
                    m = _decode_docstring(tab, r, nd) if isinstance(r, int) else "bad-id"
                    dec.append(None if m is None else m if isinstance(m, str) else _words(m))
                allgood &= ctx.agree("decode: tuple(analyzer) and the rotation read back at every voxel == model runMat / decodeRot", case,
                                     {"scores": impl["scores"], "rots": impl["rots"], "table": impl["table"], "decoded": dec}, model)
            # the clause itself, on the implementation's output: the matrix read back is, byte for byte, a submitted
            # matrix whose array holds the reported score at that voxel
            ok, detail = True, None
            flat_sc, flat_rt = sc.ravel(), rt.ravel()
            for v in range(flat_sc.size):
                r = int(flat_rt[v])
                if r == -1:
                    continue
                m = _decode_docstring(tab, r, nd)
                if m is None or isinstance(m, str):
                    ok, detail = False, {"voxel": v, "identifier": r, "reason": "no key carries this identifier" if m is None else m}
                    break
                hit = any(rots[s["r"]].dtype == m.dtype and rots[s["r"]].tobytes() == m.tobytes()
                          and np.float32(s["v"][v]) == flat_sc[v] for s in case["subs"])
                if not hit:
                    ok, detail = False, {"voxel": v, "identifier": r, "reason": "the matrix read back was not submitted with this value here"}
                    break
            allgood &= ctx.spec("decode: the rotation read back from (rotations, rotation_mapping) attains the reported score", case, ok, detail,
                                key="decode:rot-attains", size=size)
            allgood &= spec_store(ctx, "aggregate", case, case["thr"], tuple(case["shape"]), subs_abs, sc, rt, tab, size=size)
        else:
            allgood &= ctx.agree(f"{tag}: the stand-in backend takes the path without a lock (and the inversion mapping iff asked)", case,
                                 list(path), [True, bool(case["unique"])])
            if do_agree:
                op = "c04.runInv" if case["unique"] else "c04.runNoLock"
                model = ctx.driver.call(op, shape=case["shape"], thr=thr_r, subs=subs_req)
                model = {k: model[k] for k in ("shape", "scores", "rots", "table")}
                allgood &= ctx.agree(f"{tag}: tuple(analyzer) == model {op[4:]}", case, impl, model)
                if not case["unique"] or distinct_rots:
                    # the theorems' content, on this input: same as the lock path
                    std = ctx.driver.call("c04.run", shape=case["shape"], thr=thr_r, subs=subs_req)
                    allgood &= ctx.agree(f"{tag}: model == model of the lock path (nolock_path_eq / unique_rotations_eq_standard)", case, model, std)
            if not case["unique"] or distinct_rots:
                allgood &= spec_store(ctx, tag, case, case["thr"], tuple(case["shape"]), subs_abs, sc, rt, tab, size=size)
            else:
                # a repeated rotation breaks the option's promise: only the score map is claimed (unique_rotations_scores_eq_max)
                best = np.full(tuple(case["shape"]), np.float32(case["thr"]), dtype=np.float32)
                for _, a, _k in subs_abs:
                    best = np.maximum(best, a)
                allgood &= ctx.spec(f"{tag}: every voxel holds the largest submitted value above the threshold, else the threshold", case,
                                    sc.shape == best.shape and bool(np.all(sc == best)), key=f"{tag}:max", size=size)
        if mode != "matkeys":
            for kk, (psc, poff, prt, ptab) in snaps:
                # "after any sequence has been submitted": the prefix read on the way, clauses and model
                allgood &= spec_store(ctx, tag, {"case": case, "prefix": kk}, case["thr"], tuple(case["shape"]), _submitted(case, upto=kk),
                                      psc, prt, ptab, size=size)
                if do_agree:
                    pm = ctx.driver.call("c04.runNoLock", shape=case["shape"], thr=thr_r, subs=subs_req[:kk])
                    allgood &= ctx.agree(f"{tag}: tuple(analyzer) after a prefix == model runNoLock of the prefix", {"case": case, "prefix": kk},
                                         {"shape": list(psc.shape), "scores": _rk(rank, psc), "rots": _ids(prt), "table": _table_list(ptab)},
                                         {k: pm[k] for k in ("shape", "scores", "rots", "table")})
                ctx.count(f"deep:{mode}:observed-after-a-prefix")
            if second is not None:
                ctx.count(f"deep:{mode}:second-read-of-tuple(analyzer)={second}")
        ctx.count(f"deep:{mode}")
        ctx.count(f"deep:{mode}:thr={case.get('thr_kind', '?')}")
        ctx.count(f"deep:{mode}:values={case.get('style', '?')}")
        ctx.count(f"deep:{mode}:submitted-dtype={case.get('sub_dtype', 'float32')}")
        ctx.count(f"deep:{mode}:rotation-repeated={not distinct_rots}")
        ctx.count(f"deep:{mode}:thread_safe={case['thread_safe']}")
        if case["subs"] and int(np.prod(case["shape"])) > 1 and bool(np.any(rt != -1)):
            ctx.distinct(("deep", mode, case["shape"], thr_r, [s["r"] for s in case["subs"]],
                          hash(tuple(tuple(s["v"]) for s in case["subs"])) & 0xFFFFFFFF))
    return allgood


def _open_fds():
    out = {}
    for n in os.listdir("/proc/self/fd"):
        try:
            out[int(n)] = os.readlink("/proc/self/fd/" + n)
        except (OSError, ValueError):
            pass
    return out


def _close_leaked_fds(before):
    """`generate_tempfile_name` keeps the descriptor `mkstemp` returns open for good (one per temporary file, nothing to do
    with the property); a long stream of memory-mapped results would run into the limit of open files.  Once every
    memory map of a case is gone, descriptors that appeared during the case and point into the scratch directory are
    closed here."""
    import gc
    from pv import env as _env
    gc.collect()
    root = _env.scratch()
    n = 0
    for fd, target in _open_fds().items():
        if fd not in before and target.startswith(root):
            try:
                os.close(fd)
                n += 1
            except OSError:
                pass
    return n


def check_deep_memmap(ctx, cases, smh, do_agree=True):
    """analyzers of a tiling hand out memory maps (`use_memmap`), `merge(use_memmap=True)` works on the files: compared
    with the model's file store (`mergeOptMem`), with the in-memory merge of the same data, and the files are watched"""
    from tme.analyzer import MaxScoreOverRotations
    allgood = True
    for case in cases:
        rots = _rot_arrays(case)
        keys = [m.tobytes() for m in rots]
        thr = case["thr"]
        vals = [float(np.float32(thr))]
        for t in case["tiles"]:
            for s in t["subs"]:
                vals.extend(float(x) for x in _f32(s["v"]))
        rank = _ranker(vals)
        nd = len(case["tiles"][0]["shape"])
        size = sum(len(t["subs"]) * int(np.prod(t["shape"])) for t in case["tiles"]) + 10 * len(case["tiles"])
        fds_before = _open_fds()
        an = maps = given = res = None
        try:
            handler = smh.handler()
            maps, subs_abs = [], []
            for t in case["tiles"]:
                cfg = {"thr_type": case.get("thr_type", "float"), "off_dtype": t.get("off_dtype", "int64"), "init": t.get("init", "tuple"),
                       "init_lay": t.get("init_lay", "C"), "use_memmap": True}
                an = _new_analyzer(t["shape"], thr, False, handler, offset=t["offset"], cfg=cfg)
                for s in t["subs"]:
                    a = np.array(s["v"], dtype=np.float32).reshape(t["shape"])
                    an(scores=a, rotation_matrix=rots[s["r"]])
                    subs_abs.append((tuple(t["offset"]), a, keys[s["r"]]))
                maps.append(tuple(an))
            are_maps = all(isinstance(x, np.memmap) and not x.flags.writeable for st in maps for x in (st[0], st[2]))
            ctx.spec("memmap: tuple(analyzer) with use_memmap hands out read-only memory maps", case, are_maps, key="memmap:iter-type", size=size)
            in_files = [str(x.filename) for st in maps for x in (st[0], st[2])]
            _merge_impl.tmpfiles += in_files
            ctx.spec("memmap: every array of every result has its own file", case, len(set(in_files)) == len(in_files), key="memmap:iter-files", size=size)
            mem = [_copy_store(st) for st in maps]
            before = [open(f, "rb").read() for f in in_files]
            order = list(range(len(maps)))
            for h in sorted(set(int(x) for x in case.get("holes", [])), reverse=True):
                order.insert(min(h, len(order)), -1)
            given = [None if i < 0 else maps[i] for i in order]
            given_mem = [None if i < 0 else mem[i] for i in order]
            if case.get("stores_as") == "list":
                given = [g if g is None else list(g) for g in given]
            kw = {"use_memmap": True}
            if case.get("thr_type", "float") != "default":
                kw["score_threshold"] = _thr_value(thr, case.get("thr_type", "float"))
            res = MaxScoreOverRotations.merge(given, **kw)
            single = len(order) == 1
            if res is None:
                ctx.spec("merge: partial results were given, a result comes back", case, False, key="merge:no-result", size=size)
                allgood = False
                continue
            out_files = [str(x.filename) for x in (res[0], res[2]) if isinstance(x, np.memmap)]
            ctx.spec("memmap: merge(use_memmap=True) hands out memory maps", case, len(out_files) == 2, key="memmap:merge-type", size=size)
            res_mem = _own(tuple(res))
            after = [open(f, "rb").read() for f in in_files]
            ctx.spec("memmap: merge leaves the files of its inputs as they were", case, before == after, key="memmap:inputs-untouched", size=size)
            fresh = single or not (set(out_files) & set(in_files)) and len(set(out_files)) == len(out_files)
            ctx.spec("memmap: the merged arrays live in two new files", case, bool(fresh), {"out": out_files, "in": in_files}, key="memmap:fresh-files", size=size)
            # the same data merged in memory by the same code
            ref = _merge_impl(given_mem, thr, False, cfg={"thr_type": case.get("thr_type", "float")})
            same = ref is not None and all(np.array_equal(np.asarray(a), np.asarray(b)) for a, b in zip(ref[:3], res_mem[:3])) \
                and list(ref[3].items()) == list(res_mem[3].items())
            ctx.spec("memmap: merge on memory maps gives the result of the in-memory merge", case, bool(same), key="memmap:equals-in-memory", size=size)
            if do_agree:
                model = ctx.driver.call("c04.mergeMem", thr=rank[float(np.float32(thr))],
                                        stores=[None if g is None else _store_req(g, rank) for g in given_mem])
                impl = {"result": _store_req(res_mem, rank), "inputs_unchanged": before == after,
                        "new_files": 0 if single else len(set(out_files) - set(in_files))}
                mdl = {"result": model["result"], "inputs_unchanged": model["inputs_unchanged"],
                       "new_files": model["files_after"] - model["files_before"]}
                allgood &= ctx.agree("memmap: merge(use_memmap=True) == model mergeOptMem (result read through the maps, files)", case, impl, mdl)
            if single:
                t = case["tiles"][0]
                loc = [((0,) * nd, a, k) for (_, a, k) in subs_abs]
                allgood &= spec_store(ctx, "merge", case, thr, tuple(t["shape"]), loc, res_mem[0], res_mem[2], res_mem[3], size=size)
            else:
                out_shape = tuple(int(max(t["offset"][ax] + t["shape"][ax] for t in case["tiles"])) for ax in range(nd))
                allgood &= spec_store(ctx, "merge", case, thr, out_shape, subs_abs, res_mem[0], res_mem[2], res_mem[3], size=size)
        except Exception:
            ctx.spec("merge: partial results are accepted", case, False, traceback.format_exc()[-1500:], key="merge:raised", size=size)
            allgood = False
            continue
        finally:
            _cleanup_tmpfiles()
            an = maps = given = res = None
            ctx.count("deep:memmap-merge:descriptors-left-open-by-generate_tempfile_name", _close_leaked_fds(fds_before))
        ctx.count("deep:memmap-merge")
        ctx.count(f"deep:memmap-merge:tiles={len(case['tiles'])}")
        ctx.count(f"deep:memmap-merge:none-entries={len(case.get('holes', []))}")
        ctx.count(f"deep:memmap-merge:thr={case['thr_kind']}")
        if len(case["tiles"]) >= 2 and sum(1 for t in case["tiles"] if t["subs"]) >= 2:
            ctx.distinct(("deep-memmap", [(t["offset"], t["shape"], [s["r"] for s in t["subs"]]) for t in case["tiles"]],
                          rank[float(np.float32(thr))], hash(json.dumps(case["tiles"])) & 0xFFFFFFFF))
    return allgood


def gen_deep_memmap(rng):
    c = gen_tiling(rng)
    c["kind"] = "deep-memmap"
    c["holes"] = [int(x) for x in rng.integers(0, len(c["tiles"]) + 1, size=int(rng.choice([0, 0, 1, 2])))]
    return c


def gen_deep_merge_thr(rng):
    """stores built with thresholds of their own, merged with yet another one: not below any of them ("raise": the
    property holds for the merge threshold, merge_threshold_raise) or below some ("lower": outside the property, the
    model must still follow the code through `lookup_table[-1]`)"""
    c = gen_tiling(rng)
    c["kind"] = "deep-merge-thr"
    vals = sorted(set(float(np.float32(x)) for t in c["tiles"] for s_ in t["subs"] for x in s_["v"] if np.isfinite(x)) | {0.0, -1.0, 1.0})
    for t in c["tiles"]:
        t["thr"] = float(rng.choice(vals))
    top = max(t["thr"] for t in c["tiles"])
    c["direction"] = str(rng.choice(["raise", "raise", "lower"]))
    if c["direction"] == "raise":
        c["thr"] = float(rng.choice([v for v in vals if v >= top] + [top]))
    else:
        lower = [v for v in vals if v < top]
        c["thr"] = float(rng.choice(lower)) if lower else float(np.float32(top - 1.0))
    c["holes"] = [0] if len(c["tiles"]) == 1 else [int(x) for x in rng.integers(0, len(c["tiles"]) + 1, size=int(rng.choice([0, 0, 1])))]
    return c


def check_deep_merge_thr(ctx, cases, smh, do_agree=True):
    allgood = True
    for case in cases:
        rots = _rot_arrays(case)
        keys = [m.tobytes() for m in rots]
        thr2 = case["thr"]
        vals = [float(np.float32(thr2))] + [float(np.float32(t["thr"])) for t in case["tiles"]]
        for t in case["tiles"]:
            for s in t["subs"]:
                vals.extend(float(x) for x in _f32(s["v"]))
        rank = _ranker(vals)
        nd = len(case["tiles"][0]["shape"])
        size = sum(len(t["subs"]) * int(np.prod(t["shape"])) for t in case["tiles"]) + 10 * len(case["tiles"])
        try:
            handler = smh.handler()
            stores, subs_abs = [], []
            for t in case["tiles"]:
                an = _new_analyzer(t["shape"], t["thr"], False, handler, offset=t["offset"], cfg={"thr_type": "float"})
                for s in t["subs"]:
                    a = np.array(s["v"], dtype=np.float32).reshape(t["shape"])
                    an(scores=a, rotation_matrix=rots[s["r"]])
                    subs_abs.append((tuple(t["offset"]), a, keys[s["r"]]))
                stores.append(_own(tuple(an)))
            order = list(range(len(stores)))
            for h in sorted(set(int(x) for x in case.get("holes", [])), reverse=True):
                order.insert(min(h, len(order)), -1)
            given = [None if i < 0 else stores[i] for i in order]
            res = _merge_impl(given, thr2, False, cfg={"thr_type": "float"})
            if res is None:
                ctx.spec("merge: partial results were given, a result comes back", case, False, key="merge:no-result", size=size)
                allgood = False
                continue
            if do_agree:
                model = ctx.driver.call("c04.merge", thr=rank[float(np.float32(thr2))],
                                        stores=[None if g is None else _store_req(g, rank) for g in given])
                allgood &= ctx.agree(f"merge(score_threshold {case['direction']}d) == model merge", case, _store_req(res, rank), model)
            if case["direction"] == "raise":
                out_shape = tuple(int(max(t["offset"][ax] + t["shape"][ax] for t in case["tiles"])) for ax in range(nd))
                allgood &= spec_store(ctx, "merge", case, thr2, out_shape, subs_abs, res[0], res[2], res[3], size=size)
        except Exception:
            ctx.spec("merge: partial results are accepted", case, False, traceback.format_exc()[-1500:], key="merge:raised", size=size)
            allgood = False
            continue
        finally:
            _cleanup_tmpfiles()
        ctx.count(f"deep:merge-threshold={case['direction']}")
        ctx.count(f"deep:merge-threshold:tiles={len(case['tiles'])}")
        if sum(1 for t in case["tiles"] if t["subs"]) >= 2:
            ctx.distinct(("deep-merge-thr", case["direction"], [(t["offset"], t["shape"], rank[float(np.float32(t["thr"]))], [s["r"] for s in t["subs"]]) for t in case["tiles"]],
                          rank[float(np.float32(thr2))], hash(json.dumps(case["tiles"])) & 0xFFFFFFFF))
    return allgood


def _rot_string(m):
    return "_".join(np.asarray(m).ravel().astype(str))


def gen_memmap_handler(rng):
    nd = int(rng.choice([1, 2, 3]))
    fshape = [int(x) for x in rng.integers(1, 6, size=nd)]
    start = [int(rng.integers(0, g)) for g in fshape]
    box = [int(rng.integers(1, g - o + 1)) for g, o in zip(fshape, start)]
    whole = bool(rng.random() < 0.25)
    if whole:
        start, box = [0] * nd, list(fshape)
    seen, rots = set(), []
    for m in _rot_pool(rng, nd, int(rng.integers(1, 4)) + 2):
        if _rot_string(m) not in seen:          # the handler names rotations by the decimal strings of their entries
            seen.add(_rot_string(m))
            rots.append(m)
    rots = rots[:max(1, len(rots) - 2)]
    nrot = len(rots)
    nfile = int(np.prod(fshape))
    return {"kind": "memmap-handler", "shape": fshape, "start": start, "box": box, "whole": whole,
            "dtype": str(rng.choice(["float32", "float64", "int32"])),
            "rots": [{"dtype": str(m.dtype), "m": m.tolist()} for m in rots],
            "init": [[int(x) for x in rng.integers(-5, 6, size=nfile)] for _ in range(nrot)],
            "unknown": bool(rng.random() < 0.08),
            "subs": [{"r": int(rng.integers(nrot)), "v": [int(x) for x in rng.integers(-9, 10, size=int(np.prod(box)))]}
                     for _ in range(int(rng.integers(0, 7)))]}


def check_memmap_handler(ctx, cases, do_agree=True):
    """`MemmapHandler`: one file per rotation, a submission is added to a box of the file of its rotation"""
    from tme.analyzer import MemmapHandler
    from pv import env as _env
    allgood = True
    for case in cases:
        rots = _rot_arrays(case)
        names = [_rot_string(m) for m in rots]
        if len(set(names)) < len(names):
            ctx.count("deep:memmap-handler:rotation-strings-collide-skipped")
            continue
        dt = np.dtype(case["dtype"])
        fshape = tuple(case["shape"])
        files = []
        try:
            for j, init in enumerate(case["init"]):
                check_memmap_handler.n += 1
                fn = os.path.join(_env.scratch(), "c04_mh_%d_%d.bin" % (os.getpid(), check_memmap_handler.n))
                np.array(init, dtype=dt).reshape(fshape).tofile(fn)
                files.append(fn)
            _merge_impl.tmpfiles += files
            known = len(rots) - 1 if case.get("unknown") and len(rots) > 1 else len(rots)
            trans = {names[j]: files[j] for j in range(known)}
            box = tuple(slice(o, o + b) for o, b in zip(case["start"], case["box"]))
            mh = MemmapHandler(path_translation=trans, shape=fshape, dtype=dt, indices=None if case["whole"] else box)
            if case["whole"] and len(case["subs"]) % 2:
                mh.update_indices(box)
            outcome = "ok"
            for s in case["subs"]:
                try:
                    mh(np.array(s["v"], dtype=dt).reshape(case["box"]), rots[s["r"]])
                except KeyError:
                    outcome = "KeyError"
                    break
            got = outcome if outcome != "ok" else [[int(x) for x in np.fromfile(f, dtype=dt)] for f in files[:known]]
            exact = outcome != "ok" or all(np.all(np.fromfile(f, dtype=dt) == np.array(g)) for f, g in zip(files, got))
            if do_agree:
                model = ctx.driver.call("c04.memmapHandler", shape=list(fshape), starts=case["start"],
                                        files=[case["init"][j] for j in range(known)],
                                        paths=[[names[j], j] for j in range(known)],
                                        subs=[{"shape": case["box"], "d": s["v"], "k": names[s["r"]]} for s in case["subs"]])
                allgood &= ctx.agree("MemmapHandler: files after the submissions == model memmapHandlerRun", case, got, model)
            # the clause: a file holds what it held plus everything submitted for its rotation, on the box; nothing else moves
            if outcome == "ok":
                want = [np.array(case["init"][j], dtype=np.int64).reshape(fshape) for j in range(known)]
                for s in case["subs"]:
                    want[s["r"]][box] += np.array(s["v"], dtype=np.int64).reshape(case["box"])
                ok = exact and all(w.ravel().tolist() == g for w, g in zip(want, got))
                allgood &= ctx.spec("MemmapHandler: every file holds its initial content plus the arrays submitted for its rotation", case, bool(ok),
                                    key="memmap-handler:sum", size=len(case["subs"]) * int(np.prod(fshape)))
            ctx.count("deep:memmap-handler")
            ctx.count(f"deep:memmap-handler:outcome={outcome}")
            ctx.count(f"deep:memmap-handler:whole-file={case['whole']}")
            if len(case["subs"]) >= 2 and outcome == "ok":
                ctx.distinct(("memmap-handler", case["shape"], case["start"], case["box"], [s["r"] for s in case["subs"]],
                              hash(json.dumps(case["subs"])) & 0xFFFFFFFF))
        except Exception:
            ctx.spec("MemmapHandler: submissions are accepted", case, False, traceback.format_exc()[-1500:], key="memmap-handler:raised")
            allgood = False
        finally:
            _cleanup_tmpfiles()
    return allgood


check_memmap_handler.n = 0


def check_translations_aggregator(ctx):
    """`_MaxScoreOverTranslations` cannot be run on this tree: its `__call__` reads `self.observed_rotations`, which no
    constructor sets, and calls `be.from_sharedarr` with keywords the backends do not take.  Recorded, not modelled."""
    from tme.analyzer import _MaxScoreOverTranslations
    try:
        t = _MaxScoreOverTranslations(shape=(2,), thread_safe=False)
        segs = _segments(t)
        try:
            t(np.zeros((2, 3, 3, 3), dtype=np.float32), np.eye(3), template_shape=(2, 2, 2, 2))
            outcome = "runs"
        except Exception as e:
            outcome = type(e).__name__
        finally:
            _release(segs)
    except Exception as e:
        outcome = "constructor:" + type(e).__name__
    ctx.count(f"deep:_MaxScoreOverTranslations.__call__={outcome}")
    ctx.note("_MaxScoreOverTranslations.__call__ on this tree: %s (not modelled: nothing to observe)" % outcome)


def run_deep(ctx, smh, rng, do_agree=True):
    _close_leaked_fds({})       # what the earlier streams' temporary files left behind (their memory maps are gone)
    modes = ["nolock", "unique", "unique-repeats", "matkeys"]
    n = ctx.budget(160, 3000)
    cases = [gen_deep_history(rng, modes[i % 4] if i % 8 < 7 else "matkeys") for i in range(n)]
    # deliberate corners: ties between different rotations, a threshold above everything, negative scores only
    for mode in modes:
        c = gen_deep_history(rng, mode)
        if len(c["subs"]) >= 2:
            c["subs"][1]["v"] = list(c["subs"][0]["v"])
        cases.append(c)
    ok = check_deep_histories(ctx, cases, smh, do_agree)
    ctx.sample({k: v for k, v in cases[0].items() if k != "rots"})
    ok &= check_deep_memmap(ctx, [gen_deep_memmap(rng) for _ in range(ctx.budget(40, 500))], smh, do_agree)
    ok &= check_deep_merge_thr(ctx, [gen_deep_merge_thr(rng) for _ in range(ctx.budget(60, 800))], smh, do_agree)
    ok &= check_memmap_handler(ctx, [gen_memmap_handler(rng) for _ in range(ctx.budget(60, 1000))], do_agree)
    check_translations_aggregator(ctx)
    return ok


# ----------------------------------------------------------------------------------------------
# obligations read from the source under test

def extract(ctx):
    import inspect
    import ast
    from tme.analyzer import MaxScoreOverRotations
    from tme.backends import backend as be
    an = MaxScoreOverRotations(shape=(2,), thread_safe=False)
    ctx.obligation("numpy backend takes the lock path (model = `submit` with setdefault)", an.lock_is_nullcontext is False,
                   {"lock_is_nullcontext": an.lock_is_nullcontext})
    sc, off, rt, tab = tuple(an)
    ctx.obligation("fresh analyzer: threshold default 0, marker -1, empty table (model `init`)",
                   bool(np.all(sc == 0)) and bool(np.all(rt == -1)) and tab == {} and sc.dtype == np.float32 and rt.dtype.kind == "i",
                   {"scores": sc.tolist(), "rots": rt.tolist(), "dtypes": [str(sc.dtype), str(rt.dtype)]})
    try:
        for shm in (an.scores[0], an.rotations[0]):
            shm.close()
            shm.unlink()
    except Exception:
        pass
    import textwrap
    src = inspect.getsource(MaxScoreOverRotations.__call__)
    tree = ast.parse(textwrap.dedent(src))
    withs = [n for n in ast.walk(tree) if isinstance(n, ast.With)]
    uses_lock = any(isinstance(i.context_expr, ast.Attribute) and i.context_expr.attr == "lock" for w in withs for i in w.items)
    ctx.obligation("`__call__` performs its read-modify-write inside `with self.lock` (step model: lock = mutual exclusion)",
                   uses_lock, {"with_statements": len(withs)})
    sig = inspect.signature(MaxScoreOverRotations.__init__)
    ctx.obligation("constructor defaults: score_threshold=0, thread_safe=True",
                   sig.parameters["score_threshold"].default == 0 and sig.parameters["thread_safe"].default is True,
                   {k: repr(v.default) for k, v in sig.parameters.items() if k in ("score_threshold", "thread_safe")})
    # second layer: the stand-in backend is what the backends with unshared arrays define, and the analyzer decides on that
    def _returns_its_argument(fn):
        t = ast.parse(textwrap.dedent(inspect.getsource(fn)))
        f = t.body[0]
        body = [n for n in f.body if not (isinstance(n, ast.Expr) and isinstance(getattr(n, "value", None), ast.Constant))]
        names = [a.arg for a in f.args.args if a.arg != "self"]
        return len(body) == 1 and isinstance(body[0], ast.Return) and isinstance(body[0].value, ast.Name) and names[:1] == [body[0].value.id]
    from tme.backends.cupy_backend import CupyBackend
    from tme.backends.jax_backend import JaxBackend
    from tme.backends.mlx_backend import MLXBackend
    ident = {c.__name__: [_returns_its_argument(c.to_sharedarr), _returns_its_argument(c.from_sharedarr)] for c in (CupyBackend, JaxBackend, MLXBackend)}
    ctx.obligation("cupy / jax / mlx backends: to_sharedarr and from_sharedarr return their argument (the stand-in backend of the second layer)",
                   all(all(v) for v in ident.values()), ident)
    isrc = inspect.getsource(MaxScoreOverRotations.__init__)
    ctx.obligation("`lock_is_nullcontext` is decided by the type of the shared scores, `_inversion_mapping` = that and only_unique_rotations",
                   "self.lock_is_nullcontext = isinstance(self.scores, type(be.zeros((1))))" in isrc
                   and "self._inversion_mapping = self.lock_is_nullcontext and only_unique_rotations" in isrc, None)
    ctx.obligation("backend integer / float dtypes are int32 / float32 (identifiers fit, ranks are exact)",
                   be._int_dtype is np.int32 and be._float_dtype is np.float32, {"int": str(be._int_dtype), "float": str(be._float_dtype)})


# ----------------------------------------------------------------------------------------------

def _shm_listing():
    return set(os.path.basename(p) for p in glob.glob("/dev/shm/psm_*"))


def run(ctx):
    from pv import env as _env
    os.environ["TMPDIR"] = _env.scratch()      # memmap-backed merges put their files here
    rng = ctx.rng("main")
    smh = _Shm()
    pool = None
    try:
        # corpus first
        here = os.path.dirname(os.path.dirname(os.path.dirname(os.path.dirname(os.path.abspath(__file__)))))
        for f in sorted(glob.glob(os.path.join(here, "corpus", "C04_*.json"))):
            rec = json.load(open(f))
            _dispatch(ctx, rec["input"] if "input" in rec else rec, smh, None)
            ctx.count("corpus")

        # 1. histories
        n_hist = ctx.budget(400, 10000)
        cases = [gen_history(rng, p_ts=ctx.budget(0.3, 0.12)) for _ in range(n_hist)]
        # deliberate corner cases
        for nd in (1, 2, 3):
            c = gen_history(rng, nd=nd, min_len=2)
            c["subs"] = [c["subs"][0], dict(c["subs"][0])]         # identical arrays, possibly different rotation
            cases.append(c)
        # more than 10 000 voxels; tables beyond the range of 8-bit identifiers
        for nd in ctx.budget((1, 2, 3), (1, 2, 3, 4, 1, 2, 3)):
            cases.append(gen_history(rng, nd=nd, big=True, min_len=1, p_ts=0.0))
        for n in ctx.budget((140, 300), (130, 200, 260, 300, 520)):
            cases.append(gen_history(rng, nd=int(rng.integers(1, 4)), shape=[2, 2][:int(rng.integers(1, 3))], manyrot=n, p_ts=0.0))
        for i in range(0, len(cases), 500):
            check_histories(ctx, cases[i:i + 500], smh)
        ctx.sample({k: v for k, v in cases[0].items()})
        # identifiers beyond the range of 16-bit integers (clauses only: the model's table is a list)
        check_histories(ctx, [gen_synth(rng, n) for n in ctx.budget((33500,), (33500, 70000))], smh)

        # 2. post-processing frames
        n_post = ctx.budget(120, 2500)
        pcs = []
        prng = ctx.rng("post")
        for _ in range(n_post):
            nd = int(prng.integers(1, 4))
            post = _post_frame(prng, nd)
            if any(e <= 0 for e in _frame_crop(post)[1]):
                ctx.count("postprocess:empty-frame-skipped")
                continue
            c = gen_history(prng, nd=nd, shape=post["fast"], min_len=1)
            c["subs"] = c["subs"][:4]
            c["post"] = post
            c["thread_safe"] = bool(prng.random() < 0.05)
            pcs.append(c)
        for i in range(0, len(pcs), 500):
            check_histories(ctx, pcs[i:i + 500], smh)

        # 3. tilings / merge
        n_til = ctx.budget(150, 3000)
        trng = ctx.rng("tiling")
        tcs = [gen_tiling(trng) for _ in range(n_til)]
        tcs += [gen_tiling(trng, manyrot=True) for _ in range(ctx.budget(2, 8))]
        check_tilings(ctx, tcs, smh)
        ctx.sample({"kind": "tiling", "tiles": [{"offset": t["offset"], "shape": t["shape"], "n_subs": len(t["subs"])} for t in tcs[0]["tiles"]],
                    "thr": tcs[0]["thr"]})

        # 4. model-only schedules (sanity of the step model; the theorem covers all schedules)
        check_model_schedules(ctx, ctx.rng("sched"), ctx.budget(40, 400))

        # 5. real processes
        crng = ctx.rng("concurrent")
        pool = _Pool(4)
        ccs = []
        for i in range(ctx.budget(8, 60)):
            nproc = (2, 4, 3)[i % 3] if i >= 4 else (2 if i % 2 == 0 else 4)
            ccs.append(gen_concurrent(crng, nproc, slow=(i % 4 != 3)))
        for i in range(ctx.budget(4, 24)):
            ccs.append(gen_concurrent(crng, (3, 2, 4)[i % 3], slow=True, split=("uneven", "one-each")[i % 2]))
        check_concurrent(ctx, ccs, smh, pool)
        ctx.sample({"kind": "concurrent", "nproc": ccs[0]["nproc"], "shape": ccs[0]["shape"], "rounds": len(ccs[0]["work"][0]),
                    "delay_s": ccs[0]["delay"]})

        # 6. second layer: no-lock path / only_unique_rotations, reading rotations back, memory maps on disk, MemmapHandler
        run_deep(ctx, smh, ctx.rng("deep"))
    finally:
        if pool:
            pool.close()
        smh.close()


def _revive(x):
    """replay records spell non-finite floats as strings"""
    if isinstance(x, dict):
        return {k: _revive(v) for k, v in x.items()}
    if isinstance(x, list):
        return [_revive(v) for v in x]
    if isinstance(x, str) and x in ("inf", "-inf"):
        return float(x)
    return x


def _dispatch(ctx, case, smh, pool, do_agree=True):
    case = _revive(case)
    kind = case.get("kind")
    while kind is None and isinstance(case.get("case"), dict):
        case = case["case"]
        kind = case.get("kind")
    if kind == "tiling-none":
        return True
    if kind == "history":
        return check_histories(ctx, [case], smh, do_agree)
    if kind == "tiling":
        return check_tilings(ctx, [case], smh, do_agree)
    if kind == "deep-history":
        return check_deep_histories(ctx, [case], smh, do_agree)
    if kind == "deep-memmap":
        return check_deep_memmap(ctx, [case], smh, do_agree)
    if kind == "memmap-handler":
        return check_memmap_handler(ctx, [case], do_agree)
    if kind == "deep-merge-thr":
        return check_deep_merge_thr(ctx, [case], smh, do_agree)
    if kind == "concurrent":
        own = pool is None
        pool = pool or _Pool(case["nproc"])
        try:
            return check_concurrent(ctx, [case], smh, pool, do_agree)
        finally:
            if own:
                pool.close()
    raise ValueError("unknown case kind %r" % kind)


def search(ctx):
    """Correspondence or an obligation broke without a failing clause so far: widen the generators
    (larger shapes, longer histories, more tiles, more concurrent rounds) and evaluate the property only."""
    smh = _Shm()
    pool = None
    try:
        rng = ctx.rng("search")
        # first: the disagreeing inputs themselves, clause by clause (already done in run); then wider streams
        n = ctx.budget(600, 4000)
        check_histories(ctx, [gen_history(rng, wide=True, min_len=2) for _ in range(n)], smh, do_agree=False)
        pcs = []
        for _ in range(n // 3):
            nd = int(rng.integers(1, 4))
            post = _post_frame(rng, nd)
            if any(e <= 0 for e in _frame_crop(post)[1]):
                continue
            c = gen_history(rng, nd=nd, shape=post["fast"], min_len=1)
            c["subs"] = c["subs"][:4]
            c["post"] = post
            c["thread_safe"] = False
            pcs.append(c)
        check_histories(ctx, pcs, smh, do_agree=False)
        check_tilings(ctx, [gen_tiling(rng, wide=True) for _ in range(n // 2)] + [gen_tiling(rng, manyrot=True) for _ in range(3)], smh, do_agree=False)
        check_histories(ctx, [gen_history(rng, nd=1, shape=[3], manyrot=300, p_ts=0.0), gen_synth(rng, 33500), gen_synth(rng, 70000)]
                        + [gen_history(rng, nd=nd, big=True, min_len=1, p_ts=0.0) for nd in (1, 2, 3)], smh, do_agree=False)
        run_deep(ctx, smh, rng, do_agree=False)
        if not ctx.spec_failures:
            pool = _Pool(4)
            ccs = [gen_concurrent(rng, 2 + (i % 3), slow=True, split=("even", "even", "uneven", "one-each")[i % 4]) for i in range(ctx.budget(12, 40))]
            check_concurrent(ctx, ccs, smh, pool, do_agree=False)
        ctx.note("search: widened generators evaluated on the implementation (spec only)")
    finally:
        if pool:
            pool.close()
        smh.close()


def replay(ctx, rec):
    smh = _Shm()
    try:
        inp = rec.get("input", rec)
        _dispatch(ctx, inp, smh, None)
    finally:
        smh.close()
