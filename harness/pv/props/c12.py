"""C12 — Fourier filters: consistent shapes, symmetric, bounded, stateless, composable.

Leg B: the real filter classes of the repo (BandPassFilter, LinearWhiteningFilter, WedgeReconstructed,
Wedge, CTF, Compose) are run on generated shapes / arguments / call histories / compositions and
 * compared with the Lean model (Model/C12.lean through the driver): per-axis index maps, band-pass
   masks (bit-exact for hard edges, 1e-12 for Gaussian), whitening interpolation (given the radial
   averages the real code estimated), continuous wedge masks (bit-exact), call-time argument merging
   (effective arguments recorded by wrapping the static constructors) and the Compose loop;
 * checked clause by clause against the property itself (shape asked for, half = part of full,
   real / range, negation symmetry, zero frequency, composition = product of the parts, result of a
   call independent of earlier calls, object attributes untouched)."""
import contextlib
import copy
import glob
import hashlib
import inspect
import itertools
import json
import math
import os

import numpy as np

ID = "C12"
RULE = ("generated call histories (1-4 calls with differing keyword arguments on one object, arguments split at random "
        "between constructor and call) for every filter class on 2-D/3-D shapes with odd and even extents on every "
        "axis (exhaustive small 2-D shapes for band-pass and continuous wedge), hard/Gaussian edges, cut-offs incl. "
        "exact grid values, sampling rates, tilt ranges and all opening/tilt axis pairs; compositions of all subsets/"
        "orders of {band-pass, whitening, wedge, CTF}; widened stream (pv/c12_wide.py): argument representations (int / float / "
        "numpy scalars, tuple / list / float64 / float32 arrays, shapes as list / ndarray), extents up to 49 incl. primes, powers of "
        "two and extents 2 / 3 next to large ones, shape-preserving histories, results overwritten by the caller, repeated and "
        "unmodified arguments, copies / pickles of used objects, per-call whitening data in several dtypes / layouts / scales with an "
        "independent radial average, stacks (batch_dimension=0), reconstruction filters, astigmatic and tilt-stack CTF, reused / "
        "nested / full-spectrum compositions, evaluation order across two interpreters, float64 backend. distinct = distinct "
        "(filter, shape, arguments) tuples; shapes with all extents <= 2 and repeated argument tuples are not counted")
ASSUMPTIONS = [
    "exp, sqrt, tan, sin and scipy's ndimage.mean / map_coordinates are exercised, not modelled: the radial averages and the wedge "
    "limits tan(.) the real code computes enter the Lean model as inputs; Gaussian masks are compared at 1e-12",
    "IEEE-754 sign symmetry ((-a)/(-b) = a/b, (-x)^2 = x^2) is assumed of Float (structure SignLaws, proved for the exact Rat instance)",
    "extent-1 axes are excluded (fftfreqn divides by int(1*0.5) = 0 there); filters are generated for extents >= 2",
    "LinearWhiteningFilter only ever produces the half-spectrum shape (it has no return_real_fourier switch); its symmetry is checked on "
    "the leading axes and on the self-conjugate planes of the last axis",
    "per-tilt step wedge, tilt-stack Wedge and CTF values are not modelled (interpolation / sin numerics): shape, half-of-full, range and "
    "statelessness clauses are evaluated on the real arrays only; no symmetry is claimed for them",
    "LinearWhiteningFilter: batch_dimension is exercised for axis 0 only (scipy.ndimage.mean cannot broadcast the labels otherwise) and "
    "shapes are not passed as ndarray (the code tests `if shape`); the independent radial average skips inputs with a voxel within 1e-9 "
    "of a bin edge and compares at 1e-9 (complex128 input) / 1e-5 (complex64 input: two float32 roundings per sample before the mean)",
    "results of one list of calls are required to agree to 1e-9 between this process and a fresh interpreter evaluating the list in "
    "reverse order (same binaries, same inputs: deterministic)",
]
TRUSTED = ["C12: numpy element-wise arithmetic, exp/tan/sin, scipy.ndimage.mean and map_coordinates (order 1, mode constant)"]

TOL_G = 1e-12


# ----------------------------------------------------------------------------- helpers
def fr(x):
    """exact transport of a float: [numerator, denominator]"""
    if x is None:
        return None
    p, q = float(x).as_integer_ratio()
    return [p, q]


def unfl(lst, shape=None):
    a = np.array([math.ldexp(x[0], x[1]) if isinstance(x, list) else float(x) for x in lst], dtype=np.float64)
    return a.reshape(shape) if shape is not None else a


def canon(v):
    """stable, type-preserving text form of an argument value"""
    if v is None:
        return "None"
    if isinstance(v, (bool, np.bool_)):
        return "b:" + str(bool(v))
    if isinstance(v, (int, np.integer)):
        return "i:" + str(int(v))
    if isinstance(v, (float, np.floating)):
        return "f:" + float(v).hex()
    if isinstance(v, str):
        return "s:" + v
    if isinstance(v, np.ndarray):
        return "a:" + str(v.dtype) + ":" + str(v.shape) + ":" + hashlib.sha1(np.ascontiguousarray(v).tobytes()).hexdigest()[:16]
    if isinstance(v, (tuple, list)):
        return "[" + ",".join(canon(x) for x in v) + "]"
    return "r:" + repr(v)


def canon_kw(d):
    return [[str(k), canon(v)] for k, v in d.items()]


def snapshot(obj):
    return {k: canon(v) for k, v in vars(obj).items()}


@contextlib.contextmanager
def record(cls, names, sink):
    """wrap the mask constructors of `cls` so that the effective arguments of every call are recorded"""
    saved = {}
    for name in names:
        raw = inspect.getattr_static(cls, name)
        saved[name] = raw
        if isinstance(raw, staticmethod):
            f = raw.__func__

            def w(*a, __f=f, __n=name, **k):
                sink.append((__n, dict(k)))
                return __f(*a, **k)
            setattr(cls, name, staticmethod(w))
        else:
            def w(self, *a, __f=raw, __n=name, **k):
                sink.append((__n, dict(k)))
                return __f(self, *a, **k)
            setattr(cls, name, w)
    try:
        yield
    finally:
        for name, raw in saved.items():
            setattr(cls, name, raw)


_AX = {}


def axis(ctx, n):
    if n not in _AX:
        _AX[n] = ctx.driver.call("c12.axis", n=int(n))
    return _AX[n]


def negated(ctx, arr, axes=None):
    """arr read at the negated frequency on the given axes (index map = Lean `negPos`)"""
    axes = range(arr.ndim) if axes is None else axes
    out = arr
    for ax in axes:
        out = np.take(out, axis(ctx, arr.shape[ax])["neg"], axis=ax)
    return out


def asym_positions(ctx, arr, tol, axes=None):
    d = np.abs(negated(ctx, arr, axes) - arr)
    return np.argwhere(~(d <= tol))


def half_symmetry_bad(ctx, half, n_last, tol):
    """number of voxels of a half-spectrum array that break negation symmetry where it is observable:
    every leading axis on its own is not required; the full negation on the self-conjugate planes is"""
    bad = 0
    planes = [0] + ([n_last // 2] if n_last % 2 == 0 and n_last // 2 < half.shape[-1] else [])
    for l in planes:
        p = half[..., l]
        bad += int((~(np.abs(negated(ctx, p) - p) <= tol)).sum())
    return bad


def parity(shape):
    return "".join("e" if s % 2 == 0 else "o" for s in shape)


def rand_shape(rng, lo=2, hi=11, nd=None):
    nd = int(rng.integers(2, 4)) if nd is None else nd
    hi = hi if nd == 2 else min(hi, 9)
    return tuple(int(x) for x in rng.integers(lo, hi + 1, size=nd))


def half_shape(shape):
    return tuple(shape[:-1]) + (shape[-1] // 2 + 1,)


def nontrivial(shape):
    return max(shape) > 2


# ----------------------------------------------------------------------------- source obligations
def source_obligations(ctx):
    from tme.preprocessing.frequency_filters import BandPassFilter
    from tme.preprocessing.tilt_series import Wedge, WedgeReconstructed, CTF
    from tme.preprocessing import Compose
    for cls in (BandPassFilter, Wedge, WedgeReconstructed, CTF):
        src = inspect.getsource(cls.__call__)
        ok = "vars(self).copy()" in src and "vars(self).update" not in src and "func_args = vars(self)\n" not in src \
            and "self.__dict__" not in src and "setattr(self" not in src
        ctx.obligation(f"{cls.__name__}.__call__ merges into a copy of vars(self) (model: callCopy)", ok,
                       None if ok else src[:600])
    from tme.preprocessing.frequency_filters import LinearWhiteningFilter
    src = inspect.getsource(LinearWhiteningFilter.__call__)
    ok = "axes=tuple(range(filter_mask.ndim - 1))" in src
    ctx.obligation("LinearWhiteningFilter.__call__ un-shifts every axis of the mask but its last (model: whitenShiftAxes)", ok,
                   None if ok else src[-700:])
    src = inspect.getsource(Compose.__call__)
    ok = "kwargs.update(meta)" in src and "be.multiply(ret[\"data\"], prev_data" in src
    ctx.obligation("Compose.__call__ forwards meta and multiplies in place (model: composeLoop)", ok, None if ok else src[:800])


# ----------------------------------------------------------------------------- per-axis helpers
def check_axes(ctx):
    from tme.preprocessing._utils import fftfreqn, shift_fourier, crop_real_fourier, compute_fourier_shape
    N = ctx.budget(48, 160)
    for n in range(2, N + 1):
        m = axis(ctx, n)
        ar = np.arange(n)
        shifted = np.asarray(shift_fourier(ar.copy(), False))
        centred = np.asarray(fftfreqn((n, 2), sampling_rate=None))[0][:, 0]
        impl = {"src": shifted.tolist(), "half": int(np.asarray(crop_real_fourier(ar[None, :])).shape[-1]),
                "fourier": [int(x) for x in compute_fourier_shape((3, n), False)],
                "freq": [int(round(x)) for x in np.asarray(shift_fourier(centred.copy(), False))]}
        model = {"src": m["src"], "half": m["half"], "fourier": [3, m["half"]], "freq": m["freq"]}
        ctx.agree("axis helpers (shift_fourier, crop_real_fourier, compute_fourier_shape, fftfreqn)", {"n": n}, impl, model)
        # spec: the shifted grid is the DC-first frequency axis (numpy's fftfreq), Nyquist sign aside
        ref = np.round(np.fft.fftfreq(n) * n).astype(int)
        ok = np.array_equal(np.abs(impl["freq"]), np.abs(ref)) and impl["freq"][0] == 0 and impl["half"] == n // 2 + 1
        ctx.spec("frequency grid is DC-first after shift_fourier; half length n//2+1", {"kind": "axis", "n": n}, ok, impl,
                 key="_utils:grid")
        # spec for the Lean index map itself: negation is an involution matching numpy's (-k) mod n
        ctx.spec("negation index map", {"kind": "axis", "n": n}, m["neg"] == [(-j) % n for j in range(n)], key="model:negPos")
        ctx.count("axis:" + ("even" if n % 2 == 0 else "odd"))
        ctx.distinct(("axis", n))
    # shape_is_real_fourier grid: 0..h-1 over h-1 on the last axis, leading axes as usual
    for n0 in range(2, ctx.budget(9, 20)):
        for h in range(2, ctx.budget(9, 20)):
            g = np.asarray(fftfreqn((n0, h), sampling_rate=0.5, shape_is_real_fourier=True, return_sparse_grid=True)[1]).ravel()
            ctx.spec("half-spectrum grid i/(h-1)", {"kind": "rfgrid", "shape": [n0, h]}, np.allclose(g, np.arange(h) / (h - 1), atol=1e-15),
                     key="_utils:rfgrid")


# ----------------------------------------------------------------------------- band-pass
BP_DEFAULTS = dict(lowpass=None, highpass=None, sampling_rate=1, use_gaussian=True, return_real_fourier=False,
                   shape_is_real_fourier=False)


def gen_cut(rng, shape, sr):
    """cut-off lengths: random, or chosen so that the cut-off frequency hits a grid value exactly"""
    r = rng.random()
    if r < 0.2:
        return None
    if r < 0.5:
        n = int(rng.choice(shape))
        k = int(rng.integers(1, n // 2 + 1))
        c = k / (n // 2)                      # grid value on that axis
        return float(2 * np.max(sr) / c)      # 2*sr/lowpass == c (up to rounding)
    return float(np.round(rng.uniform(1.0, 40.0), int(rng.integers(0, 4))))


def gen_bp_final(rng, shape=None, wide=False):
    shape = rand_shape(rng, hi=13 if wide else 11) if shape is None else shape
    srk = rng.random()
    sr = 1 if srk < 0.3 else (float(np.round(rng.uniform(0.5, 4.0), 2)) if srk < 0.7 else
                              tuple(float(np.round(rng.uniform(0.5, 4.0), 1)) for _ in shape))
    gauss = bool(rng.random() < 0.4)
    lp, hp = gen_cut(rng, shape, sr), gen_cut(rng, shape, sr)
    if gauss and lp is None and hp is None:
        lp = 4.0
    rrf = bool(rng.random() < 0.5)
    sirf = bool(rng.random() < 0.2)
    return dict(shape=half_shape(shape) if sirf and rng.random() < 0.8 else shape, lowpass=lp, highpass=hp, sampling_rate=sr,
                use_gaussian=gauss, return_real_fourier=rrf, shape_is_real_fourier=sirf)


def decoy(rng, k, v):
    if k in ("use_gaussian", "return_real_fourier", "shape_is_real_fourier"):
        return not v
    if k in ("lowpass", "highpass"):
        return float(rng.uniform(2, 30))
    if k == "sampling_rate":
        return float(np.round(rng.uniform(0.5, 3), 2))
    return v


def split_args(rng, final, defaults, always_call=("shape",), base_ctor=None):
    """distribute the final argument values between constructor and call"""
    ctor, call = dict(base_ctor or {}), {}
    for k, v in final.items():
        if k in always_call:
            call[k] = v
            continue
        if base_ctor is not None:
            # object already exists: pass in the call whatever differs from its attributes (and sometimes what does not)
            if canon(ctor.get(k, defaults.get(k))) != canon(v) or rng.random() < 0.3:
                call[k] = v
            continue
        r = rng.random()
        if r < 0.4:
            ctor[k] = v
        elif r < 0.7:
            call[k] = v
            if rng.random() < 0.5:
                ctor[k] = decoy(rng, k, v)
        else:
            ctor[k] = decoy(rng, k, v)
            call[k] = v
    return ctor, call


def bp_model_args(eff):
    sr = eff.get("sampling_rate", 1)
    return dict(shape=[int(x) for x in eff["shape"]], lowpass=fr(eff.get("lowpass")), highpass=fr(eff.get("highpass")),
                sampling_rate=[fr(x) for x in np.atleast_1d(np.asarray(sr, dtype=np.float64))],
                gaussian=bool(eff.get("use_gaussian")), rrf=bool(eff.get("return_real_fourier", False)),
                sirf=bool(eff.get("shape_is_real_fourier", False)))


def bp_spec(ctx, eff, out, inp):
    """clauses of the property on one real band-pass result"""
    from tme.preprocessing.frequency_filters import BandPassFilter
    shape = tuple(int(x) for x in eff["shape"])
    gauss, rrf, sirf = bool(eff["use_gaussian"]), bool(eff["return_real_fourier"]), bool(eff["shape_is_real_fourier"])
    lp, hp = eff["lowpass"], eff["highpass"]
    tol = TOL_G if gauss else 0.0
    want = half_shape(shape) if (rrf and not sirf) else shape
    ok_shape = tuple(out.shape) == want
    ctx.spec("shape: full or half spectrum as asked", inp, ok_shape, {"got": out.shape, "want": want}, key="BandPassFilter:shape")
    if not ok_shape:
        return
    ok = np.isrealobj(out) and out.dtype.kind == "f" and bool(np.all(np.isfinite(out))) and float(out.min()) >= 0 and float(out.max()) <= 1 + tol
    if ok and not gauss:
        ok = bool(np.all((out == 0) | (out == 1)))
    ctx.spec("real and within [0,1] (hard edge: {0,1})", inp, ok, {"min": float(np.nanmin(out)), "max": float(np.nanmax(out))},
             key="BandPassFilter:range")
    static = BandPassFilter.gaussian_bandpass if gauss else BandPassFilter.discrete_bandpass
    args = dict(lowpass=lp, highpass=hp, sampling_rate=eff["sampling_rate"])
    direct = np.asarray(static(shape=shape, return_real_fourier=rrf, shape_is_real_fourier=sirf, **args))
    ctx.spec("result of a call = mask constructor applied to (constructor arguments overridden by the call's)", inp,
             direct.shape == out.shape and np.array_equal(direct, out), key="BandPassFilter:arguments")
    if not sirf:
        full = np.asarray(static(shape=shape, return_real_fourier=False, shape_is_real_fourier=False, **args))
        half = np.asarray(static(shape=shape, return_real_fourier=True, shape_is_real_fourier=False, **args))
        ctx.spec("half spectrum = part of the full one", inp,
                 half.shape == half_shape(shape) and full.shape == shape and np.array_equal(full[..., : shape[-1] // 2 + 1], half),
                 key="BandPassFilter:half-of-full")
        viarf = np.asarray(static(shape=half_shape(shape), return_real_fourier=False, shape_is_real_fourier=True, **args))
        ctx.spec("half-spectrum shape passed as such = crop of the full mask", inp,
                 viarf.shape == half.shape and bool(np.all(np.abs(viarf - half) <= tol)), key="BandPassFilter:rfshape-vs-crop")
        bad = asym_positions(ctx, full, tol)
        ctx.spec("symmetric under frequency negation", inp, len(bad) == 0, {"asymmetric": bad[:5].tolist()}, key="BandPassFilter:symmetry")
        dc = float(full.flat[0])
        if not gauss:
            # low-/high-pass semantics beyond DC: the passed voxels form a radial band (ties at the edge aside)
            r = rfft_radial_grid(shape, False)
            passed, blocked = r[full == 1], r[full == 0]
            okb = True
            if passed.size and blocked.size:
                lo_r, hi_r = passed.min(), passed.max()
                inside = blocked[(blocked > lo_r + 1e-9) & (blocked < hi_r - 1e-9)]
                okb = inside.size == 0
                if hp is None:
                    okb = okb and lo_r == 0
            ctx.spec("hard-edged pass band is a radial band (low-pass: a ball around the zero frequency)", inp, okb, key="BandPassFilter:pass-band")
    else:
        # a half-spectrum shape: leading axes two-sided
        bad = asym_positions(ctx, out, tol, axes=range(out.ndim - 1))
        ctx.spec("symmetric under frequency negation", inp, len(bad) == 0, {"asymmetric": bad[:5].tolist()}, key="BandPassFilter:symmetry")
        dc = float(out.flat[0])
    if hp is not None and hp > 0:
        ctx.spec("high-pass removes the zero frequency", inp, abs(dc) <= tol, {"dc": dc}, key="BandPassFilter:dc-highpass")
    elif lp is not None and lp > 0:
        ctx.spec("low-pass keeps the zero frequency", inp, abs(dc - 1) <= tol, {"dc": dc}, key="BandPassFilter:dc-lowpass")


def run_history(ctx, cls, names, ctor, calls, build_ctor=None, positional_shape=False):
    """run `calls` on ONE object; returns per call (output dict | exception name, recorded effective args), plus the
    model's (state, effective) for the same history and the attribute snapshots"""
    obj = cls(**ctor)
    before = snapshot(obj)
    cfg = canon_kw(vars(obj))
    outs, effs, snaps = [], [], []
    for kw in calls:
        sink = []
        with record(cls, names, sink):
            try:
                r = obj(**copy.deepcopy(kw))
                outs.append(r)
            except Exception as e:  # noqa
                outs.append("raised:" + type(e).__name__)
        effs.append(sink[0] if sink else None)
        snaps.append(snapshot(obj))
    hist = []
    for kw in calls:
        k = dict(kw)
        if positional_shape and "shape" in k:       # __call__(self, shape, **kwargs): merged last
            s = k.pop("shape")
            k["shape"] = s
        hist.append(canon_kw(k))
    model = ctx.driver.call("c12.calls", mode="copy", cfg=cfg, calls=hist)
    return obj, before, outs, effs, snaps, model


def eff_compare(ctx, name, inp, eff_real, eff_model, skip=()):
    a = sorted([k, canon(v)] for k, v in eff_real.items() if k not in skip)
    b = sorted([k, v] for k, v in eff_model if k not in skip)
    return ctx.agree(name, inp, a, b)


def data_of(r):
    return None if isinstance(r, str) else np.asarray(r["data"])


def same_result(a, b, tol=0.0):
    if isinstance(a, str) or isinstance(b, str):
        return a == b
    x, y = np.asarray(a["data"]), np.asarray(b["data"])
    return x.shape == y.shape and x.dtype == y.dtype and bool(np.all(np.abs(x.astype(np.float64) - y.astype(np.float64)) <= tol) if x.size else True)


def check_bandpass_history(ctx, rng, shapes=None, wide=False):
    from tme.preprocessing.frequency_filters import BandPassFilter
    ncall = int(rng.integers(1, 5))
    finals = [gen_bp_final(rng, shape=None if shapes is None else shapes[i % len(shapes)], wide=wide) for i in range(ncall)]
    ctor, first = split_args(rng, finals[0], BP_DEFAULTS)
    calls = [first]
    for f in finals[1:]:
        _, c = split_args(rng, f, BP_DEFAULTS, base_ctor={**BP_DEFAULTS, **ctor})
        calls.append(c)
    base = {**BP_DEFAULTS, **ctor}
    inp = {"kind": "bandpass", "ctor": ctor, "calls": calls}
    obj, before, outs, effs, snaps, model = run_history(ctx, BandPassFilter, ("discrete_bandpass", "gaussian_bandpass"), ctor, calls)
    reqs = []
    for i, kw in enumerate(calls):
        want = {**base, **kw}        # what the property says the call may depend on
        inp_i = {**inp, "call_index": i}
        ctx.count("bandpass:call#" + str(min(i, 3)))
        # -- spec: history independence and untouched attributes
        fresh = BandPassFilter(**ctor)(**copy.deepcopy(kw))
        ctx.spec("result independent of earlier calls (same object vs fresh object)", inp_i, same_result(outs[i], fresh),
                 {"reused": getattr(data_of(outs[i]), "shape", outs[i]), "fresh": np.asarray(fresh["data"]).shape},
                 key="BandPassFilter:stateful", size=len(json.dumps(canon_kw(ctor))) + sum(len(json.dumps(canon_kw(c))) for c in calls[: i + 1]))
        ctx.spec("__call__ leaves the object's attributes unchanged", inp_i, snaps[i] == before,
                 {"before": before, "after": snaps[i]}, key="BandPassFilter:attributes-mutated")
        # -- correspondence: effective arguments and the mask
        if effs[i] is not None:
            eff_compare(ctx, "BandPassFilter effective arguments = ctor ∪ kwargs (callCopy)", inp_i, effs[i][1], model["effective"][i])
            ctx.agree("BandPassFilter edge kind", inp_i, effs[i][0], "gaussian_bandpass" if want["use_gaussian"] else "discrete_bandpass")
        if isinstance(outs[i], str):
            ctx.spec("filter call succeeds", inp_i, False, outs[i], key="BandPassFilter:raised")
            continue
        reqs.append((i, want, ("c12.bandpass", bp_model_args(want))))
        bp_spec(ctx, want, np.asarray(outs[i]["data"]), inp_i)
        shape = tuple(want["shape"])
        if nontrivial(shape):
            ctx.distinct(("bandpass", shape, canon_kw({k: v for k, v in want.items() if k != "shape"})))
        ctx.count("bandpass:" + ("gauss" if want["use_gaussian"] else "hard") + ":" + ("rf-shape" if want["shape_is_real_fourier"] else
                                                                                   "half" if want["return_real_fourier"] else "full"))
        ctx.count(f"bandpass:ndim={len(shape)}:last-{'even' if shape[-1] % 2 == 0 else 'odd'}")
    ctx.agree("BandPassFilter state after the history", inp, sorted(canon_kw(vars(obj))), sorted(model["state"]))
    ms = ctx.driver.batch([r for _, _, r in reqs])
    for (i, want, _), m in zip(reqs, ms):
        out = np.asarray(outs[i]["data"])
        tol = TOL_G if want["use_gaussian"] else 0.0
        if isinstance(m, str):
            ctx.agree("BandPassFilter mask", {**inp, "call_index": i}, "array", m)
            continue
        md = unfl(m["data"], m["shape"])
        ctx.agree("BandPassFilter mask", {**inp, "call_index": i},
                  {"shape": list(out.shape), "equal": True},
                  {"shape": m["shape"], "equal": bool(md.shape == out.shape and np.all(np.abs(md - out) <= tol))})
    return inp


# ----------------------------------------------------------------------------- whitening
def check_whitening(ctx, rng, wide=False):
    from tme.preprocessing.frequency_filters import LinearWhiteningFilter
    shape = rand_shape(rng, lo=3, hi=12 if wide else 10)
    data = rng.normal(size=shape) + rng.uniform(0, 2)
    rf = np.fft.rfftn(data)
    lw = LinearWhiteningFilter()
    _, spec_ = lw._compute_spectrum(rf, None, None)
    if not np.all(np.isfinite(spec_)):
        ctx.count("whitening:nonfinite-spectrum-skipped")
        return
    targets = [shape, tuple(int(x) for x in rng.integers(3, 12, size=len(shape)))]
    calls = []
    for t in targets:
        c = dict(data_rfft=rf, shape=t, return_real_fourier=bool(rng.random() < 0.7))
        if rng.random() < 0.5:
            c["shape_is_real_fourier"] = False
        calls.append(c)
    calls.append(dict(data_rfft=rf, shape=half_shape(targets[1]), shape_is_real_fourier=True))
    calls.append(dict(data=data))
    if rng.random() < 0.5:
        calls.append(dict(data_rfft=rf, shape=shape, order=None))
    order = rng.permutation(len(calls))
    reqs, keep = [], []
    for j in order:
        kw = calls[j]
        inp = {"kind": "whitening", "data_shape": shape, "call": {k: (v if k not in ("data", "data_rfft") else "<array>") for k, v in kw.items()}}
        out = np.asarray(lw(**kw)["data"])            # the SAME object is reused
        fresh = np.asarray(LinearWhiteningFilter()(**kw)["data"])
        ctx.spec("result independent of earlier calls (same object vs fresh object)", inp, out.shape == fresh.shape and np.array_equal(out, fresh),
                 key="LinearWhiteningFilter:stateful")
        real_shape = kw.get("shape", shape)
        want = tuple(real_shape) if kw.get("shape_is_real_fourier") else half_shape(real_shape)
        if kw.get("order", 1) is None:
            want = half_shape(shape)
        ok_shape = tuple(out.shape) == want
        ctx.spec("shape: half spectrum of the requested shape", inp, ok_shape, {"got": out.shape, "want": want}, key="LinearWhiteningFilter:shape")
        if not ok_shape:
            continue
        ctx.spec("real and within [0,1]", inp, out.dtype.kind == "f" and bool(np.all(np.isfinite(out))) and out.min() >= 0 and out.max() <= 1 + 1e-12,
                 {"min": float(np.nanmin(out)), "max": float(np.nanmax(out))}, key="LinearWhiteningFilter:range")
        bad = asym_positions(ctx, out, 1e-12, axes=range(out.ndim - 1))
        ctx.spec("symmetric under frequency negation", inp, len(bad) == 0, {"asymmetric": bad[:5].tolist()}, key="LinearWhiteningFilter:symmetry")
        if kw.get("order", 1) is not None:
            ref = radial_profile_layout(spec_, real_shape, bool(kw.get("shape_is_real_fourier", False)))
            ctx.spec("whitening mask = radial profile laid out like rfftn (DC first, one-sided last axis)", inp,
                     ref.shape == out.shape and bool(np.all(np.abs(ref - out) <= 1e-9)),
                     {"maxdiff": float(np.abs(ref - out).max()) if ref.shape == out.shape else None}, key="LinearWhiteningFilter:layout")
        if not getattr(check_whitening, "_sampled", False):
            check_whitening._sampled = True
            ctx.sample({"what": "whitening", **inp, "out.shape": out.shape, "min": float(out.min()), "max": float(out.max())})
        ctx.count("whitening:" + ("order-none" if kw.get("order", 1) is None else "interpolated") + ":" + parity(want)[-1])
        ctx.distinct(("whiten", shape, want, kw.get("order", 1)))
        if kw.get("order", 1) is not None:
            reqs.append(("c12.whiten", dict(shape=[int(x) for x in real_shape], spectrum=[fr(x) for x in spec_],
                                            sirf=bool(kw.get("shape_is_real_fourier", False)))))
            keep.append((inp, out))
    for (inp, out), m in zip(keep, ctx.driver.batch(reqs)):
        md = unfl(m["data"], m["shape"]) if not isinstance(m, str) else None
        ctx.agree("LinearWhiteningFilter mask given the radial averages", inp, {"shape": list(out.shape), "equal": True},
                  m if md is None else {"shape": m["shape"], "equal": bool(md.shape == out.shape and np.all(np.abs(md - out) <= 1e-9))})


def rfft_radial_grid(shape, shape_is_rf):
    """independent (numpy fftfreq) radial grid, Nyquist = 1 on every axis; half-spectrum layout when asked"""
    if shape_is_rf:
        lead, h = shape[:-1], shape[-1]
        axes = [np.abs(np.fft.fftfreq(n) * n) / (n // 2) for n in lead] + [np.arange(h) / (h - 1)]
    else:
        axes = [np.abs(np.fft.fftfreq(n) * n) / (n // 2) for n in shape]
    g = np.meshgrid(*axes, indexing="ij")
    return np.sqrt(sum(x * x for x in g))


def radial_profile_layout(spec_, shape, shape_is_rf):
    hs = tuple(shape) if shape_is_rf else half_shape(shape)
    r = rfft_radial_grid(hs, True) if shape_is_rf else rfft_radial_grid(tuple(shape), False)[..., : shape[-1] // 2 + 1]
    c = r * (len(spec_) - 1)
    return np.interp(c, np.arange(len(spec_)), spec_, right=0.0)


# ----------------------------------------------------------------------------- wedges
WR_DEFAULTS = dict(angles=None, opening_axis=0, tilt_axis=2, weights=None, weight_wedge=False, create_continuous_wedge=False,
                   frequency_cutoff=0.5, reconstruction_filter=None)


def gen_wedge_final(rng, shape=None, continuous=True):
    shape = rand_shape(rng, lo=3, hi=10) if shape is None else shape
    oa, ta = (int(x) for x in rng.permutation(len(shape))[:2])
    if continuous:
        if rng.random() < 0.4:
            a = float(rng.integers(10, 80))
            angles = (a, a)
        else:
            angles = (float(rng.integers(0, 91)), float(rng.integers(0, 91)))
        if rng.random() < 0.3:
            angles = tuple(float(np.round(x + rng.uniform(-0.5, 0.5), 2)) for x in angles)
        fc = [0.5, 0.5, None, float(np.round(rng.uniform(0.1, 0.5), 2)), float(np.round(rng.uniform(0.5, 0.9), 2))][int(rng.integers(0, 5))]
        ww = bool(rng.random() < 0.2)
    else:
        n = int(rng.integers(1, 7))
        angles = tuple(float(x) for x in np.sort(rng.uniform(-70, 70, size=n)).round(1))
        fc = [0.5, None, 0.4][int(rng.integers(0, 3))]
        ww = bool(rng.random() < 0.5)
    return dict(shape=shape, angles=angles, opening_axis=oa, tilt_axis=ta, create_continuous_wedge=continuous, frequency_cutoff=fc,
                weight_wedge=ww, return_real_fourier=bool(rng.random() < 0.5))


_KNOWN_SEEN = {}


def spec_capped(ctx, clause, inp, ok, detail=None, key=None, cap=6):
    """like ctx.spec, but a failure under a listed known-finding key is recorded at most `cap` times (the
    harness keeps only the first few hundred failures: repeats of a known finding must not crowd out a new one)"""
    if not ok:
        from ..findings import known_for
        if key in known_for(ID):
            _KNOWN_SEEN[key] = _KNOWN_SEEN.get(key, 0) + 1
            if _KNOWN_SEEN[key] > cap:
                ctx.evaluations += 1
                ctx.count("known-finding-repeat:" + key)
                return ok
    return ctx.spec(clause, inp, ok, detail, key=key)


def wedge_known_key(ctx, full, eff):
    """classify an asymmetric continuous wedge: only the Nyquist rows of even opening/tilt extents, limits differ"""
    bad = asym_positions(ctx, full, 0.0)
    if len(bad) == 0:
        return None, bad
    shape = full.shape
    oa, ta = eff["opening_axis"], eff["tilt_axis"]
    a0, a1 = eff["angles"][0], eff["angles"][1]
    fc = eff["frequency_cutoff"]
    on_nyq = all(any(shape[ax] % 2 == 0 and p[ax] == shape[ax] // 2 for ax in (oa, ta)) for p in bad)
    if on_nyq and a0 != a1 and (fc is None or fc > 0.5):
        return "WedgeReconstructed.continuous_wedge:nyquist-row-asymmetric", bad
    return "WedgeReconstructed:symmetry", bad


def check_wedge_history(ctx, rng, continuous=True, shapes=None):
    from tme.preprocessing.tilt_series import WedgeReconstructed
    ncall = int(rng.integers(1, 4))
    finals = [gen_wedge_final(rng, shape=None if shapes is None else shapes[i % len(shapes)], continuous=continuous) for i in range(ncall)]
    # axes/angles usually fixed at construction; sometimes overridden per call
    ctor = {k: finals[0][k] for k in ("angles", "opening_axis", "tilt_axis", "create_continuous_wedge", "frequency_cutoff", "weight_wedge")
            if rng.random() < 0.8}
    base = {**WR_DEFAULTS, **ctor}
    calls = []
    for f in finals:
        nd = len(f["shape"])
        c = {"shape": f["shape"]}
        if rng.random() < 0.75:               # omitted = the full spectrum is asked for
            c["return_real_fourier"] = f["return_real_fourier"]
        for k in ("angles", "opening_axis", "tilt_axis", "create_continuous_wedge", "frequency_cutoff", "weight_wedge"):
            v = f[k]
            if k in ("opening_axis", "tilt_axis") and canon(base.get(k)) != canon(v):
                pass
            if k not in ctor or canon(ctor[k]) != canon(v):
                c[k] = v
        # keep the axis pair valid for this shape
        oa, ta = c.get("opening_axis", base["opening_axis"]), c.get("tilt_axis", base["tilt_axis"])
        if oa >= nd or ta >= nd or oa == ta:
            c["opening_axis"], c["tilt_axis"] = f["opening_axis"], f["tilt_axis"]
        calls.append(c)
    inp = {"kind": "wedge", "ctor": ctor, "calls": calls}
    obj, before, outs, effs, snaps, model = run_history(ctx, WedgeReconstructed, ("continuous_wedge", "step_wedge"), ctor, calls,
                                                        positional_shape=True)
    reqs = []
    for i, kw in enumerate(calls):
        want = {"return_real_fourier": False, **base, **kw}
        inp_i = {**inp, "call_index": i}
        fresh_obj = WedgeReconstructed(**ctor)
        try:
            fresh = fresh_obj(**copy.deepcopy(kw))
        except Exception as e:  # noqa
            fresh = "raised:" + type(e).__name__
        ctx.spec("result independent of earlier calls (same object vs fresh object)", inp_i, same_result(outs[i], fresh),
                 key="WedgeReconstructed:stateful")
        ctx.spec("__call__ leaves the object's attributes unchanged", inp_i, snaps[i] == before, {"before": before, "after": snaps[i]},
                 key="WedgeReconstructed:attributes-mutated")
        if effs[i] is not None:
            eff_compare(ctx, "WedgeReconstructed effective arguments = ctor ∪ kwargs (callCopy)", inp_i, effs[i][1], model["effective"][i],
                        skip=("weights",) if want["weight_wedge"] else ())
            ctx.agree("WedgeReconstructed wedge kind", inp_i, effs[i][0], "continuous_wedge" if want["create_continuous_wedge"] else "step_wedge")
        if isinstance(outs[i], str):
            ctx.spec("filter call succeeds", inp_i, False, outs[i], key="WedgeReconstructed:raised")
            continue
        out = np.asarray(outs[i]["data"])
        shape = tuple(want["shape"])
        rrf = bool(want["return_real_fourier"])
        want_shape = half_shape(shape) if rrf else shape
        ok_shape = tuple(out.shape) == want_shape
        ctx.spec("shape: full or half spectrum as asked", inp_i, ok_shape, {"got": out.shape, "want": want_shape}, key="WedgeReconstructed:shape")
        if not ok_shape:
            continue
        other = np.asarray(WedgeReconstructed(**ctor)(**{**copy.deepcopy(kw), "return_real_fourier": not rrf})["data"])
        full, half = (other, out) if rrf else (out, other)
        ctx.spec("half spectrum = part of the full one", inp_i,
                 full.shape == shape and half.shape == half_shape(shape) and np.array_equal(full[..., : shape[-1] // 2 + 1], half),
                 key="WedgeReconstructed:half-of-full")
        hi = 1.0
        if want["weight_wedge"] and not want["create_continuous_wedge"]:
            hi = 1.0 + 1e-6       # cos weights, clipped to max(weights) = at most 1
        okr = out.dtype.kind == "f" and bool(np.all(np.isfinite(out))) and float(out.min()) >= 0 and float(out.max()) <= hi
        if okr and not want["weight_wedge"]:
            okr = bool(np.all((out == 0) | (out == 1)))
        ctx.spec("real and within [0,1] (unweighted: {0,1})", inp_i, okr, {"min": float(out.min()), "max": float(out.max())},
                 key="WedgeReconstructed:range")
        kind = "continuous" if want["create_continuous_wedge"] else "step"
        ctx.count(f"wedge:{kind}:axes={want['opening_axis']}{want['tilt_axis']}:{parity(shape)}")
        ctx.count(f"wedge:{kind}:cutoff=" + ("none" if want["frequency_cutoff"] is None else "<=0.5" if want["frequency_cutoff"] <= 0.5 else ">0.5"))
        ctx.distinct(("wedge", kind, shape, canon_kw({k: v for k, v in want.items() if k != "shape"})))
        if want["create_continuous_wedge"]:
            key, bad = wedge_known_key(ctx, full, want)
            spec_capped(ctx, "symmetric under frequency negation", {"kind": "wedge", "ctor": want, "calls": [{"shape": shape, "return_real_fourier": False}],
                                                            "call_index": 0},
                     key is None, {"asymmetric": bad[:6].tolist(), "count": len(bad)}, key=key or "WedgeReconstructed:symmetry")
            a = want["angles"]
            reqs.append((inp_i, out, ("c12.wedge", dict(
                shape=list(shape), start=fr(np.tan(np.radians(90 - a[0]))), stop=fr(np.tan(np.radians(-1 * (90 - a[1])))),
                big=fr(np.tan(np.radians(90)) + 1), opening=int(want["opening_axis"]), tilt=int(want["tilt_axis"]),
                cutoff=fr(want["frequency_cutoff"]), rrf=rrf))))
    ctx.agree("WedgeReconstructed state after the history", inp, sorted(canon_kw(vars(obj))), sorted(model["state"]))
    if continuous and not isinstance(outs[0], str) and not getattr(check_wedge_history, "_sampled", False):
        check_wedge_history._sampled = True
        o0 = np.asarray(outs[0]["data"])
        ctx.sample({"what": "wedge history", "ctor": ctor, "calls": calls, "out[0].shape": o0.shape, "out[0] kept voxels": int(o0.sum()), "of": int(o0.size)})
    for (inp_i, out, _), m in zip(reqs, ctx.driver.batch([r for _, _, r in reqs])):
        md = unfl(m["data"], m["shape"]) if not isinstance(m, str) else None
        ctx.agree("continuous wedge mask", inp_i, {"shape": list(out.shape), "equal": True},
                  m if md is None else {"shape": m["shape"], "equal": bool(md.shape == out.shape and np.array_equal(md, out.astype(np.float64)))})
    return inp


def check_tilt_wedge(ctx, rng):
    """tilt-stack `Wedge`: shape of the stack, range, statelessness"""
    from tme.preprocessing.tilt_series import Wedge
    shape = rand_shape(rng, lo=3, hi=9, nd=3)
    oa, ta = (int(x) for x in rng.permutation(3)[:2])
    n = int(rng.integers(1, 6))
    angles = np.sort(rng.uniform(-60, 60, size=n)).round(1)
    weights = rng.uniform(0.5, 3, size=n).round(2)
    ctor = dict(shape=None, tilt_axis=ta, opening_axis=oa, angles=angles, weights=weights, weight_type=None, frequency_cutoff=0.5)
    w = Wedge(**ctor)
    before = snapshot(w)
    names = ("weight_angle", "weight_relion", "weight_grigorieff")
    calls = [dict(shape=shape, weight_type=wt) for wt in rng.permutation(np.array([None, "angle", "relion", "grigorieff"], dtype=object))]
    calls.append(dict(shape=rand_shape(rng, lo=3, hi=9, nd=3), weight_type=None, frequency_cutoff=None))
    hist = [canon_kw(c) for c in calls]
    model = ctx.driver.call("c12.calls", mode="copy", cfg=canon_kw(vars(w)), calls=hist)
    for i, kw in enumerate(calls):
        inp = {"kind": "tiltwedge", "ctor": ctor, "call": kw}
        sink = []
        with record(Wedge, names, sink):
            r = w(**kw)
        fresh = Wedge(**ctor)(**kw)
        ctx.spec("result independent of earlier calls (same object vs fresh object)", inp, same_result(r, fresh), key="Wedge:stateful")
        ctx.spec("__call__ leaves the object's attributes unchanged", inp, snapshot(w) == before, key="Wedge:attributes-mutated")
        if sink:
            eff_compare(ctx, "Wedge effective arguments = ctor ∪ kwargs (callCopy)", inp, sink[0][1], model["effective"][i],
                        skip=("weights",) if kw["weight_type"] == "angle" else ())
        out = np.asarray(r["data"])
        s = tuple(kw["shape"])
        want = (n,) + tuple(x for j, x in enumerate(s) if j != oa)
        ctx.spec("tilt stack shape", inp, tuple(out.shape) == want, {"got": out.shape, "want": want}, key="Wedge:shape")
        top = float(np.max(weights)) if kw["weight_type"] is None else 1.0
        ctx.spec("real, non-negative, bounded by the weights", inp,
                 out.dtype.kind == "f" and bool(np.all(np.isfinite(out))) and out.min() >= 0 and out.max() <= top * (1 + 1e-6), key="Wedge:range")
        ctx.count("tiltwedge:" + str(kw["weight_type"]))
        ctx.distinct(("tiltwedge", s, oa, ta, n, str(kw["weight_type"])))


def check_ctf(ctx, rng):
    from tme.preprocessing.tilt_series import CTF
    shape = rand_shape(rng, lo=3, hi=10)
    dfx = [float(rng.uniform(500, 30000))]
    if rng.random() < 0.5:
        dfx = np.array(dfx, dtype=np.float64)     # what CTF.from_file stores: an ndarray the object must not modify
    ctor = dict(shape=None, defocus_x=dfx, angles=[0], sampling_rate=float(np.round(rng.uniform(1, 6), 2)),
                phase_shift=[float(rng.choice([0, 0.3]))], flip_phase=bool(rng.random() < 0.5), return_real_fourier=bool(rng.random() < 0.5),
                amplitude_contrast=float(rng.choice([0.07, 0.1])))
    import copy as _copy
    ctor0 = _copy.deepcopy(ctor)          # the constructor arguments as the caller wrote them
    c = CTF(**ctor)
    before = snapshot(c)
    calls = [dict(shape=shape), dict(shape=rand_shape(rng, lo=3, hi=10), return_real_fourier=not ctor["return_real_fourier"]),
             dict(shape=shape, flip_phase=not ctor["flip_phase"]), dict(shape=shape)]
    model = ctx.driver.call("c12.calls", mode="copy", cfg=canon_kw(vars(c)), calls=[canon_kw(k) for k in calls])
    for i, kw in enumerate(calls):
        inp = {"kind": "ctf", "ctor": ctor, "call": kw, "call_index": i}
        sink = []
        with record(CTF, ("weight",), sink):
            r = c(**kw)
        fresh = CTF(**_copy.deepcopy(ctor0))(**kw)
        ctx.spec("result independent of earlier calls (same object vs fresh object)", inp, same_result(r, fresh), key="CTF:stateful")
        ctx.spec("__call__ leaves the object's attributes unchanged", inp, snapshot(c) == before, key="CTF:attributes-mutated")
        if sink:
            eff_compare(ctx, "CTF effective arguments = ctor ∪ kwargs (callCopy)", inp, sink[0][1], model["effective"][i])
        want = {**ctor, **kw}
        out = np.asarray(r["data"])
        s = tuple(want["shape"])
        ws = half_shape(s) if want["return_real_fourier"] else s
        ok_shape = tuple(out.shape) == ws
        ctx.spec("shape: full or half spectrum as asked", inp, ok_shape, {"got": out.shape, "want": ws}, key="CTF:shape")
        if not ok_shape:
            continue
        other = np.asarray(CTF(**ctor)(**{**kw, "return_real_fourier": not want["return_real_fourier"]})["data"])
        full, half = (other, out) if want["return_real_fourier"] else (out, other)
        ctx.spec("half spectrum = part of the full one", inp, full.shape == s and np.array_equal(full[..., : s[-1] // 2 + 1], half), key="CTF:half-of-full")
        lo = 0.0 if want["flip_phase"] else -1.0
        ctx.spec("real and within the documented range", inp, out.dtype.kind == "f" and bool(np.all(np.isfinite(out))) and out.min() >= lo - 1e-6 and out.max() <= 1 + 1e-6,
                 {"min": float(out.min()), "max": float(out.max())}, key="CTF:range")
        ctx.count("ctf:" + ("half" if want["return_real_fourier"] else "full") + ":" + ("flip" if want["flip_phase"] else "noflip"))
        ctx.distinct(("ctf", s, canon_kw({k: v for k, v in want.items() if k != "shape"})))


# ----------------------------------------------------------------------------- composition
def make_parts(rng, shape):
    from tme.preprocessing.frequency_filters import BandPassFilter, LinearWhiteningFilter
    from tme.preprocessing.tilt_series import WedgeReconstructed, CTF
    nd = len(shape)
    oa, ta = (int(x) for x in rng.permutation(nd)[:2])
    lp, hp = float(rng.uniform(2, 8)), float(rng.uniform(10, 40))
    a = float(rng.integers(20, 70))
    steps = tuple(float(x) for x in np.sort(rng.uniform(-60, 60, size=4)).round(0))
    sr = float(rng.choice([1.0, 1.5, 2.0, 3.3]))     # one sampling rate per data set, shared by all its filters
    spec_ = {
        "bp": lambda: BandPassFilter(lowpass=lp, highpass=hp if rng.random() < 0.5 else None, sampling_rate=sr, use_gaussian=False),
        "bg": lambda: BandPassFilter(lowpass=lp, highpass=None, sampling_rate=sr, use_gaussian=True),
        "lw": lambda: LinearWhiteningFilter(),
        "wc": lambda: WedgeReconstructed(angles=(a, a), opening_axis=oa, tilt_axis=ta, create_continuous_wedge=True),
        "ws": lambda: WedgeReconstructed(angles=steps, opening_axis=oa, tilt_axis=ta, create_continuous_wedge=False, weight_wedge=True),
        "ctf": lambda: CTF(shape=None, defocus_x=[3000.0], angles=[0], return_real_fourier=True, sampling_rate=sr, phase_shift=[0]),
    }
    state = rng.bit_generator.state

    def build():
        rng.bit_generator.state = state       # the same parameters every time the parts are rebuilt
        return {k: f() for k, f in spec_.items()}
    return build


EMITTERS = {"wc": "WedgeReconstructed", "ws": "WedgeReconstructed", "ctf": "CTF"}
CLS = {"bp": "BandPassFilter", "bg": "BandPassFilter", "lw": "LinearWhiteningFilter", **EMITTERS}


def compose_key(combo, use_data):
    """signature of the failing class of a composition: the first filter that receives metadata it misreads"""
    seen = None
    for name in combo:
        if seen is not None and name in EMITTERS:
            return f"Compose:{EMITTERS[seen]}>{EMITTERS[name]}"
        if use_data and name == "lw" and combo.index(name) > 0:
            return "Compose:data-overwritten>LinearWhiteningFilter"
        if name in EMITTERS and seen is None:
            seen = name
    return "Compose:product"


def check_compose(ctx, rng, force=None, wide=False, shape=None, call_rate=None):
    from tme.preprocessing import Compose
    shape = rand_shape(rng, lo=4, hi=10 if wide else 9) if shape is None else tuple(shape)
    data = rng.normal(size=shape)
    rf = np.fft.rfftn(data)
    build = make_parts(rng, shape)
    names = ["bp", "bg", "lw", "wc", "ws", "ctf"]
    if force is not None:
        combo = tuple(force)
    else:
        # at most one metadata-emitting filter (wedge / CTF), any position, any subset / order of the others
        pool = ["bp", "bg", "lw"] + [str(rng.choice(["wc", "ws", "ctf"]))]
        k = int(rng.integers(1, len(pool) + 1))
        combo = tuple(str(x) for x in rng.permutation(pool)[:k])
    use_data = force is not None and "data" in force
    combo = tuple(c for c in combo if c != "data")
    kw = dict(shape=shape, return_real_fourier=True, shape_is_real_fourier=False, batch_dimension=None)
    if use_data:
        kw["data"] = data
    else:
        kw["data_rfft"] = rf
    # the sampling rate may also be handed over at call time (it then overrides every filter's constructor value, for the
    # stand-alone parts and for the composition alike)
    sr_call = call_rate if call_rate is not None else (float(rng.choice([0.8, 2.5, 4.0])) if rng.random() < 0.4 else None)
    if sr_call:
        kw["sampling_rate"] = sr_call
    inp = {"kind": "compose", "shape": shape, "combo": list(combo), "use_data": use_data}
    if sr_call:
        inp["sampling_rate_at_call"] = sr_call
    parts = {c: np.asarray(build()[c](**dict(kw))["data"]) for c in combo}
    if len({parts[c].shape for c in combo}) != 1:
        ctx.spec("composition of multiplicative filters = product of its parts", inp, False,
                 {"part shapes": {c: parts[c].shape for c in combo}}, key="Compose:part-shapes")
        return inp
    ref = np.prod([parts[c].astype(np.float64) for c in combo], axis=0)
    fs = build()
    before = {c: snapshot(fs[c]) for c in combo}
    key = compose_key(combo, use_data)
    try:
        out = np.asarray(Compose(tuple(fs[c] for c in combo))(**dict(kw))["data"])
        ok = out.shape == ref.shape and bool(np.allclose(out, ref, rtol=1e-5, atol=1e-6))
        detail = {"shape": out.shape, "want": ref.shape, "maxdiff": float(np.abs(out - ref).max()) if out.shape == ref.shape else None}
    except Exception as e:  # noqa
        out, ok, detail = None, False, "raised:" + type(e).__name__ + ":" + str(e)[:80]
    spec_capped(ctx, "composition of multiplicative filters = product of its parts", inp, ok, detail, key=key)
    ctx.spec("composition leaves its filters' attributes unchanged", inp, all(snapshot(fs[c]) == before[c] for c in combo),
             key="Compose:attributes-mutated")
    if len(combo) >= 3 and ok and not getattr(check_compose, "_sampled", False):
        check_compose._sampled = True
        ctx.sample({"what": "composition", **inp, "result.shape": out.shape, "max |Compose - product of parts|": detail["maxdiff"]})
    ctx.count("compose:len=" + str(len(combo)) + (":data-kw" if use_data else "") + (":rate-at-call" if sr_call else ""))
    ctx.count("compose:first=" + CLS[combo[0]])
    ctx.distinct(("compose", shape, combo, use_data))
    if key == "Compose:product" and out is not None:
        # order invariance
        perm = tuple(str(x) for x in rng.permutation(list(combo)))
        out2 = np.asarray(Compose(tuple(build()[c] for c in perm))(**dict(kw))["data"])
        spec_capped(ctx, "composition does not depend on the order of the filters", {**inp, "perm": list(perm)},
                 out2.shape == out.shape and bool(np.allclose(out2, out, rtol=1e-5, atol=1e-6)),
                 key="Compose:order" if compose_key(perm, use_data) == "Compose:product" else compose_key(perm, use_data))
        # the loop model on the parts' masks
        m = ctx.driver.call("c12.compose", parts=[{"data": [fr(x) for x in parts[c].astype(np.float64).ravel()], "mult": True} for c in combo])
        md = unfl(m["data"]) if m.get("data") is not None else None
        ctx.agree("Compose loop (product of the returned masks)", inp, {"equal": True},
                  {"equal": bool(md is not None and md.size == out.size and np.allclose(md, out.ravel().astype(np.float64), rtol=1e-5, atol=1e-6))})
    return inp


def check_compose_loop_model(ctx, rng):
    """Compose on mock transforms (no data / non-multiplicative / multiplicative), exact small integers"""
    from tme.preprocessing import Compose
    n = int(rng.integers(1, 5))
    size = int(rng.integers(1, 6))
    parts = []
    for i in range(n):
        kind = "mult" if i == 0 or rng.random() < 0.6 else ("nodata" if rng.random() < 0.5 else "replace")
        parts.append((kind, rng.integers(-3, 4, size=size).astype(np.float64)))

    def mk(kind, arr):
        def t(**kwargs):
            if kind == "nodata":
                return {"extra": 1}
            return {"data": arr.copy(), "is_multiplicative_filter": kind == "mult"}
        return t
    out = Compose(tuple(mk(k, a) for k, a in parts))()
    impl = np.asarray(out["data"]).tolist() if "data" in out else None
    m = ctx.driver.call("c12.compose", parts=[{"data": None if k == "nodata" else [fr(x) for x in a], "mult": k == "mult"} for k, a in parts])
    model = unfl(m["data"]).tolist() if m.get("data") is not None else None
    ctx.agree("Compose loop on mock transforms", {"kind": "composeloop", "parts": [(k, a.tolist()) for k, a in parts]}, impl, model)
    ctx.count("composeloop:len=" + str(len(parts)) + (":with-nodata" if any(k == "nodata" for k, _ in parts) else "")
              + (":with-replace" if any(k == "replace" for k, _ in parts) else ""))


# ----------------------------------------------------------------------------- suites
def _guard(ctx, kind, fn, *a, **k):
    """a filter that raises on a generated (valid) input is a failing input of the property, not a harness error"""
    try:
        return fn(ctx, *a, **k)
    except Exception as e:  # noqa
        import traceback
        tb = traceback.format_exc()
        if "pv/driver.py" in tb.splitlines()[-3] or isinstance(e, (BrokenPipeError, KeyboardInterrupt)):
            raise
        ctx.spec("filter code runs on a valid input", {"kind": kind, "exception": type(e).__name__ + ": " + str(e)[:200]}, False,
                 tb[-1200:], key=f"{kind}:raised:{type(e).__name__}")
        return None


def _suite(ctx, rng, scale, wide=False):
    nb = int(ctx.budget(700, 6000) * scale)
    for _ in range(nb):
        _guard(ctx, "bandpass", check_bandpass_history, rng, wide=wide)
    # exhaustive small 2-D shapes (odd/even on each axis), both edge kinds
    top = ctx.budget(6, 9) + (2 if wide else 0)
    small = [(a, b) for a in range(2, top + 1) for b in range(2, top + 1)]
    for s in small:
        _guard(ctx, "bandpass", check_bandpass_history, rng, shapes=[s])
    for _ in range(int(ctx.budget(60, 500) * scale)):
        _guard(ctx, "whitening", check_whitening, rng, wide=wide)
    for _ in range(int(ctx.budget(350, 3000) * scale)):
        _guard(ctx, "wedge", check_wedge_history, rng, continuous=True)
    for s in small:
        if min(s) >= 3:
            _guard(ctx, "wedge", check_wedge_history, rng, continuous=True, shapes=[s])
    for _ in range(int(ctx.budget(40, 400) * scale)):
        _guard(ctx, "wedge", check_wedge_history, rng, continuous=False)
    for _ in range(int(ctx.budget(25, 200) * scale)):
        _guard(ctx, "tiltwedge", check_tilt_wedge, rng)
    for _ in range(int(ctx.budget(40, 400) * scale)):
        _guard(ctx, "ctf", check_ctf, rng)
    for _ in range(int(ctx.budget(200, 2000) * scale)):
        _guard(ctx, "compose", check_compose, rng, wide=wide)
    for _ in range(int(ctx.budget(200, 1500) * scale)):
        _guard(ctx, "composeloop", check_compose_loop_model, rng)


def run(ctx):
    rng = ctx.rng("main")
    # corpus first
    from .. import env
    for f in sorted(glob.glob(os.path.join(env.VERIF, "corpus", "C12_*.json"))):
        replay(ctx, json.load(open(f)))
        ctx.count("corpus")
    source_obligations(ctx)
    check_axes(ctx)
    _suite(ctx, rng, 1.0)
    # compositions in which an earlier filter's metadata reaches a later wedge / CTF, and the `data` keyword path
    for force in (("wc", "ctf"), ("ctf", "wc"), ("wc", "ws"), ("bp", "lw", "data"), ("lw", "bp", "data"), ("bp", "wc", "ctf")):
        _guard(ctx, "compose", check_compose, rng, force=force)
    # widened input space (argument representations, large / degenerate shapes, shape-preserving histories, overwritten
    # results, per-call data, reconstruction filters, astigmatic CTF / tilt stacks, reused compositions, float64 backend,
    # evaluation order across processes): harness/pv/c12_wide.py
    from .. import c12_wide
    c12_wide.suite(ctx, ctx.rng("wide"))
    ctx.sample({"what": "band-pass history", **_sample_bp(ctx)})


def _sample_bp(ctx):
    from tme.preprocessing.frequency_filters import BandPassFilter
    f = BandPassFilter(lowpass=4, sampling_rate=1, use_gaussian=False)
    a = np.asarray(f(shape=(6, 5), return_real_fourier=True)["data"])
    b = np.asarray(f(shape=(6, 5))["data"])
    return {"ctor": "BandPassFilter(lowpass=4, sampling_rate=1, use_gaussian=False)", "call1": "shape=(6,5), return_real_fourier=True",
            "out1.shape": a.shape, "call2": "shape=(6,5)", "out2.shape": b.shape, "out2": b.astype(int).tolist()}


def search(ctx):
    """correspondence / an obligation broke without a failing input so far: widen generation"""
    for j in range(3):
        rng = ctx.rng(f"search{j}")
        _suite(ctx, rng, 1.5, wide=True)
        from .. import c12_wide
        c12_wide.suite(ctx, ctx.rng(f"wide-search{j}"), 1.5)
        if ctx.spec_failures:
            from ..findings import known_for
            known = known_for(ID)
            if any(f["key"] not in known for f in ctx.spec_failures):
                return


def replay(ctx, rec):
    """re-evaluate a recorded failing input (replays/C12_*.json or corpus/C12_*.json)"""
    inp = rec.get("input", rec)
    kind = inp.get("kind")
    rng = ctx.rng("replay")
    if str(kind).startswith("wide-"):
        from .. import c12_wide
        c12_wide.replay(ctx, inp)
    elif kind == "bandpass":
        from tme.preprocessing.frequency_filters import BandPassFilter
        ctor = _unjson(inp["ctor"])
        calls = [_unjson(c) for c in inp["calls"]]
        obj = BandPassFilter(**ctor)
        before = snapshot(obj)
        for i, kw in enumerate(calls):
            out = obj(**copy.deepcopy(kw))
            fresh = BandPassFilter(**ctor)(**copy.deepcopy(kw))
            ii = {**inp, "call_index": i}
            ctx.spec("result independent of earlier calls (same object vs fresh object)", ii, same_result(out, fresh), key="BandPassFilter:stateful")
            ctx.spec("__call__ leaves the object's attributes unchanged", ii, snapshot(obj) == before, key="BandPassFilter:attributes-mutated")
            bp_spec(ctx, {**BP_DEFAULTS, **ctor, **kw}, np.asarray(fresh["data"]), ii)
    elif kind == "wedge":
        from tme.preprocessing.tilt_series import WedgeReconstructed
        ctor = {k: v for k, v in _unjson(inp["ctor"]).items() if k in WR_DEFAULTS}
        obj = WedgeReconstructed(**ctor)
        before = snapshot(obj)
        for i, kw in enumerate(inp["calls"]):
            kw = _unjson(kw)
            ii = {**inp, "call_index": i}
            want = {"return_real_fourier": False, **WR_DEFAULTS, **ctor, **kw}
            try:
                out = obj(**copy.deepcopy(kw))
            except Exception as e:  # noqa
                ctx.spec("filter call succeeds", ii, False, "raised:" + type(e).__name__, key="WedgeReconstructed:raised")
                continue
            fresh = WedgeReconstructed(**ctor)(**copy.deepcopy(kw))
            ctx.spec("result independent of earlier calls (same object vs fresh object)", ii, same_result(out, fresh), key="WedgeReconstructed:stateful")
            ctx.spec("__call__ leaves the object's attributes unchanged", ii, snapshot(obj) == before, key="WedgeReconstructed:attributes-mutated")
            shape = tuple(want["shape"])
            ws = half_shape(shape) if want["return_real_fourier"] else shape
            ctx.spec("shape: full or half spectrum as asked", ii, tuple(np.asarray(out["data"]).shape) == ws, key="WedgeReconstructed:shape")
            if want["create_continuous_wedge"]:
                full = np.asarray(WedgeReconstructed(**ctor)(**{**kw, "return_real_fourier": False})["data"])
                key, bad = wedge_known_key(ctx, full, want)
                ctx.spec("symmetric under frequency negation", ii, key is None, {"asymmetric": bad[:6].tolist()}, key=key or "WedgeReconstructed:symmetry")
    elif kind == "compose":
        check_compose(ctx, rng, force=tuple(inp["combo"]) + (("data",) if inp.get("use_data") else ()), shape=inp.get("shape"),
                      call_rate=inp.get("sampling_rate_at_call"))
    else:
        run(ctx)


def _unjson(d):
    out = {}
    for k, v in d.items():
        if isinstance(v, list):
            v = tuple(v)
        out[k] = v
    return out
