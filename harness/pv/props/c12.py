"""C12 — Fourier filters: consistent shapes, symmetric, bounded, stateless, composable.

Leg B: the real filter classes of the repo (BandPassFilter, LinearWhiteningFilter, WedgeReconstructed,
Wedge, CTF, Compose) are run on generated shapes / arguments / call histories / compositions and
 * compared with the Lean model (Model/C12.lean through the driver): per-axis index maps, band-pass
   masks (bit-exact for hard edges, 1e-12 for Gaussian), whitening interpolation (given the radial
   averages the real code estimated), continuous wedge masks (bit-exact), call-time argument merging
   (effective arguments recorded by wrapping the static constructors) and the Compose loop;
 * checked clause by clause against the property itself (shape asked for, half = part of full,
   real / range, negation symmetry, zero frequency, composition = product of the parts, result of a
   call independent of earlier calls, object attributes untouched)."""
import contextlib
import copy
import glob
import hashlib
import inspect
import itertools
import json
import math
import os

import numpy as np

ID = "C12"
RULE = ("generated call histories (1-4 calls with differing keyword arguments on one object, arguments split at random "
        "between constructor and call) for every filter class on 2-D/3-D shapes with odd and even extents on every "
        "axis (exhaustive small 2-D shapes for band-pass and continuous wedge), hard/Gaussian edges, cut-offs incl. "
        "exact grid values, sampling rates, tilt ranges and all opening/tilt axis pairs; compositions of all subsets/"
        "orders of {band-pass, whitening, wedge, CTF}; widened stream (pv/c12_wide.py): argument representations (int / float / "
        "numpy scalars, tuple / list / float64 / float32 arrays, shapes as list / ndarray), extents up to 49 incl. primes, powers of "
        "two and extents 2 / 3 next to large ones, shape-preserving histories, results overwritten by the caller, repeated and "
        "unmodified arguments, copies / pickles of used objects, per-call whitening data in several dtypes / layouts / scales with an "
        "independent radial average, stacks (batch_dimension=0), reconstruction filters, astigmatic and tilt-stack CTF, reused / "
        "nested / full-spectrum compositions, evaluation order across two interpreters, float64 backend; second part (seeded cases deep-*): radial "
        "bins / n_bins / order=None masks of the whitening filter, step and continuous wedges with captured planes (angles incl. 0, +-90, negative; all axis "
        "pairs; weights; cut-offs None / 0.4 / 0.5 / 0.7), tilt-series Wedge for every weight_type incl. unknown ones with untilted and tilted images, CTF single / "
        "mismatching angles / tilt stacks, Preprocessor mask constructors, metadata returned by all six filter classes, reconstruction filters of the per-tilt "
        "wedge (names in any letter case, unknown names). distinct = distinct "
        "(filter, shape, arguments) tuples; shapes with all extents <= 2 and repeated argument tuples are not counted")
ASSUMPTIONS = [
    "exp, sqrt, tan, sin and scipy's ndimage.mean / map_coordinates are exercised, not modelled: the radial averages and the wedge "
    "limits tan(.) the real code computes enter the Lean model as inputs; Gaussian masks are compared at 1e-12",
    "IEEE-754 sign symmetry ((-a)/(-b) = a/b, (-x)^2 = x^2) is assumed of Float (structure SignLaws, proved for the exact Rat instance)",
    "extent-1 axes are excluded (fftfreqn divides by int(1*0.5) = 0 there); filters are generated for extents >= 2",
    "LinearWhiteningFilter only ever produces the half-spectrum shape (it has no return_real_fourier switch); its symmetry is checked on "
    "the leading axes and on the self-conjugate planes of the last axis",
    "per-tilt step wedge: the rotated planes (rigid_transform interpolation) are not modelled - they are captured at centered() and enter the "
    "model as input; crop / clip / tiling and the tail of __call__ are modelled and compared bit-exact; symmetry is claimed only on the axes "
    "other than opening / tilt axis. Tilt-stack Wedge: planes are modelled given the rotation matrix euler_to_rotationmatrix returned "
    "(weight_angle bit-exact; relion / grigorieff, which use exp / power, at 2e-6 on the float32 output). CTF: layout (ctfPlan) exact; values of the "
    "non-astigmatic CTF = numpy's transfer-function arithmetic (sin, arctan) applied to the model's frequency grid, compared at 1e-6; astigmatic CTF and "
    "defocus gradient: shape, half-of-full, range and statelessness on the real arrays only",
    "reconstruction filters: ram-lak and ramp are modelled exactly; shepp-logan / cosine / hamming are numpy's profile (sinc, cos) applied to the model's "
    "frequency grid (1e-12); their effect on the wedge passes through the unmodelled rotation",
    "negation laws of IEEE arithmetic up to the sign of zero (structure LinLaws: r*(-k) ~ -(r*k), (-a)+(-b) ~ -(a+b), (x/n)^2 = (y/n)^2 for x ~ -y) and "
    "0*0 = 0, 1*1 = 1, 0 < 1 (TailLaws) are assumed of Float, proved for the exact Rat instance",
    "LinearWhiteningFilter: batch_dimension is exercised for axis 0 only (scipy.ndimage.mean cannot broadcast the labels otherwise) and "
    "shapes are not passed as ndarray (the code tests `if shape`); the independent radial average skips inputs with a voxel within 1e-9 "
    "of a bin edge and compares at 1e-9 (complex128 input) / 1e-5 (complex64 input: two float32 roundings per sample before the mean)",
    "results of one list of calls are required to agree to 1e-9 between this process and a fresh interpreter evaluating the list in "
    "reverse order (same binaries, same inputs: deterministic)",
]
TRUSTED = ["C12: numpy element-wise arithmetic, exp/tan/sin, scipy.ndimage.mean and map_coordinates (order 1, mode constant)"]

TOL_G = 1e-12


# ----------------------------------------------------------------------------- helpers
def fr(x):
    """exact transport of a float: [numerator, denominator]"""
    if x is None:
        return None
    p, q = float(x).as_integer_ratio()
    return [p, q]


def unfl(lst, shape=None):
    a = np.array([math.ldexp(x[0], x[1]) if isinstance(x, list) else float(x) for x in lst], dtype=np.float64)
    return a.reshape(shape) if shape is not None else a


def canon(v):
    """stable, type-preserving text form of an argument value"""
    if v is None:
        return "None"
    if isinstance(v, (bool, np.bool_)):
        return "b:" + str(bool(v))
    if isinstance(v, (int, np.integer)):
        return "i:" + str(int(v))
    if isinstance(v, (float, np.floating)):
        return "f:" + float(v).hex()
    if isinstance(v, str):
        return "s:" + v
    if isinstance(v, np.ndarray):
        return "a:" + str(v.dtype) + ":" + str(v.shape) + ":" + hashlib.sha1(np.ascontiguousarray(v).tobytes()).hexdigest()[:16]
    if isinstance(v, (tuple, list)):
        return "[" + ",".join(canon(x) for x in v) + "]"
    return "r:" + repr(v)


def canon_kw(d):
    return [[str(k), canon(v)] for k, v in d.items()]


def snapshot(obj):
    return {k: canon(v) for k, v in vars(obj).items()}


@contextlib.contextmanager
def record(cls, names, sink):
    """wrap the mask constructors of `cls` so that the effective arguments of every call are recorded"""
    saved = {}
    for name in names:
        raw = inspect.getattr_static(cls, name)
        saved[name] = raw
        if isinstance(raw, staticmethod):
            f = raw.__func__

            def w(*a, __f=f, __n=name, **k):
                sink.append((__n, dict(k)))
                return __f(*a, **k)
            setattr(cls, name, staticmethod(w))
        else:
            def w(self, *a, __f=raw, __n=name, **k):
                sink.append((__n, dict(k)))
                return __f(self, *a, **k)
            setattr(cls, name, w)
    try:
        yield
    finally:
        for name, raw in saved.items():
            setattr(cls, name, raw)


_AX = {}


def axis(ctx, n):
    if n not in _AX:
        _AX[n] = ctx.driver.call("c12.axis", n=int(n))
    return _AX[n]


def negated(ctx, arr, axes=None):
    """arr read at the negated frequency on the given axes (index map = Lean `negPos`)"""
    axes = range(arr.ndim) if axes is None else axes
    out = arr
    for ax in axes:
        out = np.take(out, axis(ctx, arr.shape[ax])["neg"], axis=ax)
    return out


def asym_positions(ctx, arr, tol, axes=None):
    d = np.abs(negated(ctx, arr, axes) - arr)
    return np.argwhere(~(d <= tol))


def half_symmetry_bad(ctx, half, n_last, tol):
    """number of voxels of a half-spectrum array that break negation symmetry where it is observable:
    every leading axis on its own is not required; the full negation on the self-conjugate planes is"""
    bad = 0
    planes = [0] + ([n_last // 2] if n_last % 2 == 0 and n_last // 2 < half.shape[-1] else [])
    for l in planes:
        p = half[..., l]
        bad += int((~(np.abs(negated(ctx, p) - p) <= tol)).sum())
    return bad


def parity(shape):
    return "".join("e" if s % 2 == 0 else "o" for s in shape)


def rand_shape(rng, lo=2, hi=11, nd=None):
    nd = int(rng.integers(2, 4)) if nd is None else nd
    hi = hi if nd == 2 else min(hi, 9)
    return tuple(int(x) for x in rng.integers(lo, hi + 1, size=nd))


def half_shape(shape):
    return tuple(shape[:-1]) + (shape[-1] // 2 + 1,)


def nontrivial(shape):
    return max(shape) > 2


# ----------------------------------------------------------------------------- source obligations
def source_obligations(ctx):
    from tme.preprocessing.frequency_filters import BandPassFilter
    from tme.preprocessing.tilt_series import Wedge, WedgeReconstructed, CTF
    from tme.preprocessing import Compose
    for cls in (BandPassFilter, Wedge, WedgeReconstructed, CTF):
        src = inspect.getsource(cls.__call__)
        ok = "vars(self).copy()" in src and "vars(self).update" not in src and "func_args = vars(self)\n" not in src \
            and "self.__dict__" not in src and "setattr(self" not in src
        ctx.obligation(f"{cls.__name__}.__call__ merges into a copy of vars(self) (model: callCopy)", ok,
                       None if ok else src[:600])
    from tme.preprocessing.frequency_filters import LinearWhiteningFilter
    src = inspect.getsource(LinearWhiteningFilter.__call__)
    ok = "axes=tuple(range(filter_mask.ndim - 1))" in src
    ctx.obligation("LinearWhiteningFilter.__call__ un-shifts every axis of the mask but its last (model: whitenShiftAxes)", ok,
                   None if ok else src[-700:])
    src = inspect.getsource(Compose.__call__)
    ok = "kwargs.update(meta)" in src and "be.multiply(ret[\"data\"], prev_data" in src
    ctx.obligation("Compose.__call__ forwards meta and multiplies in place (model: composeLoop)", ok, None if ok else src[:800])


# ----------------------------------------------------------------------------- per-axis helpers
def check_axes(ctx):
    from tme.preprocessing._utils import fftfreqn, shift_fourier, crop_real_fourier, compute_fourier_shape
    N = ctx.budget(48, 160)
    for n in range(2, N + 1):
        m = axis(ctx, n)
        ar = np.arange(n)
        shifted = np.asarray(shift_fourier(ar.copy(), False))
        centred = np.asarray(fftfreqn((n, 2), sampling_rate=None))[0][:, 0]
        impl = {"src": shifted.tolist(), "half": int(np.asarray(crop_real_fourier(ar[None, :])).shape[-1]),
                "fourier": [int(x) for x in compute_fourier_shape((3, n), False)],
                "freq": [int(round(x)) for x in np.asarray(shift_fourier(centred.copy(), False))]}
        model = {"src": m["src"], "half": m["half"], "fourier": [3, m["half"]], "freq": m["freq"]}
        ctx.agree("axis helpers (shift_fourier, crop_real_fourier, compute_fourier_shape, fftfreqn)", {"n": n}, impl, model)
        # spec: the shifted grid is the DC-first frequency axis (numpy's fftfreq), Nyquist sign aside
        ref = np.round(np.fft.fftfreq(n) * n).astype(int)
        ok = np.array_equal(np.abs(impl["freq"]), np.abs(ref)) and impl["freq"][0] == 0 and impl["half"] == n // 2 + 1
        ctx.spec("frequency grid is DC-first after shift_fourier; half length n//2+1", {"kind": "axis", "n": n}, ok, impl,
                 key="_utils:grid")
        # spec for the Lean index map itself: negation is an involution matching numpy's (-k) mod n
        ctx.spec("negation index map", {"kind": "axis", "n": n}, m["neg"] == [(-j) % n for j in range(n)], key="model:negPos")
        ctx.count("axis:" + ("even" if n % 2 == 0 else "odd"))
        ctx.distinct(("axis", n))
    # shape_is_real_fourier grid: 0..h-1 over h-1 on the last axis, leading axes as usual
    for n0 in range(2, ctx.budget(9, 20)):
        for h in range(2, ctx.budget(9, 20)):
            g = np.asarray(fftfreqn((n0, h), sampling_rate=0.5, shape_is_real_fourier=True, return_sparse_grid=True)[1]).ravel()
            ctx.spec("half-spectrum grid i/(h-1)", {"kind": "rfgrid", "shape": [n0, h]}, np.allclose(g, np.arange(h) / (h - 1), atol=1e-15),
                     key="_utils:rfgrid")


# ----------------------------------------------------------------------------- band-pass
BP_DEFAULTS = dict(lowpass=None, highpass=None, sampling_rate=1, use_gaussian=True, return_real_fourier=False,
                   shape_is_real_fourier=False)


def gen_cut(rng, shape, sr):
    """cut-off lengths: random, or chosen so that the cut-off frequency hits a grid value exactly"""
    r = rng.random()
    if r < 0.2:
        return None
    if r < 0.5:
        n = int(rng.choice(shape))
        k = int(rng.integers(1, n // 2 + 1))
        c = k / (n // 2)                      # grid value on that axis
        return float(2 * np.max(sr) / c)      # 2*sr/lowpass == c (up to rounding)
    return float(np.round(rng.uniform(1.0, 40.0), int(rng.integers(0, 4))))


def gen_bp_final(rng, shape=None, wide=False):
    shape = rand_shape(rng, hi=13 if wide else 11) if shape is None else shape
    srk = rng.random()
    sr = 1 if srk < 0.3 else (float(np.round(rng.uniform(0.5, 4.0), 2)) if srk < 0.7 else
                              tuple(float(np.round(rng.uniform(0.5, 4.0), 1)) for _ in shape))
    gauss = bool(rng.random() < 0.4)
    lp, hp = gen_cut(rng, shape, sr), gen_cut(rng, shape, sr)
    if gauss and lp is None and hp is None:
        lp = 4.0
    rrf = bool(rng.random() < 0.5)
    sirf = bool(rng.random() < 0.2)
    return dict(shape=half_shape(shape) if sirf and rng.random() < 0.8 else shape, lowpass=lp, highpass=hp, sampling_rate=sr,
                use_gaussian=gauss, return_real_fourier=rrf, shape_is_real_fourier=sirf)


def decoy(rng, k, v):
    if k in ("use_gaussian", "return_real_fourier", "shape_is_real_fourier"):
        return not v
    if k in ("lowpass", "highpass"):
        return float(rng.uniform(2, 30))
    if k == "sampling_rate":
        return float(np.round(rng.uniform(0.5, 3), 2))
    return v


def split_args(rng, final, defaults, always_call=("shape",), base_ctor=None):
    """distribute the final argument values between constructor and call"""
    ctor, call = dict(base_ctor or {}), {}
    for k, v in final.items():
        if k in always_call:
            call[k] = v
            continue
        if base_ctor is not None:
            # object already exists: pass in the call whatever differs from its attributes (and sometimes what does not)
            if canon(ctor.get(k, defaults.get(k))) != canon(v) or rng.random() < 0.3:
                call[k] = v
            continue
        r = rng.random()
        if r < 0.4:
            ctor[k] = v
        elif r < 0.7:
            call[k] = v
            if rng.random() < 0.5:
                ctor[k] = decoy(rng, k, v)
        else:
            ctor[k] = decoy(rng, k, v)
            call[k] = v
    return ctor, call


def bp_model_args(eff):
    sr = eff.get("sampling_rate", 1)
    return dict(shape=[int(x) for x in eff["shape"]], lowpass=fr(eff.get("lowpass")), highpass=fr(eff.get("highpass")),
                sampling_rate=[fr(x) for x in np.atleast_1d(np.asarray(sr, dtype=np.float64))],
                gaussian=bool(eff.get("use_gaussian")), rrf=bool(eff.get("return_real_fourier", False)),
                sirf=bool(eff.get("shape_is_real_fourier", False)))


def bp_spec(ctx, eff, out, inp):
    """clauses of the property on one real band-pass result"""
    from tme.preprocessing.frequency_filters import BandPassFilter
    shape = tuple(int(x) for x in eff["shape"])
    gauss, rrf, sirf = bool(eff["use_gaussian"]), bool(eff["return_real_fourier"]), bool(eff["shape_is_real_fourier"])
    lp, hp = eff["lowpass"], eff["highpass"]
    tol = TOL_G if gauss else 0.0
    want = half_shape(shape) if (rrf and not sirf) else shape
    ok_shape = tuple(out.shape) == want
    ctx.spec("shape: full or half spectrum as asked", inp, ok_shape, {"got": out.shape, "want": want}, key="BandPassFilter:shape")
    if not ok_shape:
        return
    ok = np.isrealobj(out) and out.dtype.kind == "f" and bool(np.all(np.isfinite(out))) and float(out.min()) >= 0 and float(out.max()) <= 1 + tol
    if ok and not gauss:
        ok = bool(np.all((out == 0) | (out == 1)))
    ctx.spec("real and within [0,1] (hard edge: {0,1})", inp, ok, {"min": float(np.nanmin(out)), "max": float(np.nanmax(out))},
             key="BandPassFilter:range")
    static = BandPassFilter.gaussian_bandpass if gauss else BandPassFilter.discrete_bandpass
    args = dict(lowpass=lp, highpass=hp, sampling_rate=eff["sampling_rate"])
    direct = np.asarray(static(shape=shape, return_real_fourier=rrf, shape_is_real_fourier=sirf, **args))
    ctx.spec("result of a call = mask constructor applied to (constructor arguments overridden by the call's)", inp,
             direct.shape == out.shape and np.array_equal(direct, out), key="BandPassFilter:arguments")
    if not sirf:
        full = np.asarray(static(shape=shape, return_real_fourier=False, shape_is_real_fourier=False, **args))
        half = np.asarray(static(shape=shape, return_real_fourier=True, shape_is_real_fourier=False, **args))
        ctx.spec("half spectrum = part of the full one", inp,
                 half.shape == half_shape(shape) and full.shape == shape and np.array_equal(full[..., : shape[-1] // 2 + 1], half),
                 key="BandPassFilter:half-of-full")
        viarf = np.asarray(static(shape=half_shape(shape), return_real_fourier=False, shape_is_real_fourier=True, **args))
        ctx.spec("half-spectrum shape passed as such = crop of the full mask", inp,
                 viarf.shape == half.shape and bool(np.all(np.abs(viarf - half) <= tol)), key="BandPassFilter:rfshape-vs-crop")
        bad = asym_positions(ctx, full, tol)
        ctx.spec("symmetric under frequency negation", inp, len(bad) == 0, {"asymmetric": bad[:5].tolist()}, key="BandPassFilter:symmetry")
        dc = float(full.flat[0])
        if not gauss:
            # low-/high-pass semantics beyond DC: the passed voxels form a radial band (ties at the edge aside)
            r = rfft_radial_grid(shape, False)
            passed, blocked = r[full == 1], r[full == 0]
            okb = True
            if passed.size and blocked.size:
                lo_r, hi_r = passed.min(), passed.max()
                inside = blocked[(blocked > lo_r + 1e-9) & (blocked < hi_r - 1e-9)]
                okb = inside.size == 0
                if hp is None:
                    okb = okb and lo_r == 0
            ctx.spec("hard-edged pass band is a radial band (low-pass: a ball around the zero frequency)", inp, okb, key="BandPassFilter:pass-band")
    else:
        # a half-spectrum shape: leading axes two-sided
        bad = asym_positions(ctx, out, tol, axes=range(out.ndim - 1))
        ctx.spec("symmetric under frequency negation", inp, len(bad) == 0, {"asymmetric": bad[:5].tolist()}, key="BandPassFilter:symmetry")
        dc = float(out.flat[0])
    if hp is not None and hp > 0:
        ctx.spec("high-pass removes the zero frequency", inp, abs(dc) <= tol, {"dc": dc}, key="BandPassFilter:dc-highpass")
    elif lp is not None and lp > 0:
        ctx.spec("low-pass keeps the zero frequency", inp, abs(dc - 1) <= tol, {"dc": dc}, key="BandPassFilter:dc-lowpass")


def run_history(ctx, cls, names, ctor, calls, build_ctor=None, positional_shape=False):
    """run `calls` on ONE object; returns per call (output dict | exception name, recorded effective args), plus the
    model's (state, effective) for the same history and the attribute snapshots"""
    obj = cls(**ctor)
    before = snapshot(obj)
    cfg = canon_kw(vars(obj))
    outs, effs, snaps = [], [], []
    for kw in calls:
        sink = []
        with record(cls, names, sink):
            try:
                r = obj(**copy.deepcopy(kw))
                outs.append(r)
            except Exception as e:  # noqa
                outs.append("raised:" + type(e).__name__)
        effs.append(sink[0] if sink else None)
        snaps.append(snapshot(obj))
    hist = []
    for kw in calls:
        k = dict(kw)
        if positional_shape and "shape" in k:       # __call__(self, shape, **kwargs): merged last
            s = k.pop("shape")
            k["shape"] = s
        hist.append(canon_kw(k))
    model = ctx.driver.call("c12.calls", mode="copy", cfg=cfg, calls=hist)
    return obj, before, outs, effs, snaps, model


def eff_compare(ctx, name, inp, eff_real, eff_model, skip=()):
    a = sorted([k, canon(v)] for k, v in eff_real.items() if k not in skip)
    b = sorted([k, v] for k, v in eff_model if k not in skip)
    return ctx.agree(name, inp, a, b)


def data_of(r):
    return None if isinstance(r, str) else np.asarray(r["data"])


def same_result(a, b, tol=0.0):
    if isinstance(a, str) or isinstance(b, str):
        return a == b
    x, y = np.asarray(a["data"]), np.asarray(b["data"])
    return x.shape == y.shape and x.dtype == y.dtype and bool(np.all(np.abs(x.astype(np.float64) - y.astype(np.float64)) <= tol) if x.size else True)


def check_bandpass_history(ctx, rng, shapes=None, wide=False):
    from tme.preprocessing.frequency_filters import BandPassFilter
    ncall = int(rng.integers(1, 5))
    finals = [gen_bp_final(rng, shape=None if shapes is None else shapes[i % len(shapes)], wide=wide) for i in range(ncall)]
    ctor, first = split_args(rng, finals[0], BP_DEFAULTS)
    calls = [first]
    for f in finals[1:]:
        _, c = split_args(rng, f, BP_DEFAULTS, base_ctor={**BP_DEFAULTS, **ctor})
        calls.append(c)
    base = {**BP_DEFAULTS, **ctor}
    inp = {"kind": "bandpass", "ctor": ctor, "calls": calls}
    obj, before, outs, effs, snaps, model = run_history(ctx, BandPassFilter, ("discrete_bandpass", "gaussian_bandpass"), ctor, calls)
    reqs = []
    for i, kw in enumerate(calls):
        want = {**base, **kw}        # what the property says the call may depend on
        inp_i = {**inp, "call_index": i}
        ctx.count("bandpass:call#" + str(min(i, 3)))
        # -- spec: history independence and untouched attributes
        fresh = BandPassFilter(**ctor)(**copy.deepcopy(kw))
        ctx.spec("result independent of earlier calls (same object vs fresh object)", inp_i, same_result(outs[i], fresh),
                 {"reused": getattr(data_of(outs[i]), "shape", outs[i]), "fresh": np.asarray(fresh["data"]).shape},
                 key="BandPassFilter:stateful", size=len(json.dumps(canon_kw(ctor))) + sum(len(json.dumps(canon_kw(c))) for c in calls[: i + 1]))
        ctx.spec("__call__ leaves the object's attributes unchanged", inp_i, snaps[i] == before,
                 {"before": before, "after": snaps[i]}, key="BandPassFilter:attributes-mutated")
        # -- correspondence: effective arguments and the mask
        if effs[i] is not None:
            eff_compare(ctx, "BandPassFilter effective arguments = ctor ∪ kwargs (callCopy)", inp_i, effs[i][1], model["effective"][i])
            ctx.agree("BandPassFilter edge kind", inp_i, effs[i][0], "gaussian_bandpass" if want["use_gaussian"] else "discrete_bandpass")
        if isinstance(outs[i], str):
            ctx.spec("filter call succeeds", inp_i, False, outs[i], key="BandPassFilter:raised")
            continue
        reqs.append((i, want, ("c12.bandpass", bp_model_args(want))))
        bp_spec(ctx, want, np.asarray(outs[i]["data"]), inp_i)
        shape = tuple(want["shape"])
        if nontrivial(shape):
            ctx.distinct(("bandpass", shape, canon_kw({k: v for k, v in want.items() if k != "shape"})))
        ctx.count("bandpass:" + ("gauss" if want["use_gaussian"] else "hard") + ":" + ("rf-shape" if want["shape_is_real_fourier"] else
                                                                                   "half" if want["return_real_fourier"] else "full"))
        ctx.count(f"bandpass:ndim={len(shape)}:last-{'even' if shape[-1] % 2 == 0 else 'odd'}")
    ctx.agree("BandPassFilter state after the history", inp, sorted(canon_kw(vars(obj))), sorted(model["state"]))
    ms = ctx.driver.batch([r for _, _, r in reqs])
    for (i, want, _), m in zip(reqs, ms):
        out = np.asarray(outs[i]["data"])
        tol = TOL_G if want["use_gaussian"] else 0.0
        if isinstance(m, str):
            ctx.agree("BandPassFilter mask", {**inp, "call_index": i}, "array", m)
            continue
        md = unfl(m["data"], m["shape"])
        ctx.agree("BandPassFilter mask", {**inp, "call_index": i},
                  {"shape": list(out.shape), "equal": True},
                  {"shape": m["shape"], "equal": bool(md.shape == out.shape and np.all(np.abs(md - out) <= tol))})
    return inp


# ----------------------------------------------------------------------------- whitening
def check_whitening(ctx, rng, wide=False):
    from tme.preprocessing.frequency_filters import LinearWhiteningFilter
    shape = rand_shape(rng, lo=3, hi=12 if wide else 10)
    data = rng.normal(size=shape) + rng.uniform(0, 2)
    rf = np.fft.rfftn(data)
    lw = LinearWhiteningFilter()
    _, spec_ = lw._compute_spectrum(rf, None, None)
    if not np.all(np.isfinite(spec_)):
        ctx.count("whitening:nonfinite-spectrum-skipped")
        return
    targets = [shape, tuple(int(x) for x in rng.integers(3, 12, size=len(shape)))]
    calls = []
    for t in targets:
        c = dict(data_rfft=rf, shape=t, return_real_fourier=bool(rng.random() < 0.7))
        if rng.random() < 0.5:
            c["shape_is_real_fourier"] = False
        calls.append(c)
    calls.append(dict(data_rfft=rf, shape=half_shape(targets[1]), shape_is_real_fourier=True))
    calls.append(dict(data=data))
    if rng.random() < 0.5:
        calls.append(dict(data_rfft=rf, shape=shape, order=None))
    order = rng.permutation(len(calls))
    reqs, keep = [], []
    for j in order:
        kw = calls[j]
        inp = {"kind": "whitening", "data_shape": shape, "call": {k: (v if k not in ("data", "data_rfft") else "<array>") for k, v in kw.items()}}
        out = np.asarray(lw(**kw)["data"])            # the SAME object is reused
        fresh = np.asarray(LinearWhiteningFilter()(**kw)["data"])
        ctx.spec("result independent of earlier calls (same object vs fresh object)", inp, out.shape == fresh.shape and np.array_equal(out, fresh),
                 key="LinearWhiteningFilter:stateful")
        real_shape = kw.get("shape", shape)
        want = tuple(real_shape) if kw.get("shape_is_real_fourier") else half_shape(real_shape)
        if kw.get("order", 1) is None:
            want = half_shape(shape)
        ok_shape = tuple(out.shape) == want
        ctx.spec("shape: half spectrum of the requested shape", inp, ok_shape, {"got": out.shape, "want": want}, key="LinearWhiteningFilter:shape")
        if not ok_shape:
            continue
        ctx.spec("real and within [0,1]", inp, out.dtype.kind == "f" and bool(np.all(np.isfinite(out))) and out.min() >= 0 and out.max() <= 1 + 1e-12,
                 {"min": float(np.nanmin(out)), "max": float(np.nanmax(out))}, key="LinearWhiteningFilter:range")
        bad = asym_positions(ctx, out, 1e-12, axes=range(out.ndim - 1))
        ctx.spec("symmetric under frequency negation", inp, len(bad) == 0, {"asymmetric": bad[:5].tolist()}, key="LinearWhiteningFilter:symmetry")
        if kw.get("order", 1) is not None:
            ref = radial_profile_layout(spec_, real_shape, bool(kw.get("shape_is_real_fourier", False)))
            ctx.spec("whitening mask = radial profile laid out like rfftn (DC first, one-sided last axis)", inp,
                     ref.shape == out.shape and bool(np.all(np.abs(ref - out) <= 1e-9)),
                     {"maxdiff": float(np.abs(ref - out).max()) if ref.shape == out.shape else None}, key="LinearWhiteningFilter:layout")
        if not getattr(check_whitening, "_sampled", False):
            check_whitening._sampled = True
            ctx.sample({"what": "whitening", **inp, "out.shape": out.shape, "min": float(out.min()), "max": float(out.max())})
        ctx.count("whitening:" + ("order-none" if kw.get("order", 1) is None else "interpolated") + ":" + parity(want)[-1])
        ctx.distinct(("whiten", shape, want, kw.get("order", 1)))
        if kw.get("order", 1) is not None:
            reqs.append(("c12.whiten", dict(shape=[int(x) for x in real_shape], spectrum=[fr(x) for x in spec_],
                                            sirf=bool(kw.get("shape_is_real_fourier", False)))))
            keep.append((inp, out))
    for (inp, out), m in zip(keep, ctx.driver.batch(reqs)):
        md = unfl(m["data"], m["shape"]) if not isinstance(m, str) else None
        ctx.agree("LinearWhiteningFilter mask given the radial averages", inp, {"shape": list(out.shape), "equal": True},
                  m if md is None else {"shape": m["shape"], "equal": bool(md.shape == out.shape and np.all(np.abs(md - out) <= 1e-9))})


def rfft_radial_grid(shape, shape_is_rf):
    """independent (numpy fftfreq) radial grid, Nyquist = 1 on every axis; half-spectrum layout when asked"""
    if shape_is_rf:
        lead, h = shape[:-1], shape[-1]
        axes = [np.abs(np.fft.fftfreq(n) * n) / (n // 2) for n in lead] + [np.arange(h) / (h - 1)]
    else:
        axes = [np.abs(np.fft.fftfreq(n) * n) / (n // 2) for n in shape]
    g = np.meshgrid(*axes, indexing="ij")
    return np.sqrt(sum(x * x for x in g))


def radial_profile_layout(spec_, shape, shape_is_rf):
    hs = tuple(shape) if shape_is_rf else half_shape(shape)
    r = rfft_radial_grid(hs, True) if shape_is_rf else rfft_radial_grid(tuple(shape), False)[..., : shape[-1] // 2 + 1]
    c = r * (len(spec_) - 1)
    return np.interp(c, np.arange(len(spec_)), spec_, right=0.0)


# ----------------------------------------------------------------------------- wedges
WR_DEFAULTS = dict(angles=None, opening_axis=0, tilt_axis=2, weights=None, weight_wedge=False, create_continuous_wedge=False,
                   frequency_cutoff=0.5, reconstruction_filter=None)


def gen_wedge_final(rng, shape=None, continuous=True):
    shape = rand_shape(rng, lo=3, hi=10) if shape is None else shape
    oa, ta = (int(x) for x in rng.permutation(len(shape))[:2])
    if continuous:
        if rng.random() < 0.4:
            a = float(rng.integers(10, 80))
            angles = (a, a)
        else:
            angles = (float(rng.integers(0, 91)), float(rng.integers(0, 91)))
        if rng.random() < 0.3:
            angles = tuple(float(np.round(x + rng.uniform(-0.5, 0.5), 2)) for x in angles)
        fc = [0.5, 0.5, None, float(np.round(rng.uniform(0.1, 0.5), 2)), float(np.round(rng.uniform(0.5, 0.9), 2))][int(rng.integers(0, 5))]
        ww = bool(rng.random() < 0.2)
    else:
        n = int(rng.integers(1, 7))
        angles = tuple(float(x) for x in np.sort(rng.uniform(-70, 70, size=n)).round(1))
        fc = [0.5, None, 0.4][int(rng.integers(0, 3))]
        ww = bool(rng.random() < 0.5)
    return dict(shape=shape, angles=angles, opening_axis=oa, tilt_axis=ta, create_continuous_wedge=continuous, frequency_cutoff=fc,
                weight_wedge=ww, return_real_fourier=bool(rng.random() < 0.5))


_KNOWN_SEEN = {}


def spec_capped(ctx, clause, inp, ok, detail=None, key=None, cap=6):
    """like ctx.spec, but a failure under a listed known-finding key is recorded at most `cap` times (the
    harness keeps only the first few hundred failures: repeats of a known finding must not crowd out a new one)"""
    if not ok:
        from ..findings import known_for
        if key in known_for(ID):
            _KNOWN_SEEN[key] = _KNOWN_SEEN.get(key, 0) + 1
            if _KNOWN_SEEN[key] > cap:
                ctx.evaluations += 1
                ctx.count("known-finding-repeat:" + key)
                return ok
    return ctx.spec(clause, inp, ok, detail, key=key)


def wedge_known_key(ctx, full, eff):
    """classify an asymmetric continuous wedge: only the Nyquist rows of even opening/tilt extents, limits differ"""
    bad = asym_positions(ctx, full, 0.0)
    if len(bad) == 0:
        return None, bad
    shape = full.shape
    oa, ta = eff["opening_axis"], eff["tilt_axis"]
    a0, a1 = eff["angles"][0], eff["angles"][1]
    fc = eff["frequency_cutoff"]
    on_nyq = all(any(shape[ax] % 2 == 0 and p[ax] == shape[ax] // 2 for ax in (oa, ta)) for p in bad)
    if on_nyq and a0 != a1 and (fc is None or fc > 0.5):
        return "WedgeReconstructed.continuous_wedge:nyquist-row-asymmetric", bad
    return "WedgeReconstructed:symmetry", bad


def check_wedge_history(ctx, rng, continuous=True, shapes=None):
    from tme.preprocessing.tilt_series import WedgeReconstructed
    ncall = int(rng.integers(1, 4))
    finals = [gen_wedge_final(rng, shape=None if shapes is None else shapes[i % len(shapes)], continuous=continuous) for i in range(ncall)]
    # axes/angles usually fixed at construction; sometimes overridden per call
    ctor = {k: finals[0][k] for k in ("angles", "opening_axis", "tilt_axis", "create_continuous_wedge", "frequency_cutoff", "weight_wedge")
            if rng.random() < 0.8}
    base = {**WR_DEFAULTS, **ctor}
    calls = []
    for f in finals:
        nd = len(f["shape"])
        c = {"shape": f["shape"]}
        if rng.random() < 0.75:               # omitted = the full spectrum is asked for
            c["return_real_fourier"] = f["return_real_fourier"]
        for k in ("angles", "opening_axis", "tilt_axis", "create_continuous_wedge", "frequency_cutoff", "weight_wedge"):
            v = f[k]
            if k in ("opening_axis", "tilt_axis") and canon(base.get(k)) != canon(v):
                pass
            if k not in ctor or canon(ctor[k]) != canon(v):
                c[k] = v
        # keep the axis pair valid for this shape
        oa, ta = c.get("opening_axis", base["opening_axis"]), c.get("tilt_axis", base["tilt_axis"])
        if oa >= nd or ta >= nd or oa == ta:
            c["opening_axis"], c["tilt_axis"] = f["opening_axis"], f["tilt_axis"]
        calls.append(c)
    inp = {"kind": "wedge", "ctor": ctor, "calls": calls}
    obj, before, outs, effs, snaps, model = run_history(ctx, WedgeReconstructed, ("continuous_wedge", "step_wedge"), ctor, calls,
                                                        positional_shape=True)
    reqs = []
    for i, kw in enumerate(calls):
        want = {"return_real_fourier": False, **base, **kw}
        inp_i = {**inp, "call_index": i}
        fresh_obj = WedgeReconstructed(**ctor)
        try:
            fresh = fresh_obj(**copy.deepcopy(kw))
        except Exception as e:  # noqa
            fresh = "raised:" + type(e).__name__
        ctx.spec("result independent of earlier calls (same object vs fresh object)", inp_i, same_result(outs[i], fresh),
                 key="WedgeReconstructed:stateful")
        ctx.spec("__call__ leaves the object's attributes unchanged", inp_i, snaps[i] == before, {"before": before, "after": snaps[i]},
                 key="WedgeReconstructed:attributes-mutated")
        if effs[i] is not None:
            eff_compare(ctx, "WedgeReconstructed effective arguments = ctor ∪ kwargs (callCopy)", inp_i, effs[i][1], model["effective"][i],
                        skip=("weights",) if want["weight_wedge"] else ())
            ctx.agree("WedgeReconstructed wedge kind", inp_i, effs[i][0], "continuous_wedge" if want["create_continuous_wedge"] else "step_wedge")
        if isinstance(outs[i], str):
            ctx.spec("filter call succeeds", inp_i, False, outs[i], key="WedgeReconstructed:raised")
            continue
        out = np.asarray(outs[i]["data"])
        shape = tuple(want["shape"])
        rrf = bool(want["return_real_fourier"])
        want_shape = half_shape(shape) if rrf else shape
        ok_shape = tuple(out.shape) == want_shape
        ctx.spec("shape: full or half spectrum as asked", inp_i, ok_shape, {"got": out.shape, "want": want_shape}, key="WedgeReconstructed:shape")
        if not ok_shape:
            continue
        other = np.asarray(WedgeReconstructed(**ctor)(**{**copy.deepcopy(kw), "return_real_fourier": not rrf})["data"])
        full, half = (other, out) if rrf else (out, other)
        ctx.spec("half spectrum = part of the full one", inp_i,
                 full.shape == shape and half.shape == half_shape(shape) and np.array_equal(full[..., : shape[-1] // 2 + 1], half),
                 key="WedgeReconstructed:half-of-full")
        hi = 1.0
        if want["weight_wedge"] and not want["create_continuous_wedge"]:
            hi = 1.0 + 1e-6       # cos weights, clipped to max(weights) = at most 1
        okr = out.dtype.kind == "f" and bool(np.all(np.isfinite(out))) and float(out.min()) >= 0 and float(out.max()) <= hi
        if okr and not want["weight_wedge"]:
            okr = bool(np.all((out == 0) | (out == 1)))
        ctx.spec("real and within [0,1] (unweighted: {0,1})", inp_i, okr, {"min": float(out.min()), "max": float(out.max())},
                 key="WedgeReconstructed:range")
        kind = "continuous" if want["create_continuous_wedge"] else "step"
        ctx.count(f"wedge:{kind}:axes={want['opening_axis']}{want['tilt_axis']}:{parity(shape)}")
        ctx.count(f"wedge:{kind}:cutoff=" + ("none" if want["frequency_cutoff"] is None else "<=0.5" if want["frequency_cutoff"] <= 0.5 else ">0.5"))
        ctx.distinct(("wedge", kind, shape, canon_kw({k: v for k, v in want.items() if k != "shape"})))
        if want["create_continuous_wedge"]:
            key, bad = wedge_known_key(ctx, full, want)
            spec_capped(ctx, "symmetric under frequency negation", {"kind": "wedge", "ctor": want, "calls": [{"shape": shape, "return_real_fourier": False}],
                                                            "call_index": 0},
                     key is None, {"asymmetric": bad[:6].tolist(), "count": len(bad)}, key=key or "WedgeReconstructed:symmetry")
            a = want["angles"]
            reqs.append((inp_i, out, ("c12.wedge", dict(
                shape=list(shape), start=fr(np.tan(np.radians(90 - a[0]))), stop=fr(np.tan(np.radians(-1 * (90 - a[1])))),
                big=fr(np.tan(np.radians(90)) + 1), opening=int(want["opening_axis"]), tilt=int(want["tilt_axis"]),
                cutoff=fr(want["frequency_cutoff"]), rrf=rrf))))
    ctx.agree("WedgeReconstructed state after the history", inp, sorted(canon_kw(vars(obj))), sorted(model["state"]))
    if continuous and not isinstance(outs[0], str) and not getattr(check_wedge_history, "_sampled", False):
        check_wedge_history._sampled = True
        o0 = np.asarray(outs[0]["data"])
        ctx.sample({"what": "wedge history", "ctor": ctor, "calls": calls, "out[0].shape": o0.shape, "out[0] kept voxels": int(o0.sum()), "of": int(o0.size)})
    for (inp_i, out, _), m in zip(reqs, ctx.driver.batch([r for _, _, r in reqs])):
        md = unfl(m["data"], m["shape"]) if not isinstance(m, str) else None
        ctx.agree("continuous wedge mask", inp_i, {"shape": list(out.shape), "equal": True},
                  m if md is None else {"shape": m["shape"], "equal": bool(md.shape == out.shape and np.array_equal(md, out.astype(np.float64)))})
    return inp


def check_tilt_wedge(ctx, rng):
    """tilt-stack `Wedge`: shape of the stack, range, statelessness"""
    from tme.preprocessing.tilt_series import Wedge
    shape = rand_shape(rng, lo=3, hi=9, nd=3)
    oa, ta = (int(x) for x in rng.permutation(3)[:2])
    n = int(rng.integers(1, 6))
    angles = np.sort(rng.uniform(-60, 60, size=n)).round(1)
    weights = rng.uniform(0.5, 3, size=n).round(2)
    ctor = dict(shape=None, tilt_axis=ta, opening_axis=oa, angles=angles, weights=weights, weight_type=None, frequency_cutoff=0.5)
    w = Wedge(**ctor)
    before = snapshot(w)
    names = ("weight_angle", "weight_relion", "weight_grigorieff")
    calls = [dict(shape=shape, weight_type=wt) for wt in rng.permutation(np.array([None, "angle", "relion", "grigorieff"], dtype=object))]
    calls.append(dict(shape=rand_shape(rng, lo=3, hi=9, nd=3), weight_type=None, frequency_cutoff=None))
    hist = [canon_kw(c) for c in calls]
    model = ctx.driver.call("c12.calls", mode="copy", cfg=canon_kw(vars(w)), calls=hist)
    for i, kw in enumerate(calls):
        inp = {"kind": "tiltwedge", "ctor": ctor, "call": kw}
        sink = []
        with record(Wedge, names, sink):
            r = w(**kw)
        fresh = Wedge(**ctor)(**kw)
        ctx.spec("result independent of earlier calls (same object vs fresh object)", inp, same_result(r, fresh), key="Wedge:stateful")
        ctx.spec("__call__ leaves the object's attributes unchanged", inp, snapshot(w) == before, key="Wedge:attributes-mutated")
        if sink:
            eff_compare(ctx, "Wedge effective arguments = ctor ∪ kwargs (callCopy)", inp, sink[0][1], model["effective"][i],
                        skip=("weights",) if kw["weight_type"] == "angle" else ())
        out = np.asarray(r["data"])
        s = tuple(kw["shape"])
        want = (n,) + tuple(x for j, x in enumerate(s) if j != oa)
        ctx.spec("tilt stack shape", inp, tuple(out.shape) == want, {"got": out.shape, "want": want}, key="Wedge:shape")
        top = float(np.max(weights)) if kw["weight_type"] is None else 1.0
        ctx.spec("real, non-negative, bounded by the weights", inp,
                 out.dtype.kind == "f" and bool(np.all(np.isfinite(out))) and out.min() >= 0 and out.max() <= top * (1 + 1e-6), key="Wedge:range")
        ctx.count("tiltwedge:" + str(kw["weight_type"]))
        ctx.distinct(("tiltwedge", s, oa, ta, n, str(kw["weight_type"])))


def check_ctf(ctx, rng):
    from tme.preprocessing.tilt_series import CTF
    shape = rand_shape(rng, lo=3, hi=10)
    dfx = [float(rng.uniform(500, 30000))]
    if rng.random() < 0.5:
        dfx = np.array(dfx, dtype=np.float64)     # what CTF.from_file stores: an ndarray the object must not modify
    ctor = dict(shape=None, defocus_x=dfx, angles=[0], sampling_rate=float(np.round(rng.uniform(1, 6), 2)),
                phase_shift=[float(rng.choice([0, 0.3]))], flip_phase=bool(rng.random() < 0.5), return_real_fourier=bool(rng.random() < 0.5),
                amplitude_contrast=float(rng.choice([0.07, 0.1])))
    import copy as _copy
    ctor0 = _copy.deepcopy(ctor)          # the constructor arguments as the caller wrote them
    c = CTF(**ctor)
    before = snapshot(c)
    calls = [dict(shape=shape), dict(shape=rand_shape(rng, lo=3, hi=10), return_real_fourier=not ctor["return_real_fourier"]),
             dict(shape=shape, flip_phase=not ctor["flip_phase"]), dict(shape=shape)]
    model = ctx.driver.call("c12.calls", mode="copy", cfg=canon_kw(vars(c)), calls=[canon_kw(k) for k in calls])
    for i, kw in enumerate(calls):
        inp = {"kind": "ctf", "ctor": ctor, "call": kw, "call_index": i}
        sink = []
        with record(CTF, ("weight",), sink):
            r = c(**kw)
        fresh = CTF(**_copy.deepcopy(ctor0))(**kw)
        ctx.spec("result independent of earlier calls (same object vs fresh object)", inp, same_result(r, fresh), key="CTF:stateful")
        ctx.spec("__call__ leaves the object's attributes unchanged", inp, snapshot(c) == before, key="CTF:attributes-mutated")
        if sink:
            eff_compare(ctx, "CTF effective arguments = ctor ∪ kwargs (callCopy)", inp, sink[0][1], model["effective"][i])
        want = {**ctor, **kw}
        out = np.asarray(r["data"])
        s = tuple(want["shape"])
        ws = half_shape(s) if want["return_real_fourier"] else s
        ok_shape = tuple(out.shape) == ws
        ctx.spec("shape: full or half spectrum as asked", inp, ok_shape, {"got": out.shape, "want": ws}, key="CTF:shape")
        if not ok_shape:
            continue
        other = np.asarray(CTF(**ctor)(**{**kw, "return_real_fourier": not want["return_real_fourier"]})["data"])
        full, half = (other, out) if want["return_real_fourier"] else (out, other)
        ctx.spec("half spectrum = part of the full one", inp, full.shape == s and np.array_equal(full[..., : s[-1] // 2 + 1], half), key="CTF:half-of-full")
        lo = 0.0 if want["flip_phase"] else -1.0
        ctx.spec("real and within the documented range", inp, out.dtype.kind == "f" and bool(np.all(np.isfinite(out))) and out.min() >= lo - 1e-6 and out.max() <= 1 + 1e-6,
                 {"min": float(out.min()), "max": float(out.max())}, key="CTF:range")
        ctx.count("ctf:" + ("half" if want["return_real_fourier"] else "full") + ":" + ("flip" if want["flip_phase"] else "noflip"))
        ctx.distinct(("ctf", s, canon_kw({k: v for k, v in want.items() if k != "shape"})))


# ----------------------------------------------------------------------------- composition
def make_parts(rng, shape):
    from tme.preprocessing.frequency_filters import BandPassFilter, LinearWhiteningFilter
    from tme.preprocessing.tilt_series import WedgeReconstructed, CTF
    nd = len(shape)
    oa, ta = (int(x) for x in rng.permutation(nd)[:2])
    lp, hp = float(rng.uniform(2, 8)), float(rng.uniform(10, 40))
    a = float(rng.integers(20, 70))
    steps = tuple(float(x) for x in np.sort(rng.uniform(-60, 60, size=4)).round(0))
    sr = float(rng.choice([1.0, 1.5, 2.0, 3.3]))     # one sampling rate per data set, shared by all its filters
    spec_ = {
        "bp": lambda: BandPassFilter(lowpass=lp, highpass=hp if rng.random() < 0.5 else None, sampling_rate=sr, use_gaussian=False),
        "bg": lambda: BandPassFilter(lowpass=lp, highpass=None, sampling_rate=sr, use_gaussian=True),
        "lw": lambda: LinearWhiteningFilter(),
        "wc": lambda: WedgeReconstructed(angles=(a, a), opening_axis=oa, tilt_axis=ta, create_continuous_wedge=True),
        "ws": lambda: WedgeReconstructed(angles=steps, opening_axis=oa, tilt_axis=ta, create_continuous_wedge=False, weight_wedge=True),
        "ctf": lambda: CTF(shape=None, defocus_x=[3000.0], angles=[0], return_real_fourier=True, sampling_rate=sr, phase_shift=[0]),
    }
    state = rng.bit_generator.state

    def build():
        rng.bit_generator.state = state       # the same parameters every time the parts are rebuilt
        return {k: f() for k, f in spec_.items()}
    return build


EMITTERS = {"wc": "WedgeReconstructed", "ws": "WedgeReconstructed", "ctf": "CTF"}
CLS = {"bp": "BandPassFilter", "bg": "BandPassFilter", "lw": "LinearWhiteningFilter", **EMITTERS}


def compose_key(combo, use_data):
    """signature of the failing class of a composition: the first filter that receives metadata it misreads"""
    seen = None
    for name in combo:
        if seen is not None and name in EMITTERS:
            return f"Compose:{EMITTERS[seen]}>{EMITTERS[name]}"
        if use_data and name == "lw" and combo.index(name) > 0:
            return "Compose:data-overwritten>LinearWhiteningFilter"
        if name in EMITTERS and seen is None:
            seen = name
    return "Compose:product"


def check_compose(ctx, rng, force=None, wide=False, shape=None, call_rate=None):
    from tme.preprocessing import Compose
    shape = rand_shape(rng, lo=4, hi=10 if wide else 9) if shape is None else tuple(shape)
    data = rng.normal(size=shape)
    rf = np.fft.rfftn(data)
    build = make_parts(rng, shape)
    names = ["bp", "bg", "lw", "wc", "ws", "ctf"]
    if force is not None:
        combo = tuple(force)
    else:
        # at most one metadata-emitting filter (wedge / CTF), any position, any subset / order of the others
        pool = ["bp", "bg", "lw"] + [str(rng.choice(["wc", "ws", "ctf"]))]
        k = int(rng.integers(1, len(pool) + 1))
        combo = tuple(str(x) for x in rng.permutation(pool)[:k])
    use_data = force is not None and "data" in force
    combo = tuple(c for c in combo if c != "data")
    kw = dict(shape=shape, return_real_fourier=True, shape_is_real_fourier=False, batch_dimension=None)
    if use_data:
        kw["data"] = data
    else:
        kw["data_rfft"] = rf
    # the sampling rate may also be handed over at call time (it then overrides every filter's constructor value, for the
    # stand-alone parts and for the composition alike)
    sr_call = call_rate if call_rate is not None else (float(rng.choice([0.8, 2.5, 4.0])) if rng.random() < 0.4 else None)
    if sr_call:
        kw["sampling_rate"] = sr_call
    inp = {"kind": "compose", "shape": shape, "combo": list(combo), "use_data": use_data}
    if sr_call:
        inp["sampling_rate_at_call"] = sr_call
    parts = {c: np.asarray(build()[c](**dict(kw))["data"]) for c in combo}
    if len({parts[c].shape for c in combo}) != 1:
        ctx.spec("composition of multiplicative filters = product of its parts", inp, False,
                 {"part shapes": {c: parts[c].shape for c in combo}}, key="Compose:part-shapes")
        return inp
    ref = np.prod([parts[c].astype(np.float64) for c in combo], axis=0)
    fs = build()
    before = {c: snapshot(fs[c]) for c in combo}
    key = compose_key(combo, use_data)
    try:
        out = np.asarray(Compose(tuple(fs[c] for c in combo))(**dict(kw))["data"])
        ok = out.shape == ref.shape and bool(np.allclose(out, ref, rtol=1e-5, atol=1e-6))
        detail = {"shape": out.shape, "want": ref.shape, "maxdiff": float(np.abs(out - ref).max()) if out.shape == ref.shape else None}
    except Exception as e:  # noqa
        out, ok, detail = None, False, "raised:" + type(e).__name__ + ":" + str(e)[:80]
    spec_capped(ctx, "composition of multiplicative filters = product of its parts", inp, ok, detail, key=key)
    ctx.spec("composition leaves its filters' attributes unchanged", inp, all(snapshot(fs[c]) == before[c] for c in combo),
             key="Compose:attributes-mutated")
    if len(combo) >= 3 and ok and not getattr(check_compose, "_sampled", False):
        check_compose._sampled = True
        ctx.sample({"what": "composition", **inp, "result.shape": out.shape, "max |Compose - product of parts|": detail["maxdiff"]})
    ctx.count("compose:len=" + str(len(combo)) + (":data-kw" if use_data else "") + (":rate-at-call" if sr_call else ""))
    ctx.count("compose:first=" + CLS[combo[0]])
    ctx.distinct(("compose", shape, combo, use_data))
    if key == "Compose:product" and out is not None:
        # order invariance
        perm = tuple(str(x) for x in rng.permutation(list(combo)))
        out2 = np.asarray(Compose(tuple(build()[c] for c in perm))(**dict(kw))["data"])
        spec_capped(ctx, "composition does not depend on the order of the filters", {**inp, "perm": list(perm)},
                 out2.shape == out.shape and bool(np.allclose(out2, out, rtol=1e-5, atol=1e-6)),
                 key="Compose:order" if compose_key(perm, use_data) == "Compose:product" else compose_key(perm, use_data))
        # the loop model on the parts' masks
        m = ctx.driver.call("c12.compose", parts=[{"data": [fr(x) for x in parts[c].astype(np.float64).ravel()], "mult": True} for c in combo])
        md = unfl(m["data"]) if m.get("data") is not None else None
        ctx.agree("Compose loop (product of the returned masks)", inp, {"equal": True},
                  {"equal": bool(md is not None and md.size == out.size and np.allclose(md, out.ravel().astype(np.float64), rtol=1e-5, atol=1e-6))})
    return inp


def check_compose_loop_model(ctx, rng):
    """Compose on mock transforms (no data / non-multiplicative / multiplicative), exact small integers"""
    from tme.preprocessing import Compose
    n = int(rng.integers(1, 5))
    size = int(rng.integers(1, 6))
    parts = []
    for i in range(n):
        kind = "mult" if i == 0 or rng.random() < 0.6 else ("nodata" if rng.random() < 0.5 else "replace")
        parts.append((kind, rng.integers(-3, 4, size=size).astype(np.float64)))

    def mk(kind, arr):
        def t(**kwargs):
            if kind == "nodata":
                return {"extra": 1}
            return {"data": arr.copy(), "is_multiplicative_filter": kind == "mult"}
        return t
    out = Compose(tuple(mk(k, a) for k, a in parts))()
    impl = np.asarray(out["data"]).tolist() if "data" in out else None
    m = ctx.driver.call("c12.compose", parts=[{"data": None if k == "nodata" else [fr(x) for x in a], "mult": k == "mult"} for k, a in parts])
    model = unfl(m["data"]).tolist() if m.get("data") is not None else None
    ctx.agree("Compose loop on mock transforms", {"kind": "composeloop", "parts": [(k, a.tolist()) for k, a in parts]}, impl, model)
    ctx.count("composeloop:len=" + str(len(parts)) + (":with-nodata" if any(k == "nodata" for k, _ in parts) else "")
              + (":with-replace" if any(k == "replace" for k, _ in parts) else ""))


# ----------------------------------------------------------------------------- second part: decision logic brought into the model later
# radial bins of the whitening filter (+ order=None mask), per-tilt (step) wedge bookkeeping and the common tail of
# WedgeReconstructed.__call__, the tilt stack of Wedge, the layout logic of CTF, the legacy Preprocessor mask constructors.
# Every case is generated from one integer seed (replayable: {"kind": "deep-*", "seed": k}).
def arr_in(a):
    a = np.asarray(a, dtype=np.float64)
    return {"shape": [int(x) for x in a.shape], "data": [fr(x) for x in a.ravel()]}


def arr_eq(m, out, tol=0.0):
    if isinstance(m, str):
        return m
    md = unfl(m["data"], m["shape"])
    out = np.asarray(out, dtype=np.float64)
    return {"shape": m["shape"], "equal": bool(md.shape == out.shape and np.all(np.abs(md - out) <= tol))}


def deep_bins(ctx, seed):
    from tme.preprocessing.frequency_filters import LinearWhiteningFilter
    g = np.random.default_rng(seed)
    shape = rand_shape(g, lo=2, hi=12)
    nb = [None, None, int(g.integers(1, 9)), 1000, 1][int(g.integers(0, 5))]
    data = g.normal(size=shape) * 10.0 ** int(g.integers(-3, 4)) + g.uniform(0, 2)
    rf = np.fft.rfftn(data)
    hs = tuple(rf.shape)
    inp = {"kind": "deep-bins", "seed": seed, "shape": shape, "n_bins": nb}
    lw = LinearWhiteningFilter()
    bins, spec_ = lw._compute_spectrum(rf, nb, None)
    bins = np.asarray(bins)
    m = ctx.driver.call("c12.bins", shape=list(hs), n_bins=nb)
    ctx.agree("LinearWhiteningFilter._compute_spectrum: number of bins and bin label of every position (nBins, binsArr)", inp,
              {"n_bins": int(spec_.size), "bins": [int(x) for x in bins.ravel()]}, {"n_bins": m["n_bins"], "bins": m["bins"]})
    lead = tuple(range(bins.ndim - 1))
    vox = np.fft.ifftshift(bins, axes=lead)       # label of every voxel of data_rfft itself (DC first)
    ctx.agree("bin label of the voxels of data_rfft (fftshift position = srcIdx; binOfVoxel)", inp, [int(x) for x in vox.ravel()], m["voxel_bins"])
    max_bins = max(max(hs[:-1]) // 2 + 1, hs[-1])
    ctx.spec("number of radial bins = min(requested, max_bins), at least one", inp,
             spec_.size == (max_bins if nb is None else min(nb, max_bins)) and spec_.size >= 1, {"n_bins": int(spec_.size)},
             key="LinearWhiteningFilter:n_bins")
    ctx.spec("bin labels are non-negative integers, the zero frequency has label 0", inp,
             bins.dtype.kind == "i" and int(bins.min()) >= 0 and int(vox.flat[0]) == 0, key="LinearWhiteningFilter:bins")
    bad = asym_positions(ctx, vox.astype(np.float64), 0.0, axes=lead)
    ctx.spec("bins symmetric under frequency negation (leading axes)", inp, len(bad) == 0, {"asymmetric": bad[:5].tolist()},
             key="LinearWhiteningFilter:bins-symmetry")
    counted = sum(int((bins == b).sum()) for b in range(spec_.size)) + int((bins >= spec_.size).sum())
    ctx.spec("every voxel is counted in exactly one radial average, or in none beyond the last bin", inp, counted == bins.size,
             key="LinearWhiteningFilter:bins-partition")
    ctx.count("deep:bins:" + ("default" if nb is None else "requested") + ":" + parity(hs)[-1])
    if nontrivial(shape):
        ctx.distinct(("deep-bins", shape, nb))
    if np.all(np.isfinite(spec_)):
        out = np.asarray(lw(data_rfft=rf, n_bins=nb, order=None)["data"])
        mm = ctx.driver.call("c12.whitennone", shape=list(hs), spectrum=[fr(x) for x in spec_], n_bins=int(spec_.size))
        ctx.agree("LinearWhiteningFilter order=None mask given the radial averages (whitenNone)", inp, {"shape": list(out.shape), "equal": True},
                  arr_eq(mm, out))
        ctx.spec("order=None mask: half-spectrum shape of the data; every value is one of the radial averages or 0", inp,
                 out.shape == hs and bool(np.all(np.isin(out, np.concatenate([np.asarray(spec_, dtype=out.dtype), [0.0]])))),
                 key="LinearWhiteningFilter:order-none")
        bad = asym_positions(ctx, out, 0.0, axes=lead)
        ctx.spec("symmetric under frequency negation", inp, len(bad) == 0, {"asymmetric": bad[:5].tolist()}, key="LinearWhiteningFilter:symmetry")
    if g.random() < 0.3:
        # a stack (batch_dimension=0): the bins are those of one member
        k = int(g.integers(2, 4))
        stack = np.stack([rf] + [np.fft.rfftn(g.normal(size=shape)) for _ in range(k - 1)])
        bins_b, spec_b = lw._compute_spectrum(stack, nb, 0)
        mb = ctx.driver.call("c12.binshape", shape=[int(x) for x in stack.shape], batch=0)
        ctx.agree("bins of a stack: shape without the batch axis, labels of one member (binShape)", {**inp, "stack": k},
                  {"shape": list(np.asarray(bins_b).shape), "same": bool(np.array_equal(np.asarray(bins_b), bins)), "n_bins": int(spec_b.size)},
                  {"shape": mb["shape"], "same": True, "n_bins": m["n_bins"]})
        ctx.count("deep:bins:stack")
    return inp


SPECIAL_ANGLES = [-90.0, -60.0, -45.0, -30.0, 0.0, 30.0, 45.0, 60.0, 90.0]


@contextlib.contextmanager
def capture_step(cap):
    """record, for one WedgeReconstructed call: the plane handed to `centered` (before the crop), the value the
    static wedge constructor returned (copied: the tail multiplies in place) and the keyword arguments it saw"""
    from tme.preprocessing import tilt_series as ts
    from tme.preprocessing.tilt_series import WedgeReconstructed
    orig_centered = ts.centered
    saved = {n: inspect.getattr_static(WedgeReconstructed, n) for n in ("step_wedge", "continuous_wedge")}

    def centered_rec(a, new_shape):
        cap["plane"] = np.array(a, copy=True)
        cap["crop_to"] = tuple(int(x) for x in new_shape)
        return orig_centered(a, new_shape)

    def wrap(name, f):
        def w(*a, **k):
            r = f(*a, **k)
            cap["func"] = name
            cap["kwargs"] = dict(k)
            cap["volume"] = np.array(r, copy=True)
            return r
        return staticmethod(w)
    ts.centered = centered_rec
    for n, raw in saved.items():
        setattr(WedgeReconstructed, n, wrap(n, raw.__func__))
    try:
        yield
    finally:
        ts.centered = orig_centered
        for n, raw in saved.items():
            setattr(WedgeReconstructed, n, raw)


def deep_wedge(ctx, seed):
    from tme.preprocessing.tilt_series import WedgeReconstructed
    g = np.random.default_rng(seed)
    shape = rand_shape(g, lo=3, hi=10)
    nd = len(shape)
    oa, ta = (int(x) for x in g.permutation(nd)[:2])
    continuous = bool(g.random() < 0.3)
    if continuous:
        angles = (float(g.choice([0.0, 30.0, 45.0, 60.0, 90.0])), float(g.integers(0, 91))) if g.random() < 0.5 else \
            (float(g.integers(0, 91)), float(g.integers(0, 91)))
        weights, ww = None, False
    else:
        n = int(g.integers(1, 7))
        if g.random() < 0.35:
            angles = tuple(float(x) for x in np.sort(g.choice(SPECIAL_ANGLES, size=n, replace=False)))
        else:
            angles = tuple(float(x) for x in np.sort(g.uniform(-75, 75, size=n)).round(1))
        weights = None if g.random() < 0.5 else tuple(float(x) for x in g.uniform(0.3, 2.5, size=n).round(2))
        ww = bool(g.random() < 0.5)
    fc = [0.5, None, 0.4, 0.7][int(g.integers(0, 4))]
    rrf = bool(g.random() < 0.5)
    inp = {"kind": "deep-wedge", "seed": seed, "shape": shape, "angles": angles, "opening_axis": oa, "tilt_axis": ta, "weights": weights,
           "weight_wedge": ww, "frequency_cutoff": fc, "return_real_fourier": rrf, "continuous": continuous}
    ctor = dict(angles=angles, opening_axis=oa, tilt_axis=ta, weights=weights, weight_wedge=ww, frequency_cutoff=fc,
                create_continuous_wedge=continuous)
    cap = {}
    with capture_step(cap):
        out = np.asarray(WedgeReconstructed(**ctor)(shape=shape, return_real_fourier=rrf)["data"])
    vol = cap["volume"]
    kind = "continuous" if continuous else "step"
    ctx.agree("WedgeReconstructed wedge kind", inp, cap["func"], "continuous_wedge" if continuous else "step_wedge")
    if continuous:
        m = ctx.driver.call("c12.contvol", shape=list(shape), start=fr(np.tan(np.radians(90 - angles[0]))),
                            stop=fr(np.tan(np.radians(-1 * (90 - angles[1])))), big=fr(np.tan(np.radians(90)) + 1), opening=oa, tilt=ta)
        ctx.agree("continuous_wedge volume before the tail (contVolume)", inp, {"shape": list(vol.shape), "equal": True}, arr_eq(m, vol))
    else:
        w_eff = cap["kwargs"].get("weights")
        wmax = 1.0 if w_eff is None else float(np.max(w_eff))
        use_cos = ctx.driver.call("c12.stepweights", weight_wedge=ww, wedge_weights_given=False)
        expect = np.cos(np.radians(np.asarray(angles))) if use_cos else weights
        ctx.agree("weights seen by step_wedge: cosines of the tilt angles whenever weight_wedge, the caller's otherwise (stepWeightsFromCos)", inp,
                  None if w_eff is None else [float(x) for x in np.asarray(w_eff, dtype=np.float64)],
                  None if expect is None else [float(x) for x in np.asarray(expect, dtype=np.float64)])
        m = ctx.driver.call("c12.stepvol", shape=list(shape), opening=oa, tilt=ta, plane=arr_in(cap["plane"]), wmax=fr(wmax))
        ctx.agree("step_wedge: shape of the rotated plane, crop target (planeShape)", inp,
                  {"plane": list(cap["plane"].shape), "crop_to": list(cap["crop_to"])},
                  m if isinstance(m, str) else {"plane": m["plane_shape"], "crop_to": [shape[oa], shape[ta]]})
        ctx.agree("step_wedge: centered crop, clip to the largest weight, moveaxis / reshape / tile (stepVolume)", inp,
                  {"shape": list(vol.shape), "equal": True}, m if isinstance(m, str) else arr_eq(m["volume"], vol))
        ctx.spec("the rotated plane has an odd tilt extent and the extent of the opening axis", inp,
                 cap["plane"].shape == (shape[oa], shape[ta] + (1 - shape[ta] % 2)), key="WedgeReconstructed.step_wedge:plane")
        okc = vol.shape == tuple(shape)
        for r in range(nd):
            if okc and r not in (oa, ta):
                okc = bool(np.all(vol == np.take(vol, [0], axis=r)))
        ctx.spec("per-tilt wedge volume is constant along the axes that are neither opening nor tilt axis", inp, okc,
                 key="WedgeReconstructed.step_wedge:tiling")
    mt = ctx.driver.call("c12.wedgetail", vol=arr_in(vol), cutoff=fr(fc), weight_wedge=ww, rrf=rrf)
    ctx.agree("WedgeReconstructed.__call__ tail: cut-off, threshold, shift, crop (wedgeTail)", inp, {"shape": list(out.shape), "equal": True},
              arr_eq(mt, out))
    # clauses on the real arrays
    full = out if not rrf else np.asarray(WedgeReconstructed(**ctor)(shape=shape, return_real_fourier=False)["data"])
    rest = [r for r in range(nd) if r not in (oa, ta)]
    if rest and full.shape == tuple(shape):
        bad = asym_positions(ctx, full, 0.0, axes=rest)
        ctx.spec("wedge symmetric under frequency negation on the axes other than opening / tilt axis", inp, len(bad) == 0,
                 {"asymmetric": bad[:5].tolist()}, key="WedgeReconstructed:symmetry-off-axes")
    if continuous and full.shape == tuple(shape):
        ctx.spec("continuous wedge keeps the zero frequency", inp, float(full.flat[0]) == 1.0, {"dc": float(full.flat[0])},
                 key="WedgeReconstructed.continuous_wedge:dc")
    if not continuous and full.shape == tuple(shape):
        centre = float(vol[tuple(x // 2 for x in shape)])
        ctx.spec("per-tilt wedge keeps the zero frequency (unweighted: 1; weighted: the positive centre value of the volume)", inp,
                 centre > 0 and (float(full.flat[0]) == (np.float32(centre) if ww else 1.0)), {"dc": float(full.flat[0]), "centre": centre},
                 key="WedgeReconstructed.step_wedge:dc")
    ctx.count(f"deep:wedge:{kind}:axes={oa}{ta}:{parity(shape)}")
    ctx.count(f"deep:wedge:{kind}:" + ("weighted" if ww else "binary") + ":cutoff=" + str(fc))
    if any(a in (0.0, 90.0, -90.0) for a in angles):
        ctx.count(f"deep:wedge:{kind}:has-0-or-90-degrees")
    ctx.distinct(("deep-wedge", kind, shape, oa, ta, angles, weights, ww, fc, rrf))
    return inp


def deep_tilt(ctx, seed):
    from tme.preprocessing.tilt_series import Wedge
    g = np.random.default_rng(seed)
    nd = 3            # a tilt series of 2-D images; (the rotation of frequency_grid_at_angle is not defined for 1-D tilts)
    shape = rand_shape(g, lo=3, hi=9, nd=nd)
    oa, ta = (int(x) for x in g.permutation(nd)[:2])
    n = int(g.integers(1, 6))
    angles = np.sort(g.uniform(-60, 60, size=n)).round(1)
    for _ in range(int(g.integers(0, 3))):
        angles[int(g.integers(0, n))] = 0.0
    weights = g.uniform(0.5, 3, size=n).round(2)
    fc = [0.5, None, 0.3, 0.8][int(g.integers(0, 4))]
    ctor = dict(shape=None, tilt_axis=ta, opening_axis=oa, angles=angles, weights=weights, frequency_cutoff=fc)
    for wt in (None, "angle", "relion", "grigorieff", str(g.choice(["Angle", "cosine", "", "none"]))):
        inp = {"kind": "deep-tilt", "seed": seed, "shape": shape, "opening_axis": oa, "tilt_axis": ta, "angles": angles.tolist(),
               "weights": weights.tolist(), "frequency_cutoff": fc, "weight_type": wt}
        pl = ctx.driver.call("c12.wedgeplan", shape=list(shape), weight_type=wt, opening=oa, n=n)
        sink = []
        try:
            with record(Wedge, ("weight_angle", "weight_relion", "weight_grigorieff"), sink):
                out = np.asarray(Wedge(**ctor)(shape=shape, weight_type=wt)["data"])
            impl = {"func": sink[0][0] if sink else None, "stack": list(out.shape)}
        except (ValueError, TypeError) as e:
            # an unknown weight_type is rejected; today the intended ValueError is pre-empted by a TypeError raised while
            # its message is formatted (','.join over keys that include None) - rejected either way
            ctx.count("deep:tilt:rejected-with-" + type(e).__name__)
            out, impl = None, {"func": None, "stack": None}
        ctx.agree("Wedge.__call__: weighting chosen by weight_type (ValueError otherwise), shape of the stack (wedgeWeightFunc, wedgeStackShape)", inp,
                  impl, {"func": pl["func"], "stack": pl["stack"] if pl["func"] is not None else None})
        ctx.count("deep:tilt:" + str(wt if pl["func"] is not None else "invalid"))
        if out is None:
            continue
        ctx.distinct(("deep-tilt", shape, oa, ta, n, wt, fc))
        # tilted images: frequency_grid_at_angle rotates the centred grid with the single-precision matrix of
        # euler_to_rotationmatrix (handed to the model as it is, like the tan() limits of the continuous wedge)
        from tme.matching_utils import euler_to_rotationmatrix
        reqs, which = [], []
        for i, a in enumerate(angles):
            if a == 0:
                continue
            av = np.zeros(3)
            av[ta] = a
            R = euler_to_rotationmatrix(np.roll(av, oa - 1))
            base = dict(shape=list(shape), opening=oa, matrix=[[fr(x) for x in row] for row in R], cutoff=fr(fc))
            if pl["func"] == "weight_angle":
                w_i = float(np.cos(np.radians(angles))[i]) if pl["replaced"] else float(weights[i])
                reqs.append(("c12.tilted", dict(base, kind="const", w=fr(w_i))))
            elif pl["func"] == "weight_relion":
                sigma = np.sqrt(weights[i] * 4 / (8 * np.pi ** 2))
                sigma = -2 * np.pi ** 2 * sigma ** 2
                reqs.append(("c12.tilted", dict(base, kind="relion", sigma=fr(sigma), cos=fr(np.cos(np.radians(a))))))
            else:
                reqs.append(("c12.tilted", dict(base, kind="grigorieff", w=fr(weights[i]), amplitude=fr(0.245), power=fr(-1.665), offset=fr(2.81))))
            which.append(i)
        for i, m in zip(which, ctx.driver.batch(reqs)):
            ctx.agree("Wedge " + pl["func"] + " plane of a tilted image (tiltedPlane)", {**inp, "tilt": i},
                      {"shape": list(out[i].shape), "equal": True}, arr_eq(m, out[i], 2e-6))
            p_dc = np.fft.ifftshift(out[i]).astype(np.float64)
            d = np.abs(negated(ctx, p_dc) - p_dc)
            for ax, n_ax in enumerate(p_dc.shape):          # leave out the Nyquist terms of even extents
                if n_ax % 2 == 0:
                    sl = [slice(None)] * p_dc.ndim
                    sl[ax] = n_ax // 2
                    d[tuple(sl)] = 0
            ctx.spec("plane of a tilted image is symmetric under frequency negation off the Nyquist terms (read DC first)", {**inp, "tilt": i},
                     bool(np.all(d <= 1e-7)), {"max": float(d.max())}, key="Wedge:tilted-plane-symmetry")
            ctx.count("deep:tilt:tilted-plane:" + pl["func"])
        if pl["func"] in ("weight_relion", "weight_grigorieff"):
            # untilted images: the weighting is a function of the plain radial grid (exp / power: compared at float32 accuracy)
            reqs, which = [], []
            for i, a in enumerate(angles):
                if a != 0:
                    continue
                if pl["func"] == "weight_relion":
                    sigma = np.sqrt(weights[i] * 4 / (8 * np.pi ** 2))
                    sigma = -2 * np.pi ** 2 * sigma ** 2
                    reqs.append(("c12.tiltfn", dict(shape=pl["stack"][1:], kind="relion", sigma=fr(sigma), cos=fr(np.cos(np.radians(a))),
                                                    cutoff=fr(fc))))
                else:
                    reqs.append(("c12.tiltfn", dict(shape=pl["stack"][1:], kind="grigorieff", w=fr(weights[i]), amplitude=fr(0.245),
                                                    power=fr(-1.665), offset=fr(2.81), cutoff=fr(fc))))
                which.append(i)
            for i, m in zip(which, ctx.driver.batch(reqs)):
                ctx.agree("Wedge " + pl["func"] + " plane of an untilted image (tiltPlaneFn, relionVal / grigorieffVal)", {**inp, "tilt": i},
                          {"shape": list(out[i].shape), "equal": True}, arr_eq(m, out[i], 2e-6))
                bad = asym_positions(ctx, np.fft.ifftshift(out[i]).astype(np.float64), 0.0)
                ctx.spec("plane of an untilted image is symmetric under frequency negation (read DC first)", {**inp, "tilt": i}, len(bad) == 0,
                         {"asymmetric": bad[:5].tolist()}, key="Wedge:untilted-plane-symmetry")
            continue
        if sink:
            ctx.agree("weights handed to weight_angle: the cosines of the tilt angles for weight_type='angle', the given ones otherwise", inp,
                      [float(x) for x in np.asarray(sink[0][1]["weights"], dtype=np.float64)],
                      [float(x) for x in (np.cos(np.radians(angles)) if pl["replaced"] else weights)])
        w = np.cos(np.radians(angles)) if pl["replaced"] else weights
        reqs, which = [], []
        for i, a in enumerate(angles):
            if a == 0 or fc is None:
                reqs.append(("c12.tiltplane", dict(shape=pl["stack"][1:], w=fr(w[i]), cutoff=fr(fc))))
                which.append(i)
        for i, m in zip(which, ctx.driver.batch(reqs)):
            md = unfl(m["data"], m["shape"]).astype(out.dtype) if not isinstance(m, str) else None
            ctx.agree("Wedge weight_angle plane of an untilted image / without cut-off (tiltPlaneZero)", {**inp, "tilt": i},
                      {"shape": list(out[i].shape), "equal": True},
                      m if md is None else {"shape": m["shape"], "equal": bool(md.shape == out[i].shape and np.array_equal(md, out[i]))})
            p = np.fft.ifftshift(out[i])
            bad = asym_positions(ctx, p.astype(np.float64), 0.0)
            ctx.spec("plane of an untilted image is symmetric under frequency negation (read DC first)", {**inp, "tilt": i}, len(bad) == 0,
                     {"asymmetric": bad[:5].tolist()}, key="Wedge:untilted-plane-symmetry")


def _ctf_formula(c, r, defocus_x, phase_shift, sampling_rate, flip):
    """the operations of CTF.weight after the frequency grid, on a given radial grid `r` (no astigmatism, no gradient)"""
    sr = np.max(sampling_rate)
    fg = np.array(r, dtype=np.float64, copy=True)
    mask = fg < 0.5
    np.square(fg, out=fg)
    sa = c.spherical_aberration / sr
    lam = c._compute_electron_wavelength() / sr
    chi = defocus_x / sr - 0.5 * (sa * lam ** 2) * fg
    np.multiply(chi, np.pi * lam, out=chi)
    np.multiply(chi, fg, out=chi)
    chi += phase_shift
    chi += np.arctan(np.divide(c.amplitude_contrast, np.sqrt(1 - np.square(c.amplitude_contrast))))
    np.sin(-chi, out=chi)
    np.multiply(chi, mask, out=chi)
    st = -chi
    return np.abs(st) if flip else st


def deep_ctf(ctx, seed):
    from tme.preprocessing.tilt_series import CTF
    g = np.random.default_rng(seed)
    mode = ["single", "single", "mismatch", "stack"][int(g.integers(0, 4))]
    nd = 3 if mode == "stack" else int(g.integers(2, 4))
    shape = rand_shape(g, lo=3, hi=10, nd=nd)
    rrf, flip = bool(g.random() < 0.5), bool(g.random() < 0.5)
    sr = float(np.round(g.uniform(1, 6), 2))
    dx, ps = float(np.round(g.uniform(500, 30000), 1)), float(g.choice([0.0, 0.3, 1.2]))
    inp = {"kind": "deep-ctf", "seed": seed, "mode": mode, "shape": shape, "return_real_fourier": rrf, "flip_phase": flip, "sampling_rate": sr,
           "defocus_x": dx, "phase_shift": ps}
    if mode == "stack":
        n = int(g.integers(2, 5))
        oa, ta = (int(x) for x in g.permutation(3)[:2])
        c = CTF(shape=None, defocus_x=[dx + 100.0 * i for i in range(n)], angles=[float(x) for x in np.sort(g.uniform(-60, 60, size=n)).round(1)],
                opening_axis=oa, tilt_axis=ta, sampling_rate=sr, phase_shift=[ps] * n, defocus_y=np.array([None] * n, dtype=object),
                flip_phase=flip, return_real_fourier=rrf)
        r = c(shape=shape)
        pl = ctx.driver.call("c12.ctfplan", shape=list(shape), opening=oa, n_angles=n, n_self=n, n_defocus=n, rrf=rrf)
        ctx.agree("CTF tilt stack: shape of the result and axes reported (ctfPlan)", inp,
                  {"shape": list(np.asarray(r["data"]).shape), "opening": r["opening_axis"]}, {"shape": pl["shape"], "opening": pl["opening"]})
        from tme.matching_utils import euler_to_rotationmatrix
        outs = np.asarray(r["data"])
        reqs, which = [], []
        for i, a in enumerate(c.angles):
            if a == 0:
                continue
            av = np.zeros(3)
            av[ta] = a
            R = euler_to_rotationmatrix(np.roll(av, oa - 1))
            reqs.append(("c12.tilted", dict(shape=list(shape), opening=oa, matrix=[[fr(x) for x in row] for row in R], cutoff=None, kind="grid")))
            which.append(i)
        for i, m in zip(which, ctx.driver.batch(reqs)):
            if isinstance(m, str):
                ctx.agree("CTF tilt stack: frequency grid of a tilted image", {**inp, "tilt": i}, "array", m)
                continue
            ref = _ctf_formula(c, unfl(m["data"], m["shape"]), c.defocus_x[i], ps, sr, flip)
            ctx.agree("CTF tilt stack: plane = the transfer function on the model's rotated frequency grid, centred (tiltedPlane)", {**inp, "tilt": i},
                      {"shape": list(outs[i].shape), "equal": True},
                      {"shape": m["shape"], "equal": bool(ref.shape == outs[i].shape and np.all(np.abs(ref.astype(outs.dtype) - outs[i]) <= 1e-6))})
        ctx.count("deep:ctf:stack")
        ctx.distinct(("deep-ctf", mode, shape, oa, ta, n))
        return inp
    c = CTF(shape=None, defocus_x=[dx], angles=[0], sampling_rate=sr, phase_shift=[ps], flip_phase=flip, return_real_fourier=rrf)
    kw = dict(shape=shape)
    n_call = 1
    if mode == "mismatch":
        n_call = int(g.integers(2, 4))
        kw.update(angles=[10.0 * i for i in range(n_call)], opening_axis=0, tilt_axis=nd - 1)
    r = c(**kw)
    out = np.asarray(r["data"])
    pl = ctx.driver.call("c12.ctfplan", shape=list(shape), opening=kw.get("opening_axis"), n_angles=n_call, n_self=1, n_defocus=1, rrf=rrf)
    ctx.agree("CTF: shape of the result, half spectrum only when honoured, axes reported (ctfPlan)", inp,
              {"shape": list(out.shape), "opening": r["opening_axis"]}, {"shape": pl["shape"], "opening": pl["opening"]})
    m = ctx.driver.call("c12.radialone", shape=list(shape), rrf=bool(pl["cropped"]))
    if isinstance(m, str):
        ctx.agree("CTF frequency grid", inp, "array", m)
        return inp
    grid = unfl(m["data"], m["shape"])
    ref = _ctf_formula(c, grid, dx, ps, sr, flip)
    ctx.agree("non-astigmatic CTF of one image = the transfer function evaluated on the model's frequency grid, DC first (radialMaskOne)", inp,
              {"shape": list(out.shape), "equal": True},
              {"shape": m["shape"], "equal": bool(ref.shape == out.shape and np.all(np.abs(ref.astype(out.dtype) - out) <= 1e-6))})
    full = out if not pl["cropped"] else np.asarray(CTF(shape=None, defocus_x=[dx], angles=[0], sampling_rate=sr, phase_shift=[ps],
                                                        flip_phase=flip, return_real_fourier=False)(shape=shape)["data"])
    okf = full.shape == tuple(shape)
    bad = []
    for ax in range(nd):
        if okf:
            bad.extend(asym_positions(ctx, full, 1e-6, axes=[ax])[:3].tolist())
    ctx.spec("non-astigmatic CTF is even in every frequency component (a function of |k|^2)", inp, okf and not bad, {"asymmetric": bad[:5]},
             key="CTF:symmetry")
    if flip:
        ctx.spec("flip_phase: no negative values", inp, float(out.min()) >= 0.0, {"min": float(out.min())}, key="CTF:flip-phase")
    ctx.count("deep:ctf:" + mode + ":" + ("half" if pl["cropped"] else "full") + ":" + parity(shape)[-1])
    ctx.distinct(("deep-ctf", mode, shape, rrf, flip, sr, dx, ps))
    return inp


def deep_pp(ctx, seed):
    """legacy tme.preprocessor.Preprocessor mask constructors: which filter arguments they translate to"""
    from tme.preprocessor import Preprocessor
    from tme.preprocessing.frequency_filters import BandPassFilter
    from tme.preprocessing.tilt_series import WedgeReconstructed
    g = np.random.default_rng(seed)
    shape = rand_shape(g, lo=3, hi=9, nd=3)
    sigma = float(g.choice([0.0, 0.0, 1.0, 2.5]))
    omit, inf, has_w = bool(g.random() < 0.5), bool(g.random() < 0.5), bool(g.random() < 0.5)
    oa, ta = (int(x) for x in g.permutation(3)[:2])
    n = int(g.integers(1, 5))
    angles = tuple(float(x) for x in np.sort(g.uniform(-60, 60, size=n)).round(0))
    weights = tuple(float(x) for x in g.uniform(0.5, 2, size=n).round(1)) if has_w else None
    inp = {"kind": "deep-pp", "seed": seed, "shape": shape, "gaussian_sigma": sigma, "omit_negative_frequencies": omit, "infinite_plane": inf,
           "weights": weights, "tilt_angles": angles, "opening_axis": oa, "tilt_axis": ta}
    m = ctx.driver.call("c12.pp", sigma_is_zero=sigma == 0.0, omit_negative=omit, infinite_plane=inf, has_weights=has_w)
    pp = Preprocessor()
    sink = []
    with record(BandPassFilter, ("discrete_bandpass", "gaussian_bandpass"), sink):
        a = np.asarray(pp.bandpass_mask(shape=shape, lowpass=float(g.uniform(2, 8)), highpass=float(g.uniform(10, 40)), sampling_rate=1,
                                        gaussian_sigma=sigma, omit_negative_frequencies=omit))
    ctx.agree("Preprocessor.bandpass_mask: edge kind and half spectrum (ppBandpass)", inp,
              {"gaussian": sink[0][0] == "gaussian_bandpass", "rrf": bool(sink[0][1]["return_real_fourier"])},
              {"gaussian": m["use_gaussian"], "rrf": m["bp_rrf"]})
    ctx.spec("shape: full or half spectrum as asked", inp, a.shape == (half_shape(shape) if omit else tuple(shape)), key="Preprocessor.bandpass_mask:shape")
    for name in ("step", "continuous"):
        sink = []
        with record(WedgeReconstructed, ("step_wedge", "continuous_wedge"), sink):
            if name == "step":
                a = pp.step_wedge_mask(shape=shape, tilt_angles=angles, opening_axis=oa, tilt_axis=ta, weights=weights, infinite_plane=inf,
                                       omit_negative_frequencies=omit)
            else:
                a = pp.continuous_wedge_mask(start_tilt=float(g.integers(20, 70)), stop_tilt=float(g.integers(20, 70)), shape=shape,
                                             opening_axis=oa, tilt_axis=ta, infinite_plane=inf, omit_negative_frequencies=omit)
        a = np.asarray(a)
        k = sink[0][1]
        ctx.agree(f"Preprocessor.{name}_wedge_mask: wedge kind, cut-off, weighting, half spectrum (ppWedge)", inp,
                  {"func": sink[0][0], "cutoff": k["frequency_cutoff"] is not None, "ww": bool(k["weight_wedge"]), "rrf": bool(k["return_real_fourier"])},
                  {"func": name + "_wedge", "cutoff": m["cutoff"], "ww": m["weight_wedge"] if name == "step" else False, "rrf": m["wedge_rrf"]})
        ctx.spec("shape: full or half spectrum as asked", inp, a.shape == (half_shape(shape) if omit else tuple(shape)),
                 key=f"Preprocessor.{name}_wedge_mask:shape")
    ctx.count("deep:pp")
    ctx.distinct(("deep-pp", shape, sigma, omit, inf, has_w, oa, ta))
    return inp


def deep_meta(ctx, seed):
    """what each filter class hands back to Compose (keys besides `data`, the multiplicative flag) and whether it reads
    `shape_is_real_fourier`"""
    import re
    from tme.preprocessing.frequency_filters import BandPassFilter, LinearWhiteningFilter
    from tme.preprocessing.tilt_series import WedgeReconstructed, Wedge, CTF, ReconstructFromTilt
    g = np.random.default_rng(seed)
    shape = rand_shape(g, lo=4, hi=9, nd=3)
    rrf = bool(g.random() < 0.5)
    oa, ta = (int(x) for x in g.permutation(3)[:2])
    rf = np.fft.rfftn(g.normal(size=shape))
    vol = g.normal(size=shape)
    calls = {
        "BandPassFilter": (BandPassFilter, lambda: BandPassFilter(lowpass=float(g.uniform(2, 8)), use_gaussian=bool(g.random() < 0.5))(
            shape=shape, return_real_fourier=rrf)),
        "LinearWhiteningFilter": (LinearWhiteningFilter, lambda: LinearWhiteningFilter()(data_rfft=rf, shape=shape, return_real_fourier=rrf)),
        "WedgeReconstructed": (WedgeReconstructed, lambda: WedgeReconstructed(angles=(40.0, 50.0), opening_axis=oa, tilt_axis=ta,
                                                                             create_continuous_wedge=bool(g.random() < 0.5))(
            shape=shape, **({"return_real_fourier": rrf} if g.random() < 0.7 else {}))),
        "Wedge": (Wedge, lambda: Wedge(shape=None, tilt_axis=ta, opening_axis=oa, angles=np.array([0.0, 20.0]), weights=np.array([1.0, 0.5]))(
            shape=shape, weight_type=[None, "angle", "relion", "grigorieff"][int(g.integers(0, 4))])),
        "CTF": (CTF, lambda: CTF(shape=None, defocus_x=[3000.0], angles=[0], return_real_fourier=rrf, phase_shift=[0])(shape=shape)),
        "ReconstructFromTilt": (ReconstructFromTilt, lambda: ReconstructFromTilt(shape=shape, angles=(0.0,), opening_axis=oa, tilt_axis=ta)(
            data=vol, return_real_fourier=rrf)),          # data already has the requested shape: returned as it is
    }
    for name, (cls, f) in calls.items():
        inp = {"kind": "deep-meta", "seed": seed, "class": name, "shape": shape}
        r = f()
        m = ctx.driver.call("c12.meta", cls=name)
        ctx.agree("keys a filter hands back to Compose besides data, is_multiplicative_filter (emits, multFlag)", inp,
                  {"keys": sorted(k for k in r if k != "data"), "mult": bool(r.get("is_multiplicative_filter", False))},
                  {"keys": sorted(m["emits"]), "mult": m["mult"]})
        src = inspect.getsource(cls)
        reads = bool(re.search(r'get\(\s*"shape_is_real_fourier"', src) or re.search(r'[^"\w]shape_is_real_fourier\s*:', src))
        ctx.agree("class reads shape_is_real_fourier (readsSirf)", inp, reads, m["reads_sirf"])
        ctx.spec("a filter never hands return_real_fourier / data_rfft / batch_dimension on to later filters", inp,
                 not ({"return_real_fourier", "data_rfft", "batch_dimension"} & set(r)), sorted(r), key="Compose:forwarded-call-arguments")
        if name == "WedgeReconstructed":
            ctx.spec("the wedge reports the shape of the mask it returned and whether that is a half-spectrum shape", inp,
                     tuple(r["shape"]) == tuple(np.asarray(r["data"]).shape) and
                     bool(r["shape_is_real_fourier"]) == (tuple(r["shape"]) != tuple(shape)), key="WedgeReconstructed:reported-shape")
        ctx.count("deep:meta:" + name)
    ctx.distinct(("deep-meta", shape, rrf, oa, ta))
    return {"kind": "deep-meta", "seed": seed}


def _rec_val(kind, f):
    if kind == "ram-lak":
        return f
    if kind == "shepp-logan":
        return f * np.sinc(f / 2)
    if kind == "cosine":
        return f * np.cos(f * np.pi / 2)
    return f * (0.54 + 0.46 * np.cos(f * np.pi))


def deep_recfilter(ctx, seed):
    """reconstruction filter of the per-tilt wedge: name dispatch, shape handed over by step_wedge, values on the model's grid"""
    from tme.preprocessing import tilt_series as ts
    from tme.preprocessing.tilt_series import WedgeReconstructed
    g = np.random.default_rng(seed)
    shape = rand_shape(g, lo=3, hi=10)
    nd = len(shape)
    oa, ta = (int(x) for x in g.permutation(nd)[:2])
    n = int(g.integers(2, 6))
    angles = tuple(float(x) for x in np.sort(g.choice(np.arange(-70, 71, 2.5), size=n, replace=False)))
    name = str(g.choice(["ram-lak", "ramp", "shepp-logan", "cosine", "hamming"]))
    r = g.random()
    name = name.upper() if r < 0.15 else name.title() if r < 0.3 else str(g.choice(["hann", "", "ramlak", "None"])) if r < 0.4 else name
    inp = {"kind": "deep-recfilter", "seed": seed, "shape": shape, "opening_axis": oa, "tilt_axis": ta, "angles": angles, "reconstruction_filter": name}
    cap = {}
    orig = ts.create_reconstruction_filter

    def rec(filter_shape, filter_type, **kw):
        out = orig(filter_shape, filter_type, **kw)
        cap["shape"], cap["ret"] = tuple(int(x) for x in filter_shape), np.array(out, copy=True)
        return out
    ts.create_reconstruction_filter = rec
    try:
        try:
            WedgeReconstructed.step_wedge(shape=shape, angles=angles, opening_axis=oa, tilt_axis=ta, reconstruction_filter=name)
            raised = None
        except ValueError as e:
            raised = "Unsupported" if "Unsupported filter type" in str(e) else "ValueError:" + str(e)[:60]
    finally:
        ts.create_reconstruction_filter = orig
    ps = [shape[oa], shape[ta] + (1 - shape[ta] % 2)]
    scale = float(np.radians(np.min(np.abs(np.diff(np.sort(angles))))) * ps[1])
    m = ctx.driver.call("c12.recfilter", plane_shape=ps, filter_type=name, scale=fr(scale))
    ctx.agree("create_reconstruction_filter: accepted names (any letter case), shape requested by step_wedge (recFilterKind, planeShape reversed)", inp,
              {"accepted": raised is None, "shape": list(cap["shape"]) if raised is None else None, "error": raised},
              {"accepted": m["kind"] is not None, "shape": ps[::-1] if m["kind"] is not None else None, "error": None if m["kind"] is not None else "Unsupported"})
    ctx.count("deep:recfilter:" + (m["kind"] or "rejected"))
    if raised is not None or m["kind"] is None or m["array"] is None:
        return inp
    grid = unfl(m["array"]["data"], m["array"]["shape"])
    ref = grid if m["kind"] == "ramp" else _rec_val(m["kind"], grid)
    tol = 0.0 if m["kind"] in ("ramp", "ram-lak") else 1e-12
    ctx.agree("reconstruction filter = its profile on the model's frequency grid, transposed (recFilterRadial / recFilterRamp)", inp,
              {"shape": list(cap["ret"].shape), "equal": True},
              {"shape": list(ref.T.shape), "equal": bool(ref.T.shape == cap["ret"].shape and np.all(np.abs(ref.T - cap["ret"]) <= tol))})
    ret = cap["ret"]
    centre = tuple(x // 2 for x in ret.shape)
    ctx.spec("reconstruction filter vanishes at the zero frequency, is real and finite", inp,
             ret.dtype.kind == "f" and bool(np.all(np.isfinite(ret))) and float(ret[centre]) == 0.0, {"centre": float(ret[centre])},
             key="create_reconstruction_filter:dc")
    if m["kind"] == "ramp":
        ctx.spec("ramp filter: within [0, 1], constant along the opening axis", inp,
                 float(ret.min()) >= 0 and float(ret.max()) <= 1 and bool(np.all(ret == ret[:, :1])), key="create_reconstruction_filter:ramp")
    else:
        bad = asym_positions(ctx, np.fft.ifftshift(ret), 1e-12)
        ctx.spec("radial reconstruction filter symmetric under frequency negation (read DC first)", inp, len(bad) == 0,
                 {"asymmetric": bad[:5].tolist()}, key="create_reconstruction_filter:symmetry")
    ctx.distinct(("deep-recfilter", shape, oa, ta, angles, name))
    return inp


def deep_tiltcall(ctx, seed):
    """Wedge.__call__ with the tilt angles overridden at call time: which angles are used where (today's behaviour)"""
    from tme.preprocessing.tilt_series import Wedge
    g = np.random.default_rng(seed)
    shape = rand_shape(g, lo=5, hi=8, nd=3)
    oa, ta = (int(x) for x in g.permutation(3)[:2])
    n_self = int(g.integers(1, 5))
    n_call = None if g.random() < 0.3 else int(g.integers(1, 5))
    wt = [None, "angle", "relion", "grigorieff"][int(g.integers(0, 4))]
    fc = None if g.random() < 0.4 else 0.3
    a_self = np.sort(g.uniform(-50, 50, size=n_self)).round(1)
    w_self = g.uniform(0.5, 2.0, size=n_self).round(2)
    kw = dict(shape=shape, weight_type=wt)
    if n_call is not None:
        kw["angles"] = np.sort(g.uniform(-50, 50, size=n_call)).round(1)
    inp = {"kind": "deep-tiltcall", "seed": seed, "shape": shape, "opening_axis": oa, "tilt_axis": ta, "n_self": n_self, "n_call": n_call,
           "weight_type": wt, "frequency_cutoff": fc}

    def run(cut):
        return Wedge(shape=None, tilt_axis=ta, opening_axis=oa, angles=a_self.copy(), weights=w_self.copy(), frequency_cutoff=cut)(**kw)
    func = ctx.driver.call("c12.wedgeplan", shape=list(shape), weight_type=wt, opening=oa, n=n_self)["func"]
    m = ctx.driver.call("c12.wedgecall", func=func, n_self=n_self, n_call=n_self if n_call is None else n_call, cutoff=fc is not None)
    try:
        r = run(fc)
        out = np.asarray(r["data"])
        impl = {"raises": False, "planes": int(out.shape[0]), "reported": len(r["angles"])}
        if fc is not None:
            plain_ = np.asarray(run(None)["data"])
            impl["cut"] = [bool(not np.array_equal(out[i], plain_[i])) for i in range(out.shape[0])]
        else:
            impl["cut"] = [False] * out.shape[0]
    except IndexError:
        impl = {"raises": True}
    model = {"raises": True} if m["raises"] else {"raises": False, "planes": m["planes"], "reported": m["reported"], "cut": m["cut"]}
    ctx.agree("Wedge.__call__: planes, reported angles, planes cut off, IndexError when the call overrides the angles (wedgeCallPlan)", inp, impl, model)
    if n_call is None or n_call == n_self:
        ctx.spec("tilt stack: one plane per tilt angle, reported angles describe the stack", inp,
                 impl == {"raises": False, "planes": n_self, "reported": n_self, "cut": [fc is not None] * n_self}, impl, key="Wedge:stack-consistent")
    ctx.count("deep:tiltcall:" + str(wt) + ":" + ("no-override" if n_call is None else "same" if n_call == n_self else "fewer" if n_call < n_self else "more"))
    ctx.distinct(("deep-tiltcall", shape, oa, ta, n_self, n_call, wt, fc))
    return inp


DEEP = {"deep-bins": deep_bins, "deep-wedge": deep_wedge, "deep-tilt": deep_tilt, "deep-ctf": deep_ctf, "deep-pp": deep_pp, "deep-meta": deep_meta, "deep-recfilter": deep_recfilter, "deep-tiltcall": deep_tiltcall}


def deep_suite(ctx, rng, scale=1.0):
    for kind, quick, thorough in (("deep-bins", 300, 3000), ("deep-wedge", 300, 3000), ("deep-tilt", 80, 800), ("deep-ctf", 150, 1500),
                                  ("deep-pp", 30, 300), ("deep-meta", 15, 150), ("deep-recfilter", 150, 1500), ("deep-tiltcall", 60, 600)):
        for _ in range(int(ctx.budget(quick, thorough) * scale)):
            _guard(ctx, kind, DEEP[kind], int(rng.integers(0, 2 ** 31 - 1)))


# ----------------------------------------------------------------------------- suites
def _guard(ctx, kind, fn, *a, **k):
    """a filter that raises on a generated (valid) input is a failing input of the property, not a harness error"""
    try:
        return fn(ctx, *a, **k)
    except Exception as e:  # noqa
        import traceback
        tb = traceback.format_exc()
        if "pv/driver.py" in tb.splitlines()[-3] or isinstance(e, (BrokenPipeError, KeyboardInterrupt)):
            raise
        ctx.spec("filter code runs on a valid input", {"kind": kind, "exception": type(e).__name__ + ": " + str(e)[:200]}, False,
                 tb[-1200:], key=f"{kind}:raised:{type(e).__name__}")
        return None


def _suite(ctx, rng, scale, wide=False):
    nb = int(ctx.budget(700, 6000) * scale)
    for _ in range(nb):
        _guard(ctx, "bandpass", check_bandpass_history, rng, wide=wide)
    # exhaustive small 2-D shapes (odd/even on each axis), both edge kinds
    top = ctx.budget(6, 9) + (2 if wide else 0)
    small = [(a, b) for a in range(2, top + 1) for b in range(2, top + 1)]
    for s in small:
        _guard(ctx, "bandpass", check_bandpass_history, rng, shapes=[s])
    for _ in range(int(ctx.budget(60, 500) * scale)):
        _guard(ctx, "whitening", check_whitening, rng, wide=wide)
    for _ in range(int(ctx.budget(350, 3000) * scale)):
        _guard(ctx, "wedge", check_wedge_history, rng, continuous=True)
    for s in small:
        if min(s) >= 3:
            _guard(ctx, "wedge", check_wedge_history, rng, continuous=True, shapes=[s])
    for _ in range(int(ctx.budget(40, 400) * scale)):
        _guard(ctx, "wedge", check_wedge_history, rng, continuous=False)
    for _ in range(int(ctx.budget(25, 200) * scale)):
        _guard(ctx, "tiltwedge", check_tilt_wedge, rng)
    for _ in range(int(ctx.budget(40, 400) * scale)):
        _guard(ctx, "ctf", check_ctf, rng)
    for _ in range(int(ctx.budget(200, 2000) * scale)):
        _guard(ctx, "compose", check_compose, rng, wide=wide)
    for _ in range(int(ctx.budget(200, 1500) * scale)):
        _guard(ctx, "composeloop", check_compose_loop_model, rng)
    deep_suite(ctx, rng, scale)


def run(ctx):
    rng = ctx.rng("main")
    # corpus first
    from .. import env
    for f in sorted(glob.glob(os.path.join(env.VERIF, "corpus", "C12_*.json"))):
        replay(ctx, json.load(open(f)))
        ctx.count("corpus")
    source_obligations(ctx)
    check_axes(ctx)
    _suite(ctx, rng, 1.0)
    # compositions in which an earlier filter's metadata reaches a later wedge / CTF, and the `data` keyword path
    for force in (("wc", "ctf"), ("ctf", "wc"), ("wc", "ws"), ("bp", "lw", "data"), ("lw", "bp", "data"), ("bp", "wc", "ctf")):
        _guard(ctx, "compose", check_compose, rng, force=force)
    # widened input space (argument representations, large / degenerate shapes, shape-preserving histories, overwritten
    # results, per-call data, reconstruction filters, astigmatic CTF / tilt stacks, reused compositions, float64 backend,
    # evaluation order across processes): harness/pv/c12_wide.py
    from .. import c12_wide
    c12_wide.suite(ctx, ctx.rng("wide"))
    ctx.sample({"what": "band-pass history", **_sample_bp(ctx)})


def _sample_bp(ctx):
    from tme.preprocessing.frequency_filters import BandPassFilter
    f = BandPassFilter(lowpass=4, sampling_rate=1, use_gaussian=False)
    a = np.asarray(f(shape=(6, 5), return_real_fourier=True)["data"])
    b = np.asarray(f(shape=(6, 5))["data"])
    return {"ctor": "BandPassFilter(lowpass=4, sampling_rate=1, use_gaussian=False)", "call1": "shape=(6,5), return_real_fourier=True",
            "out1.shape": a.shape, "call2": "shape=(6,5)", "out2.shape": b.shape, "out2": b.astype(int).tolist()}


def search(ctx):
    """correspondence / an obligation broke without a failing input so far: widen generation"""
    for j in range(3):
        rng = ctx.rng(f"search{j}")
        _suite(ctx, rng, 1.5, wide=True)
        from .. import c12_wide
        c12_wide.suite(ctx, ctx.rng(f"wide-search{j}"), 1.5)
        if ctx.spec_failures:
            from ..findings import known_for
            known = known_for(ID)
            if any(f["key"] not in known for f in ctx.spec_failures):
                return


def replay(ctx, rec):
    """re-evaluate a recorded failing input (replays/C12_*.json or corpus/C12_*.json)"""
    inp = rec.get("input", rec)
    kind = inp.get("kind")
    rng = ctx.rng("replay")
    if str(kind).startswith("wide-"):
        from .. import c12_wide
        c12_wide.replay(ctx, inp)
    elif kind in DEEP:
        DEEP[kind](ctx, int(inp["seed"]))
    elif kind == "bandpass":
        from tme.preprocessing.frequency_filters import BandPassFilter
        ctor = _unjson(inp["ctor"])
        calls = [_unjson(c) for c in inp["calls"]]
        obj = BandPassFilter(**ctor)
        before = snapshot(obj)
        for i, kw in enumerate(calls):
            out = obj(**copy.deepcopy(kw))
            fresh = BandPassFilter(**ctor)(**copy.deepcopy(kw))
            ii = {**inp, "call_index": i}
            ctx.spec("result independent of earlier calls (same object vs fresh object)", ii, same_result(out, fresh), key="BandPassFilter:stateful")
            ctx.spec("__call__ leaves the object's attributes unchanged", ii, snapshot(obj) == before, key="BandPassFilter:attributes-mutated")
            bp_spec(ctx, {**BP_DEFAULTS, **ctor, **kw}, np.asarray(fresh["data"]), ii)
    elif kind == "wedge":
        from tme.preprocessing.tilt_series import WedgeReconstructed
        ctor = {k: v for k, v in _unjson(inp["ctor"]).items() if k in WR_DEFAULTS}
        obj = WedgeReconstructed(**ctor)
        before = snapshot(obj)
        for i, kw in enumerate(inp["calls"]):
            kw = _unjson(kw)
            ii = {**inp, "call_index": i}
            want = {"return_real_fourier": False, **WR_DEFAULTS, **ctor, **kw}
            try:
                out = obj(**copy.deepcopy(kw))
            except Exception as e:  # noqa
                ctx.spec("filter call succeeds", ii, False, "raised:" + type(e).__name__, key="WedgeReconstructed:raised")
                continue
            fresh = WedgeReconstructed(**ctor)(**copy.deepcopy(kw))
            ctx.spec("result independent of earlier calls (same object vs fresh object)", ii, same_result(out, fresh), key="WedgeReconstructed:stateful")
            ctx.spec("__call__ leaves the object's attributes unchanged", ii, snapshot(obj) == before, key="WedgeReconstructed:attributes-mutated")
            shape = tuple(want["shape"])
            ws = half_shape(shape) if want["return_real_fourier"] else shape
            ctx.spec("shape: full or half spectrum as asked", ii, tuple(np.asarray(out["data"]).shape) == ws, key="WedgeReconstructed:shape")
            if want["create_continuous_wedge"]:
                full = np.asarray(WedgeReconstructed(**ctor)(**{**kw, "return_real_fourier": False})["data"])
                key, bad = wedge_known_key(ctx, full, want)
                ctx.spec("symmetric under frequency negation", ii, key is None, {"asymmetric": bad[:6].tolist()}, key=key or "WedgeReconstructed:symmetry")
    elif kind == "compose":
        check_compose(ctx, rng, force=tuple(inp["combo"]) + (("data",) if inp.get("use_data") else ()), shape=inp.get("shape"),
                      call_rate=inp.get("sampling_rate_at_call"))
    else:
        run(ctx)


def _unjson(d):
    out = {}
    for k, v in d.items():
        if isinstance(v, list):
            v = tuple(v)
        out[k] = v
    return out
