"""C18 — command-line pipeline recovers a planted particle; results reload intact.

Runs the two scripts of /repo as subprocesses on generated MRC files (planted rotated template), compares the
orientation list with the planted reference position / rotation, the result pickle with an in-process search of the
same data, and the pickle container with the Lean model (Model/C18.lean).

Case families of the subprocess stream (`family` in the recorded input):
  dense     the template fills its (cubic, 5 or 6 voxel) box; interior / border-adjacent / overhanging placements
  noncubic  the template fills a box with three different extents (mixed parities); planted under one of the rotations
            that map the box onto itself
  intcom    automatic centring with a particle whose centre of mass is a voxel centre (point-symmetric dyadic values,
            non-cubic extents, off-centre in a possibly non-cubic file box): every resampling step of the centring path
            is an integral shift, so the reference point is exact
  masked    a template mask file (--template_mask) that is tight around an off-centre particle, the target is clutter
            everywhere except under the (rotated) mask: only a correctly aligned mask gives the planted copy score 1
Every family is crossed with the call-time dimensions of the two tools (see `_options`)."""
import hashlib
import os
import subprocess
import sys

import numpy as np

from .. import env
from .. import scoring as S

ID = "C18"
RULE = ("subprocess runs of scripts/match_template.py and scripts/postprocess.py: scores x {score map, peak calling} x "
        "{unsplit, memory-limited splitting} x {pad_fourier, pad_edges} x {centring on/off} x peak callers in post-processing x "
        "{dense, non-cubic, integral-centre-of-mass, mask-file} templates x {sampling rate, origins, intensity scale / offset, "
        "inverted contrast, target mask, -a 60 / 180, interpolation order, score threshold, job counts 1..7, memory maps, "
        "output location} x post-processing options {number of peaks, min distance, minimum / maximum score incl. ties, "
        "boundary distance, mask, re-read orientations, oversampling}; planted positions interior and next to the border, "
        "planted rotation from the 24-member set; pickle container on generated result tuples with ndarray / tuple / memmap "
        "members (dtypes, read-only maps, output directories, rewritten paths). distinct = distinct option tuples")
ASSUMPTIONS = ["PeakCallerScipy and the unnormalised scores CC / LCC are exercised with interior placements only (C05's border "
               "exception for the external local-maximum finder; CC / LCC are not bounded by the planted value at mirrored borders)",
               "with automatic centring the template is resampled about its centre of mass (interpolation): the best "
               "orientation must be within 1 voxel (per axis) of the planted centre of mass; when the centre of mass is a "
               "voxel centre (family intcom / masked) every shift is integral and the best orientation must be that voxel exactly; "
               "without centring it must be the planted box centre (shape//2) exactly",
               "a rotation is 'the planted rotation' if it maps the template onto the planted copy",
               "memory maps handed to the container are whole-file, C-ordered, offset 0 (what array_to_memmap and the analyzers "
               "create); Fortran-ordered maps, maps with a byte offset and sliced views of a map are outside the result tuples the "
               "property speaks about (the container does not preserve them)",
               "intensity scales / offsets are applied to the normalised, mean-free scores only (FLC, FLCSphericalMask, MCC; "
               "scale also CORR, CAM); a template mask file is used with the scores that rotate their mask (FLC, MCC)",
               "a --minimum_score equal to the best score keeps the best orientation for every peak caller but PeakCallerScipy (the external "
               "finder's threshold is exclusive)",
               "--peak_oversampling f refines inside a window of ceil(1.5 f) / f voxels centred on the integer peak: the refined best "
               "position must stay within 0.75 voxel of the reference point"]
TRUSTED = ["C18: CPython pickle, numpy.memmap, mrcfile; the composition rests on the C01-C05/C11 theorems plus "
           "Pm.C18.planted_window_at_reference / pipeline_best_is_planted"]

SCORES = ["FLC", "FLCSphericalMask", "CORR", "CAM", "MCC", "CC", "LCC"]
CALLERS = ["PeakCallerMaximumFilter", "PeakCallerSort", "PeakCallerFast", "PeakCallerRecursiveMasking", "PeakCallerScipy"]
NORMALISED = ("FLC", "FLCSphericalMask", "CORR", "CAM", "MCC")
MEANFREE = ("FLC", "FLCSphericalMask", "MCC")
TSV_HEADER = ["z", "y", "x", "euler_z", "euler_y", "euler_x", "score", "detail"]


def _digest(a):
    return hashlib.sha1(np.ascontiguousarray(a).tobytes()).hexdigest()[:12]


# ------------------------------------------------------------------------------------------------------------------
# the result container (write_pickle / load_pickle) against the Lean model
# ------------------------------------------------------------------------------------------------------------------
MM_DTYPES = [np.float32, np.float32, np.float64, np.int32, np.int64, np.float16, np.uint8]
ND_DTYPES = [np.float32, np.float32, np.float64, np.int64, np.int32, np.float16, np.bool_]


def _first_repr(x):
    return x if isinstance(x, str) else "<" + type(x).__name__ + ">" + repr(x)


def _pickle_cases(ctx, d, rng, tmp):
    from tme.matching_utils import write_pickle, load_pickle, array_to_memmap
    n = ctx.budget(40, 300)
    outdirs = [tmp, os.path.join(tmp, "res_a"), os.path.join(tmp, "res a", "deep")]
    for p in outdirs:
        os.makedirs(p, exist_ok=True)
    desc_eff, prev_desc = [], []
    prev_out = None
    for it in range(n):
        k = int(rng.integers(1, 6))
        items, desc, keep = [], [], []
        for j in range(k):
            r = rng.random()
            if r < 0.35:
                dt = ND_DTYPES[int(rng.integers(0, len(ND_DTYPES)))]
                shape = tuple(int(x) for x in rng.integers(1, 5, size=int(rng.integers(1, 4))))
                a = (rng.normal(size=shape) * 20).astype(dt)
                lay = int(rng.integers(0, 4))
                if lay == 1:
                    a = np.asfortranarray(a)
                elif lay == 2:
                    a = a[::-1]
                elif lay == 3 and a.ndim > 1:
                    a = a.T
                items.append(a)
                desc.append({"kind": "obj", "payload": "nd:" + _digest(a) + ":" + np.dtype(dt).name})
                keep.append(np.array(a))
            elif r < 0.55:
                # ordinary tuples: the first element is inspected by load_pickle; names that differ from the marker only by
                # case / length / trailing blanks, and first elements that are not strings at all (never a tuple that itself starts
                # with the marker: handed over bare, its elements become records - the quirk the theorem's hypothesis excludes)
                first = [("meta",), ("np.memmapX",), ("origin",), ("x",), ("np.memma",), ("NP.MEMMAP",), ("np.memmap ",), ("",),
                         (7,), (2.5,), (None,), (["np.memmap"],)][int(rng.integers(0, 12))][0]
                t = (first, int(rng.integers(0, 100)))
                if rng.random() < 0.3:
                    t = t + (np.arange(3, dtype=np.float32), "np.memmap")
                items.append(t)
                desc.append({"kind": "tup", "first": _first_repr(first), "rest": repr(t[1:])})
                keep.append(t)
            elif r < 0.7:
                obj = [{"a": int(rng.integers(0, 9))}, [int(rng.integers(0, 9)), "np.memmap"], None, 3.5, "np.memmap"][int(rng.integers(0, 5))]
                items.append(obj)
                desc.append({"kind": "obj", "payload": "py:" + repr(obj)})
                keep.append(obj)
            else:
                dt = MM_DTYPES[int(rng.integers(0, len(MM_DTYPES)))]
                shape = tuple(int(x) for x in rng.integers(1, 5, size=int(rng.integers(1, 4))))
                fn = os.path.join(tmp, f"mm_{it}_{j}.dat")
                content = (rng.normal(size=shape) * 20).astype(dt)
                how = int(rng.integers(0, 3))
                if how == 0:
                    mm = np.memmap(fn, mode="w+", shape=shape, dtype=dt)
                    mm[:] = content
                    mm.flush()
                else:
                    # the library's own way (analyzers with use_memmap): array_to_memmap, reopened read-only or read-write
                    array_to_memmap(content, fn)
                    mm = np.memmap(fn, mode="r" if how == 1 else "r+", shape=shape, dtype=dt)
                items.append(mm)
                desc.append({"kind": "memmap", "shape": list(shape), "dtype": np.dtype(dt).name, "file": fn, "content": it * 10 + j})
                keep.append(content)
        # output location: the scratch directory itself, a sub-directory, a nested one with a blank in its name; now and then the
        # path written last time is written again (with other content): only the new records may come back
        if prev_out is not None and rng.random() < 0.25:
            out, rewritten = prev_out, True
        else:
            out, rewritten = os.path.join(outdirs[int(rng.integers(0, len(outdirs)))], f"res_{it}.pickle"), False
        prev_out = out
        data = items if rng.random() < 0.7 or k > 1 else items[0]
        if isinstance(data, list) and rng.random() < 0.3:
            data = tuple(data)          # write_pickle takes lists and tuples alike
        if isinstance(data, tuple) and len(data) == 0:
            data = items
        try:
            write_pickle(data, out)
            back = load_pickle(out)
        except Exception as e:
            ctx.spec("result container reloads", {"items": desc, "rewritten": rewritten}, False, repr(e), key="pickle:raised")
            continue
        if type(data) in (list, tuple):
            # (a bare tuple item is a sequence to write_pickle: its elements become the records)
            seq = list(data)
            if data is not items and not (isinstance(data, tuple) and len(data) == len(items) and all(x is y for x, y in zip(data, items))):
                desc_eff = [{"kind": "obj", "payload": "py:" + repr(x)} if not isinstance(x, tuple) else
                            {"kind": "tup", "first": _first_repr(x[0]), "rest": repr(x[1:])} for x in seq]
                keep_eff = list(seq)
            else:
                desc_eff, keep_eff = desc, keep
        else:
            seq, desc_eff, keep_eff = [data], desc, keep
        back_seq = back if isinstance(back, list) and len(seq) != 1 else [back]
        if rewritten:
            m = d.call("c18.rewrite", before=prev_desc, items=desc_eff)      # Disk model: the path holds only the new records
        else:
            m = d.call("c18.pickle", items=desc_eff)
        prev_desc = desc_eff
        impl_kinds = []
        for b in back_seq:
            if isinstance(b, np.memmap):
                impl_kinds.append("memmap")
            elif isinstance(b, tuple):
                impl_kinds.append("tup")
            else:
                impl_kinds.append("obj")
        inp = {"items": desc_eff, "rewritten": rewritten, "outdir": os.path.relpath(os.path.dirname(out), tmp)}
        ctx.agree("load_pickle(write_pickle(items)): kinds of the reloaded records", inp,
                  impl_kinds, [x["kind"] for x in m["loaded"]])
        ok = len(back_seq) == len(seq)
        why = None if ok else f"{len(back_seq)} records for {len(seq)} items"
        if ok:
            for b, orig, dsc in zip(back_seq, keep_eff, desc_eff):
                if dsc["kind"] == "memmap":
                    good = isinstance(b, np.memmap) and b.shape == orig.shape and b.dtype == orig.dtype and np.array_equal(np.array(b), orig) \
                        and os.path.dirname(os.path.abspath(b.filename)) == os.path.dirname(os.path.abspath(out)) and not os.path.exists(dsc["file"])
                elif isinstance(orig, np.ndarray):
                    good = isinstance(b, np.ndarray) and b.dtype == orig.dtype and b.shape == orig.shape and np.array_equal(b, orig)
                elif isinstance(orig, tuple):
                    good = isinstance(b, tuple) and len(b) == len(orig) and all(
                        (np.array_equal(x, y) if isinstance(y, np.ndarray) else (type(x) is type(y) and x == y)) for x, y in zip(b, orig))
                else:
                    good = type(b) is type(orig) and b == orig
                if not good and why is None:
                    why = {"item": dsc, "reloaded": repr(b)[:200]}
                ok &= bool(good)
        ctx.spec("result container reloads to the same arrays / tuples / metadata, memory maps relocated", inp, bool(ok), why,
                 key="pickle:roundtrip" + (":rewritten-path" if rewritten and not ok else ""))
        ctx.distinct(("pickle", tuple(x["kind"] for x in desc_eff), rewritten))
        ctx.count("pickle:" + ("with-memmap" if any(x["kind"] == "memmap" for x in desc_eff) else "plain"))
        if rewritten:
            ctx.count("pickle:rewritten-path")
    ctx.sample({"pickle_items": desc_eff})


# ------------------------------------------------------------------------------------------------------------------
# the two command-line tools
# ------------------------------------------------------------------------------------------------------------------
def _write_mrc(path, arr, sampling=1.0, origin=None):
    from tme import Density
    origin = np.zeros(arr.ndim) if origin is None else np.asarray(origin, dtype=float)
    Density(arr.astype(np.float32), origin=origin, sampling_rate=np.ones(arr.ndim) * sampling).to_file(path)


def _run(cmd, cwd):
    try:
        p = subprocess.run(cmd, cwd=cwd, env=env.child_env(), capture_output=True, text=True, timeout=900)
    except subprocess.TimeoutExpired:
        return 124, "timeout"
    return p.returncode, (p.stdout + p.stderr)[-1500:]


_ROT = {}


def _rotset(angular):
    """the rotation matrices the tool samples for `-a angular` (its own order)"""
    if angular not in _ROT:
        from tme.matching_utils import get_rotation_matrices
        if angular >= 180:
            _ROT[angular] = np.eye(3).reshape(1, 3, 3)
        else:
            _ROT[angular] = np.asarray(get_rotation_matrices(angular_sampling=angular, dim=3), dtype=np.float64)
    return _ROT[angular]


def _perm_flip(R):
    Rinv = R.T
    perm = [int(np.argmax(np.abs(Rinv[i]))) for i in range(3)]
    flip = [bool(Rinv[i, perm[i]] < 0) for i in range(3)]
    return perm, flip


def _com_particle(rng):
    """a particle in a cubic box of 9 voxels whose centre of mass is the central voxel, exactly (values are multiples of 1/16, so
    every moment is exact in float32 and float64): a point-symmetric body with odd extents 3 / 5, plus a tail voxel four voxels out
    along an axis on which the body is 3 wide, balanced by four times its weight on the body's opposite face.  The bounding box is
    therefore not centred on the centre of mass (the centring shift of the tool is a non-zero integral vector), the extents differ,
    and the particle has no symmetry (neither rotational nor mirror)"""
    ext = [int(x) for x in rng.permutation([[3, 5, 3], [3, 3, 5], [5, 3, 5], [3, 5, 5]][int(rng.integers(0, 4))])]
    q = rng.integers(3, 17, size=ext).astype(np.float64)
    q[0, :, :] += 8
    q[:, 0, :] += 4
    q[:, :, 0] += 12
    q[0, 0, :] += 6
    body = (q + q[::-1, ::-1, ::-1]) / 16.0
    K, c = 9, 4
    canon = np.zeros((K, K, K))
    canon[tuple(slice(c - e // 2, c + e // 2 + 1) for e in ext)] = body
    axis = int(rng.choice([i for i, e in enumerate(ext) if e == 3]))
    sign = int(rng.choice([-1, 1]))
    w = int(rng.integers(4, 13)) / 16.0
    tail, face = [c, c, c], [c, c, c]
    tail[axis] += 4 * sign
    face[axis] -= sign
    canon[tuple(tail)] += w
    canon[tuple(face)] += 4 * w
    nz = np.argwhere(canon > 0)
    lo, hi = nz.min(0), nz.max(0) + 1
    if rng.random() < 0.6:
        # negative density (as in filtered / background-subtracted maps) in empty voxels of the bounding box next to the tail:
        # it is no mass - the centre of mass of the positive density, the tool's reference point, stays where it is, while a
        # signed mean would move by more than a voxel
        empty = [tuple(int(v) for v in e) for e in np.argwhere(canon == 0)
                 if all(l <= v < h for v, l, h in zip(e, lo, hi)) and (e[axis] - c) * sign >= 2]
        for e in [empty[int(j)] for j in rng.permutation(len(empty))[:6]]:
            canon[e] = -int(rng.integers(64, 129)) / 16.0
    return canon, [int(x) for x in lo], [int(x) for x in hi]


def _read_tsv(path):
    """the orientation file as written (parsed here, not by the library): header, columns by name"""
    with open(path, encoding="utf-8") as f:
        rows = [ln.rstrip("\n").split("\t") for ln in f.read().split("\n") if ln.strip() != ""]
    header = rows[0]
    body = rows[1:]
    col = {h: i for i, h in enumerate(header)}
    tab = {h: [r[col[h]] for r in body] for h in header}
    return header, tab, len(body)


def _build_case(it, opt, rng, rx, tmp):
    """generate the files and command lines of one case (main thread); rng draws of the historical families keep their order,
    every newer dimension draws from `rx`"""
    from tme.memory import estimate_ram_usage
    from tme import Density
    score, peak_calling, split, centering, pad_fourier, pad_edges, peak_caller, border, use_memmap = (
        opt[k] for k in ("score", "peak_calling", "split", "centering", "pad_fourier", "pad_edges", "peak_caller", "border", "use_memmap"))
    fam = opt.get("family", "dense")
    angular = int(opt.get("angular", 60))
    Rset = _rotset(angular)
    jobs = int(opt.get("jobs", 2))
    tmask_file, rot_obj, expected_score = None, None, None
    margin = 0
    exact_centre = False
    if fam == "dense":
        m = 5 if centering else (6 if it % 2 == 0 else 5)       # even boxes only arise without centring
        ms = [m] * 3
        ns = [int(x) for x in rng.integers(3 * m + 4, 3 * m + 8, size=3)]
        if border == "upper":
            # a template whose density sits in the middle of a larger, otherwise empty box (the usual cryo-EM situation): the
            # box may overhang the target's upper border while the density itself is still inside the target
            m, margin = 9, 3
            ms = [m] * 3
            ns = [int(x) for x in rng.choice([23, 29, 31, 37], size=3)]      # next_fast_len(n) > n on every axis
        # asymmetric positive template; with centring the enclosing box is the template box itself (all voxels > 0)
        template = rng.random(ms) * 0.8 + 0.2
        template[0 + margin, :, :] += 1.5
        template[:, 1 + margin, :] += 0.7
        template[:, :, 2 + margin] += 1.1
        if margin:
            core = np.zeros(ms, bool)
            core[(slice(margin, m - margin),) * 3] = True
            template = np.where(core, template, 0.0)
        # the rotation set the tool will use (in the tool's order: inner jobs get contiguous chunks)
        if peak_calling and split:
            ridx = int(rng.integers(0, max(1, len(Rset) // 2)))
        elif len(Rset) % jobs and len(Rset) > jobs:
            ridx = len(Rset) - 1 - int(rng.integers(0, len(Rset) % jobs))     # among the rotations only the last job's remainder covers
        else:
            ridx = int(rng.integers(0, len(Rset)))
        R = Rset[ridx]
        perm, flip = _perm_flip(R)
        gR = S.rotate_grid(template, perm, flip)
        P0 = []
        for n in ns:
            if centering:
                # the centred template lives in an enlarged box (all rotations fit): keep that box inside the target
                P0.append(int(rng.integers(4, n - m - 3)))
            elif peak_calling and split:
                P0.append(int(rng.integers(n // 2 + 1, n - m)))       # in a tile with a non-zero offset
            elif peak_caller == "PeakCallerScipy" or score in ("CC", "LCC"):
                # the external local-maximum finder only promises maxima farther than min_distance (3) from the border (C05);
                # unnormalised scores (CC, LCC) are not bounded by the planted value once mirrored / zero-extended data
                # enters the window, so these two are planted in the interior
                P0.append(int(rng.integers(4, n - m - 3)))
            else:
                P0.append(n - m + margin if border == "upper" else int(rng.choice([0, n - m])) if border else int(rng.integers(1, n - m)))
        target = rng.normal(0, 0.05 if margin else 0.15, size=ns)
        # (the box may overhang the upper border: only the part inside the target is added; the overhanging part of gR is empty)
        target[tuple(slice(p, min(p + m, n)) for p, n in zip(P0, ns))] += gR[tuple(slice(0, min(m, n - p)) for p, n in zip(P0, ns))]
        rot_obj, rot_img = template, gR
        if centering:
            com = np.array([np.sum(gR * g) / gR.sum() for g in np.indices(ms)])
            ref, tol = np.array(P0) + com, 1.0
        else:
            ref, tol = None, 0.0        # P0 + ms // 2, from the Lean model
        box = ms
    elif fam == "noncubic":
        # three different extents of mixed parity; the rotations that map such a box onto itself: identity and the half turns
        ms = [int(x) for x in rx.permutation([[5, 6, 7], [4, 5, 7], [6, 5, 8], [5, 7, 9]][int(rx.integers(0, 4))])]
        ns = [int(3 * mm + rx.integers(2, 7)) for mm in ms]
        template = rx.random(ms) * 0.8 + 0.2
        template[0, :, :] += 1.5
        template[:, 1, :] += 0.7
        template[:, :, 2] += 1.1
        keepers = [i for i, Rm in enumerate(Rset) if np.allclose(np.abs(Rm), np.eye(3), atol=1e-6)]
        ridx = int(keepers[int(rx.integers(0, len(keepers)))])
        R = Rset[ridx]
        perm, flip = _perm_flip(R)
        gR = S.rotate_grid(template, perm, flip)
        interior = peak_caller == "PeakCallerScipy" or score in ("CC", "LCC") or (peak_calling and split)
        P0 = []
        for n, mm in zip(ns, ms):
            if interior:
                P0.append(int(rx.integers(4, n - mm - 3)))
            else:
                P0.append(int(rx.choice([0, n - mm])) if border else int(rx.integers(1, n - mm)))
        target = rx.normal(0, 0.15, size=ns)
        target[tuple(slice(p, p + mm) for p, mm in zip(P0, ms))] += gR
        rot_obj, rot_img = template, gR
        ref, tol = None, 0.0
        box = ms
    else:
        # intcom / masked: a particle whose centre of mass is a voxel centre, off the centre of its bounding box
        canon, blo, bhi = _com_particle(rx)
        K = canon.shape[0]
        ext = [h - l for l, h in zip(blo, bhi)]
        p = canon[tuple(slice(l, h) for l, h in zip(blo, bhi))]
        cmask = np.zeros((K, K, K))
        cmask[tuple(slice(l, h) for l, h in zip(blo, bhi))] = 1.0
        if centering:
            # file box: possibly non-cubic, the particle anywhere in it
            ms = [int(e + rx.integers(1, 5)) for e in ext]
            off = [int(rx.integers(0, mm - e + 1)) for mm, e in zip(ms, ext)]
        else:
            # without centring the tool rotates the file box about its geometric centre: cubic box, particle off-centre
            mm = max(ext) + int(rx.integers(1, 4))
            ms = [mm] * 3
            off = [int(rx.integers(0, mm - e + 1)) for e in ext]
        template = np.zeros(ms)
        sl = tuple(slice(o, o + e) for o, e in zip(off, ext))
        template[sl] = p
        tmask = np.zeros(ms)
        tmask[sl] = 1.0
        if len(Rset) % jobs and len(Rset) > jobs and rx.random() < 0.5:
            ridx = len(Rset) - 1 - int(rx.integers(0, len(Rset) % jobs))
        else:
            ridx = int(rx.integers(0, len(Rset)))
        R = Rset[ridx]
        perm, flip = _perm_flip(R)
        if centering:
            obj, objmask = canon, cmask       # the tool rotates the centred template about the centre of mass
        else:
            obj, objmask = template, tmask
        gR = S.rotate_grid(obj, perm, flip)
        gM = S.rotate_grid(objmask, perm, flip)
        B = obj.shape[0]
        box = [B] * 3
        if centering:
            cshape = [int(x) for x in Density(template.astype(np.float32)).centered(0)[0].shape]
            ns = [int(max(3 * K, c + 8) + rx.integers(4, 9)) for c in cshape]
            lo = [max(3, (c - K) // 2 + 2) for c in cshape]
        else:
            ns = [int(3 * B + rx.integers(2, 7)) for _ in range(3)]
            # --pad_edges mirrors the target at its faces: keep the particle so far inside that the box centre belonging to a
            # mirror image of it lies outside the target (the particle has no mirror symmetry, its body alone nearly has)
            lo = [(B - min(ext)) // 2 + 1] * 3
        P0 = [int(rx.integers(l, n - B - l + 1)) for l, n in zip(lo, ns)]
        win = tuple(slice(q, q + B) for q in P0)
        if fam == "masked":
            # clutter everywhere; the planted copy exists only under the (rotated) mask: a mask that is not moved together with
            # the template covers clutter instead of the particle
            target = rx.normal(0, 0.6, size=ns)
            w = target[win]
            w[gM > 0] = gR[gM > 0] + rx.normal(0, 0.01, size=int((gM > 0).sum()))
            tmask_file = tmask
            # what a mask-aware normalised score is at the planted pose: the correlation of window and template under the mask
            expected_score = float(np.corrcoef(w[gM > 0], gR[gM > 0])[0, 1])
        else:
            target = rx.normal(0, 0.05, size=ns)
            target[win] += gR
        rot_obj, rot_img = obj, gR
        exact_centre = True
        if centering:
            ref, tol = np.array(P0, dtype=float) + (K - 1) / 2.0, 0.0
        else:
            ref, tol = None, 0.0
    ns = [int(x) for x in ns]
    # ---- call-time dimensions that leave the expected answer unchanged -------------------------------------------------
    st, sT, offs = float(opt.get("target_scale", 1.0)), float(opt.get("template_scale", 1.0)), float(opt.get("target_offset", 0.0))
    target_f = (target + offs) * st
    template_f = template * sT
    if opt.get("invert"):
        target_f = -target_f          # the file holds the inverted contrast; --invert_target_contrast undoes it
    sampling = float(opt.get("sampling", 1.0))
    origin_t = [float(x) * sampling for x in opt.get("origin_target", [0, 0, 0])]
    origin_i = [float(x) * sampling for x in opt.get("origin_template", [0, 0, 0])]
    case_dir = os.path.join(tmp, f"cli_{it}")
    os.makedirs(case_dir, exist_ok=True)
    _write_mrc(os.path.join(case_dir, "target.mrc"), target_f, sampling, origin_t)
    _write_mrc(os.path.join(case_dir, "template.mrc"), template_f, sampling, origin_i)
    outname = {"cwd": "out.pickle", "subdir": os.path.join("res dir", "out.pickle"),
               "abs": os.path.join(case_dir, "elsewhere", "result.bin")}[opt.get("output", "cwd")]
    if os.path.dirname(outname):
        os.makedirs(os.path.join(case_dir, os.path.dirname(outname)), exist_ok=True)
    if opt.get("stale_output"):
        # the output path already holds an older, longer result (nine records): none of it may survive the run
        import pickle
        with open(os.path.join(case_dir, outname), "wb") as f:
            for i in range(9):
                pickle.dump(("stale record", i, np.zeros((4, 4, 4), dtype=np.float32)), f)
    cmd = [env.PY, os.path.join(env.REPO, "scripts", "match_template.py"), "-m", "target.mrc", "-i", "template.mrc",
           "-o", outname, "-s", score, "-a", str(angular), "-n", str(jobs)]
    if opt.get("order", 1) is not None:
        cmd += ["--interpolation_order", str(opt.get("order", 1))]
    target_mask = None
    if score == "MCC":      # the doubly-masked score needs a target mask
        target_mask = np.ones(ns)
    if opt.get("target_mask"):
        # a target mask with a hole far from the particle (in the corner opposite to it)
        target_mask = np.ones(ns)
        centre_ref = np.array(P0) + np.array(box) / 2.0
        hole = tuple(slice(0, n // 4) if c > n / 2 else slice(n - n // 4, n) for c, n in zip(centre_ref, ns))
        target_mask[hole] = 0
    if target_mask is not None:
        _write_mrc(os.path.join(case_dir, "tmask.mrc"), target_mask, sampling, origin_t)
        cmd += ["--target_mask", "tmask.mrc"]
    if tmask_file is not None:
        # (the origin stored in a mask file is not used by the tool: it takes the template's)
        _write_mrc(os.path.join(case_dir, "imask.mrc"), tmask_file, sampling, [7.0 * sampling, 0.0, -3.0 * sampling])
        cmd += ["--template_mask", "imask.mrc"]
    if not centering:
        cmd.append("--no_centering")
    if pad_fourier:
        cmd.append("--pad_fourier")
    if pad_edges:
        cmd.append("--pad_edges")
    if peak_calling:
        cmd += ["-p"]
    if use_memmap:
        cmd.append("--use_memmap")
    if opt.get("invert"):
        cmd.append("--invert_target_contrast")
    if opt.get("score_threshold"):
        cmd += ["--score_threshold", str(opt["score_threshold"])]
    if split:
        if fam in ("dense",):
            shape2 = [2 * ms[0]] * 3 if centering else ms
        elif centering:
            shape2 = [int(x) for x in Density(template.astype(np.float32)).centered(0)[0].shape]
        else:
            shape2 = ms
        whole = estimate_ram_usage(shape1=ns, shape2=shape2, matching_method=score, ncores=1,
                                   analyzer_method="PeakCallerMaximumFilter" if peak_calling else "MaxScoreOverRotations")
        cmd += ["-r", str(int(whole * 0.8))]
    inp = dict(opt)
    inp.update({"it": it, "ns": ns, "ms": [int(x) for x in ms], "P0": [int(x) for x in P0], "perm": perm, "flip": flip, "rotation_index": ridx,
                "command": " ".join(cmd[2:])})
    # post-processing: primary call + variants on the same result file
    pp0 = [env.PY, os.path.join(env.REPO, "scripts", "postprocess.py"), "--input_file", outname, "--output_format", "orientations",
           "--peak_caller", peak_caller]
    primary = pp0 + ["--output_prefix", "ori"]
    if opt.get("number_of_peaks", 10) is not None:
        primary += ["--number_of_peaks", str(opt.get("number_of_peaks", 10))]
    if opt.get("min_distance", 3) is not None:
        primary += ["--min_distance", str(opt.get("min_distance", 3))]
    return {"it": it, "opt": opt, "inp": inp, "dir": case_dir, "cmd": cmd, "out": os.path.join(case_dir, outname), "pp0": pp0, "primary": primary,
            "target": target_f, "template": template_f, "target_mask": target_mask, "ns": ns, "ms": [int(x) for x in ms], "P0": [int(x) for x in P0],
            "box": [int(x) for x in box], "R": R, "Rset": Rset, "ref": ref, "tol": tol, "rot_obj": rot_obj, "rot_img": rot_img, "margin": margin,
            "exact_centre": exact_centre, "expected_score": expected_score, "sampling": sampling, "origin_t": origin_t, "origin_i": origin_i, "fam": fam,
            "variants": list(opt.get("pp", [])), "results": {}}


def _ref_distance_ok(case, ref, dist):
    return all(dist + 1 <= r <= n - dist - 2 for r, n in zip(ref, case["ns"]))


def _result_digest(path):
    """content of every array of a result file (memory maps read through)"""
    from tme.matching_utils import load_pickle
    try:
        data = load_pickle(path)
        data = data if isinstance(data, list) else [data]
        out = []
        for x in data:
            if isinstance(x, np.ndarray):
                out.append(f"{type(x).__name__}:{x.dtype}:{x.shape}:{_digest(np.array(x))}")
            elif isinstance(x, dict):
                out.append("dict:" + _digest(np.array([np.asarray(v, dtype=np.float64).ravel() for _, v in sorted(x.items())])))
        return out
    except Exception as e:
        return ["error:" + repr(e)]


def _execute(case):
    """the subprocess part of a case (pool thread): match_template.py, postprocess.py, post-processing variants"""
    res = case["results"]
    rc, log = _run(case["cmd"], case["dir"])
    res["match"] = (rc, log, os.path.exists(case["out"]))
    if rc != 0 or not res["match"][2]:
        return case
    res["digest_before"] = _result_digest(case["out"])
    rc, log = _run(case["primary"], case["dir"])
    tsv = os.path.join(case["dir"], "ori.tsv")
    res["primary"] = (rc, log, os.path.exists(tsv))
    if rc != 0 or not res["primary"][2]:
        return case
    try:
        header, tab, nrow = _read_tsv(tsv)
        case["tsv"] = (header, tab, nrow)
        import shutil
        shutil.copyfile(tsv, os.path.join(case["dir"], "ori_primary.tsv"))      # (a variant writes ori.tsv again)
        best = max(float(np.float32(x)) for x in tab["score"]) if nrow else None
    except Exception as e:      # evaluated in the main thread
        case["tsv_error"] = repr(e)
        return case
    if best is None:
        return case
    pp0 = case["pp0"]
    nd = ["--number_of_peaks", "10", "--min_distance", "3"]
    for v in case["variants"]:
        extra, prefix = None, "v_" + v
        if v == "one":
            extra, prefix = ["--number_of_peaks", "1", "--min_distance", "3"], "ori"      # (writes ori.tsv a second time)
        elif v == "tie":
            extra = ["--minimum_score", repr(best), "--min_distance", "3"]
        elif v == "below":
            extra = ["--minimum_score", repr(best * 0.5), "--min_distance", "3"]
        elif v == "maxtie":
            extra = nd + ["--maximum_score", repr(best)]
        elif v == "boundary":
            extra = nd + ["--min_boundary_distance", str(case["boundary"])]
        elif v == "mask_edges":
            extra = nd + ["--mask_edges"]
        elif v == "reread":
            extra = ["--orientations", "ori.tsv"]
        elif v == "ppmask":
            extra = nd + ["--target_mask", "ppmask.mrc"]
        elif v == "oversample":
            extra = nd + ["--peak_oversampling", "2"]
        if extra is None:
            continue
        rc, log = _run(pp0 + ["--output_prefix", prefix] + extra, case["dir"])
        path = os.path.join(case["dir"], prefix + ".tsv")
        got = None
        if rc == 0 and os.path.exists(path):
            try:
                got = _read_tsv(path)
            except Exception as e:
                log = repr(e)
        res["v:" + v] = (rc, log, got)
    res["digest_after"] = _result_digest(case["out"])
    return case


def _same_rotation(case, Rrep, rots):
    R = case["R"]
    if np.allclose(Rrep, R, atol=1e-4):
        return True
    obj, img = case["rot_obj"], case["rot_img"]
    for (pp_, ff_, RR) in rots:
        if np.allclose(RR, Rrep, atol=1e-4):
            if not S.rot_ok_for_shape(pp_, obj.shape):
                return False
            return bool(np.allclose(S.rotate_grid(obj, pp_, ff_), img))
    return False


def _rows(tab, nrow):
    pos = np.array([[float(tab[c][i]) for c in ("z", "y", "x")] for i in range(nrow)], dtype=float).reshape(nrow, 3)
    ang = np.array([[float(tab[c][i]) for c in ("euler_z", "euler_y", "euler_x")] for i in range(nrow)], dtype=float).reshape(nrow, 3)
    sc = np.array([float(np.float32(x)) for x in tab["score"]], dtype=float)
    return pos, ang, sc


def _evaluate(ctx, d, case):
    from tme.matching_utils import load_pickle, euler_to_rotationmatrix
    from tme import Density
    opt, inp, res = case["opt"], case["inp"], case["results"]
    score, peak_calling, split, centering, pad_fourier, pad_edges, peak_caller = (
        opt[k] for k in ("score", "peak_calling", "split", "centering", "pad_fourier", "pad_edges", "peak_caller"))
    it, ns, ms, P0, box, R = case["it"], case["ns"], case["ms"], case["P0"], case["box"], case["R"]
    fam = case["fam"]
    rc, log, there = res["match"]
    if rc != 0 or not there:
        key = "cli:match_template-failed:" + score
        if opt.get("use_memmap") and opt.get("target_mask") and score != "MCC" and not peak_calling and "read-only" in log:
            key = "cli:match_template-failed:memmap+target-mask:read-only"
        ctx.spec("match_template.py runs", inp, False, log, key=key)
        return
    try:
        # (the check process is not in the directory the tool ran in: a result file must not depend on the reader's directory)
        data = load_pickle(case["out"])
    except Exception as e:  # noqa
        ctx.spec("the result file written by the matching tool reloads", inp, False, f"{type(e).__name__}: {e}"[:300],
                 key="cli:result-reload" + (":memmap" if opt.get("use_memmap") else ""))
        return
    meta = data[-1] if isinstance(data, list) else None
    ctx.spec("result file holds the analyzer's four records followed by the metadata record, nothing else", inp,
             isinstance(data, list) and len(data) == 5, {"records": len(data) if isinstance(data, list) else type(data).__name__},
             key="cli:record-count" + (":stale-output" if opt.get("stale_output") else ""))
    meta_ok = isinstance(meta, tuple) and len(meta) == 4
    why = None
    if meta_ok:
        cli_args = meta[-1]
        want_t = np.asarray(Density.from_file(os.path.join(case["dir"], "target.mrc"), use_memmap=True).origin, dtype=float)
        chk = {"template path": os.path.basename(str(cli_args.template)) == "template.mrc",
               "target path": os.path.basename(str(cli_args.target)) == "target.mrc",
               "score": cli_args.score == score,
               "centring flag": bool(cli_args.no_centering) == (not centering),
               "peak flag": bool(cli_args.peak_calling) == bool(peak_calling),
               "target origin": np.allclose(np.asarray(meta[0], dtype=float), want_t, atol=1e-4) and np.allclose(want_t, case["origin_t"], atol=1e-3),
               "sampling rate": np.allclose(np.asarray(meta[2], dtype=float), case["sampling"], atol=1e-4),
               "template origin": centering or np.allclose(np.asarray(meta[1], dtype=float), case["origin_i"], atol=1e-3)}
        why = [k for k, v in chk.items() if not v]
        meta_ok = not why
    ctx.spec("result file carries the metadata record (origins, sampling rate, arguments)", inp, bool(meta_ok), why, key="cli:metadata")
    if opt.get("use_memmap") and not peak_calling:
        outdir = os.path.dirname(os.path.abspath(case["out"]))
        mm_ok = all(isinstance(data[i], np.memmap) and os.path.dirname(os.path.abspath(data[i].filename)) == outdir for i in (0, 2))
        ctx.spec("with --use_memmap the score and rotation maps reload as memory maps stored next to the result file", inp, bool(mm_ok),
                 {"types": [type(data[0]).__name__, type(data[2]).__name__]}, key="cli:memmap-relocated")
    if not peak_calling:
        smap = np.asarray(data[0])
        rmap = np.asarray(data[2])
        ctx.spec("score map in the result file has the target's shape (its indices are target voxel coordinates)", inp,
                 list(smap.shape) == ns and list(rmap.shape) == ns, {"score map": list(smap.shape), "target": ns},
                 key="cli:score-map-shape")
        if list(smap.shape) == ns and list(rmap.shape) == ns:
            am = [int(x) for x in np.unravel_index(int(np.argmax(smap)), smap.shape)]
            if not centering:
                want = [p + b // 2 for p, b in zip(P0, box)]
                ctx.spec("maximum of the score map in the result file sits at the planted box centre", inp, am == want,
                         {"argmax": am, "planted": want}, key="cli:score-map-argmax")
            elif case["exact_centre"]:
                want = [int(x) for x in case["ref"]]
                ctx.spec("maximum of the score map in the result file sits at the planted centre of mass (a voxel centre)", inp, am == want,
                         {"argmax": am, "planted": want}, key="cli:score-map-argmax:centred")
            # offsets and rotation table: zero offset; one entry per sampled rotation; the entry at the maximum is the planted one
            table = data[3]
            tab_ok = isinstance(table, dict) and np.array_equal(np.asarray(data[1]), np.zeros(3, dtype=int))
            why = None if tab_ok else "offset / table type"
            if tab_ok:
                mats = [np.asarray(v, dtype=float) for v in table.values()]
                tab_ok = sorted(int(k) for k in table.keys()) == list(range(len(case["Rset"]))) and all(mm_.shape == (3, 3) for mm_ in mats)
                why = None if tab_ok else {"keys": sorted(int(k) for k in table.keys())[:30]}
                if tab_ok:
                    hit = [int(np.argmin([np.abs(mm_ - Rk).max() for Rk in case["Rset"]])) for mm_ in mats]
                    err = max(float(np.abs(mm_ - case["Rset"][h]).max()) for mm_, h in zip(mats, hit))
                    tab_ok = sorted(hit) == list(range(len(case["Rset"]))) and err <= 1e-5
                    why = None if tab_ok else {"matched": hit, "err": err}
            ctx.spec("rotation table of the result file lists every sampled rotation once; offset is zero", inp, bool(tab_ok), why,
                     key="cli:rotation-table")
            if tab_ok:
                Rmax = np.asarray(table[int(rmap[tuple(am)])], dtype=float)
                ctx.spec("rotation stored at the maximum of the score map is the planted rotation", inp,
                         _same_rotation(case, Rmax, S.grid_rotations(3)), {"stored": np.round(Rmax, 3).tolist()}, key="cli:rotation-map")
    # reference point in target voxel coordinates
    if case["ref"] is not None:
        ref, tol = np.asarray(case["ref"], dtype=float), case["tol"]
    else:
        ref, tol = np.array(d.call("c18.refPos", ms=box, P0=P0), dtype=float), 0.0
    rc, log, there = res.get("primary", (1, "not run", False))
    if rc != 0 or not there:
        ctx.spec("postprocess.py runs", inp, False, log, key="cli:postprocess-failed:" + peak_caller)
        return
    if "tsv_error" in case:
        ctx.spec("orientation file is a tab-separated table", inp, False, case["tsv_error"], key="cli:tsv-format")
        return
    header, tab, nrow = case["tsv"]
    if not ctx.spec("orientation file has the columns z y x euler_z euler_y euler_x score detail", inp, header == TSV_HEADER,
                    {"header": header}, key="cli:tsv-header"):
        return
    if nrow == 0:
        ctx.spec("orientation list is not empty", inp, False, key="cli:no-orientations")
        return
    rots = S.grid_rotations(3)
    cls = ("centred" if centering else "nocentre") + (":peaks" if peak_calling else ":map")

    def best_of(tab_, nrow_):
        pos_, ang_, sc_ = _rows(tab_, nrow_)
        b_ = int(np.argmax(sc_))
        return pos_, ang_, sc_, b_

    pos, ang, sc, b = best_of(tab, nrow)
    ok_pos = bool(np.all(np.abs(pos[b] - ref) <= tol + 1e-6))
    ctx.spec("best orientation sits at the planted reference point (box centre / centre of mass) in target voxels", inp, ok_pos,
             {"best": pos[b].tolist(), "reference": ref.tolist(), "score": float(sc[b])}, key="cli:position:" + cls)
    Rrep = euler_to_rotationmatrix(np.asarray(ang[b], dtype=float))
    ctx.spec("best orientation carries the planted rotation", inp, _same_rotation(case, Rrep, rots), {"reported": np.round(Rrep, 3).tolist()},
             key="cli:rotation")
    # the library's reader sees the same rows as the file holds
    try:
        from tme.orientations import Orientations
        ori = Orientations.from_file(os.path.join(case["dir"], "ori_primary.tsv"), file_format="text")
        same_rows = ori.translations.shape == pos.shape and np.array_equal(ori.translations, pos.astype(np.float32)) and \
            np.array_equal(ori.rotations, ang.astype(np.float32)) and np.array_equal(ori.scores, sc.astype(np.float32))
    except Exception as e:
        same_rows = False
        log = repr(e)
    ctx.agree("Orientations.from_file(ori.tsv) == the rows of the file (columns by name)", inp, bool(same_rows), True)
    if score in NORMALISED:
        if fam in ("dense", "noncubic"):
            floor = 0.6 if centering else 0.9
        else:
            # exact copy under the mask / exact integral shift: the planted value is 1 up to float32 noise and the small additive
            # background (sd 0.05 against a particle of amplitude >= 0.4 in at most a quarter of the box for `intcom`)
            # masked: the score at the planted pose is the correlation under the binary mask (computed from the generated data in
            # double precision), up to the float32 noise allowance used for score maps (2e-3)
            floor = case["expected_score"] - 2e-3 if fam == "masked" else 0.7
        ctx.spec("best orientation's score is close to 1 for a normalised score", inp, bool(float(sc[b]) >= floor),
                 {"score": float(sc[b]), "floor": floor}, key="cli:score-near-one:" + score)
        ctx.spec("a normalised score does not exceed 1 (beyond float32 noise)", inp, bool(float(sc.max()) <= 1.0 + 2e-3), {"max": float(sc.max())},
                 key="cli:score-above-one:" + score)
    nop = opt.get("number_of_peaks", 10)
    if not peak_calling:
        ctx.spec("no more orientations than --number_of_peaks", inp, nrow <= (1000 if nop is None else int(nop)), {"rows": nrow}, key="cli:number-of-peaks")
    # ---- post-processing variants on the same result file ---------------------------------------------------------------
    for v in case["variants"]:
        r = res.get("v:" + v)
        if r is None:
            continue
        vinp = dict(inp)
        vinp["postprocess_variant"] = v
        vrc, vlog, got = r
        if vrc != 0 or got is None:
            ctx.spec("postprocess.py runs", vinp, False, vlog, key=f"cli:postprocess-failed:{v}:" + peak_caller)
            continue
        vh, vt, vn = got
        if vh != TSV_HEADER:
            ctx.spec("orientation file has the columns z y x euler_z euler_y euler_x score detail", vinp, False, {"header": vh}, key="cli:tsv-header")
            continue
        if v == "reread":
            vp, va, vs = _rows(vt, vn)
            ctx.spec("an orientation file handed back through --orientations is written out unchanged", vinp,
                     vn == nrow and np.array_equal(vp, pos) and np.array_equal(va.astype(np.float32), ang.astype(np.float32)) and np.array_equal(vs, sc),
                     {"rows": [nrow, vn]}, key="cli:reread-orientations")
            continue
        if vn == 0:
            ctx.spec("orientation list is not empty", vinp, False, key="cli:no-orientations:" + v)
            continue
        vp, va, vs, vb = best_of(vt, vn)
        vtol = tol + (0.75 if v == "oversample" else 0.0)
        okv = bool(np.all(np.abs(vp[vb] - ref) <= vtol + 1e-6))
        ctx.spec("best orientation sits at the planted reference point (box centre / centre of mass) in target voxels", vinp, okv,
                 {"best": vp[vb].tolist(), "reference": ref.tolist(), "score": float(vs[vb])}, key=f"cli:position:{v}:" + cls)
        Rv = euler_to_rotationmatrix(np.asarray(va[vb], dtype=float))
        ctx.spec("best orientation carries the planted rotation", vinp, _same_rotation(case, Rv, rots), {"reported": np.round(Rv, 3).tolist()},
                 key="cli:rotation:" + v)
        best = float(sc[b])
        if v == "one":
            ctx.spec("--number_of_peaks 1 leaves exactly the best orientation", vinp, vn == 1, {"rows": vn}, key="cli:number-of-peaks:one")
        elif v == "tie":
            ctx.spec("--minimum_score equal to the best score keeps the best orientation and nothing below it", vinp,
                     bool(np.all(vs >= best)), {"scores": vs[:5].tolist(), "threshold": best}, key="cli:minimum-score:tie")
        elif v == "below":
            ctx.spec("--minimum_score keeps exactly the orientations at or above it", vinp, bool(np.all(vs >= np.float32(best * 0.5))),
                     {"min": float(vs.min()), "threshold": best * 0.5}, key="cli:minimum-score")
        elif v == "maxtie":
            ctx.spec("--maximum_score equal to the best score keeps the best orientation", vinp, bool(np.all(vs <= best)),
                     {"max": float(vs.max())}, key="cli:maximum-score:tie")
        elif v in ("boundary", "mask_edges"):
            dist = int(case["boundary"]) if v == "boundary" else int(np.ceil(max(ms) / 2))
            vinp["boundary_distance"] = dist
            kept = d.batch([("c18.keptAt", {"d": dist, "n": int(n_), "x": int(x_)}) for p_ in vp for x_, n_ in zip(p_, ns) if x_ >= 0])
            inside = bool(np.all(vp >= 0)) and all(k_["kept"] for k_ in kept)
            ctx.spec("with a boundary distance every reported orientation keeps that distance from the target's faces", vinp, inside,
                     {"distance": dist}, key="cli:boundary-distance")
            if v == "boundary":
                must = d.batch([("c18.keptAt", {"d": dist, "n": int(n_), "x": int(x_)}) for x_, n_ in zip(ref, ns)])
                ctx.obligation("C18 generator: the planted point keeps the requested boundary distance (Pm.C18.keptAt)", all(k_["kept"] for k_ in must),
                               {"ref": ref.tolist(), "distance": dist, "ns": ns})
        elif v == "ppmask":
            # (the mask multiplies the scores: an orientation reported outside it can only carry the score 0)
            pm = case["ppmask"]
            zero_outside = bool(all(pm[tuple(int(round(x)) for x in p_)] > 0 or s_ == 0.0 for p_, s_ in zip(vp, vs)))
            ctx.spec("with a post-processing mask an orientation outside the mask has score 0", vinp, zero_outside, key="cli:postprocess-mask")
    if "digest_after" in res:
        ctx.spec("post-processing leaves the arrays of the result file as they were written", inp, res["digest_before"] == res["digest_after"],
                 {"before": res["digest_before"], "after": res["digest_after"], "variants": case["variants"]},
                 key="cli:result-file-modified-by-postprocess" + (":memmap" if opt.get("use_memmap") else ""))
    # the score map written by the CLI == an in-process search on the same data (no centring: identical template)
    plain = not (opt.get("invert") or opt.get("target_mask") or opt.get("score_threshold") or opt.get("order", 1) != 1 or fam not in ("dense", "noncubic")
                 or int(opt.get("angular", 60)) != 60)
    if not peak_calling and not centering and it % 2 == 0 and plain:
        ref_res = S.run_subsets(score, case["target"], case["template"], rotations=case["Rset"], pad=pad_fourier, order=1, splits={},
                                pad_edges=bool(pad_edges or split), callback_args={"score_threshold": 0.0},
                                target_mask=np.ones(ns) if score == "MCC" else None)
        a, b_ = np.asarray(data[0], np.float64), np.asarray(ref_res[0], np.float64)
        close = a.shape == b_.shape and float(np.max(np.abs(a - b_))) <= (2e-3 if score not in ("CC", "LCC") else 1e-3 * max(1.0, float(np.abs(b_).max())))
        ctx.agree("score map in the result file == in-process scan_subsets on the same data", inp, bool(close), True)
    ctx.distinct(tuple(sorted((k, str(v)) for k, v in opt.items())))
    for k in ("score", "peak_calling", "split", "centering", "peak_caller"):
        ctx.count(f"cli:{k}={opt[k]}")
    ctx.count("cli:family=" + fam)
    for k in ("sampling", "invert", "target_mask", "angular", "order", "score_threshold", "target_scale", "target_offset", "output", "jobs", "stale_output",
              "number_of_peaks", "min_distance", "use_memmap"):
        if k in opt:
            ctx.count(f"cli:{k}={opt[k]}")
    for v in case["variants"]:
        ctx.count("cli:pp=" + v)
    if it < 2:
        ctx.sample(inp)


def _base_options(it):
    opt = {
        "score": SCORES[it % len(SCORES)],
        "peak_calling": bool(it % 3 == 1),
        "split": bool(it % 2 == 1),
        "centering": bool(it % 4 in (2, 3)),
        "pad_fourier": bool(it % 5 != 4),
        "pad_edges": bool(it % 3 == 0),
        "peak_caller": CALLERS[it % len(CALLERS)],
        "border": bool(it % 4 == 0),
        "use_memmap": bool(it % 7 == 3),
        # inner jobs: 2 divides the 24 rotations; 5 and 7 do not (the last job gets the remainder)
        # (with a memory limit the tool may legitimately find no schedule for an odd core count: keep 2 there)
        "jobs": 2 if it % 2 == 1 else [5, 2, 7, 2, 2][it % 5],
    }
    if it % 8 == 6:
        # the tool's plain defaults: score map, no --pad_fourier, no --pad_edges, no memory limit, no centring; the particle
        # touches the upper border of a target whose extents are not fast FFT lengths
        opt.update(peak_calling=False, split=False, centering=False, pad_fourier=False, pad_edges=False, border="upper",
                   use_memmap=False, jobs=2, score=["FLCSphericalMask", "CORR", "FLC", "CAM"][(it // 8) % 4],
                   peak_caller=["PeakCallerMaximumFilter", "PeakCallerSort"][(it // 8) % 2])
    return opt


PP_VARIANTS = ["one", "tie", "below", "maxtie", "boundary", "mask_edges", "reread", "ppmask", "oversample"]


def _wide_options(j, rx):
    """the j-th case of the widened stream: family x call-time dimensions (a covering design: every dimension cycles with its own
    period, the remaining freedom is drawn from rx)"""
    fam = ["intcom", "masked", "noncubic", "dense", "masked", "intcom", "dense", "noncubic"][j % 8]
    opt = {"family": fam}
    if fam == "masked":
        opt["score"] = ["FLC", "MCC"][(j // 8 + j) % 2]
        opt["centering"] = bool((j // 4) % 2 == 0)
    elif fam == "intcom":
        # (the mask the tool builds for a centred template is a cube that may sit half a voxel off the rotation centre: only the
        # scores that rotate the mask together with the template are independent of that)
        opt["score"] = ["FLC", "MCC"][(j // 8 + j // 5) % 2]
        opt["centering"] = True
    else:
        opt["score"] = SCORES[(j // 2) % len(SCORES)]
        opt["centering"] = bool(fam == "dense" and j % 3 == 0)
    opt["peak_calling"] = bool(j % 3 == 2)
    opt["split"] = bool(j % 4 == 1)
    opt["pad_fourier"] = bool(j % 5 not in (1, 4))
    opt["pad_edges"] = bool(j % 3 == 1)
    opt["peak_caller"] = CALLERS[(j + j // 5) % len(CALLERS)]
    opt["border"] = bool(fam in ("dense", "noncubic") and j % 4 >= 2 and not opt["centering"])
    opt["use_memmap"] = bool(j % 3 == 0 or j % 9 == 4)
    opt["jobs"] = 2 if opt["split"] else [1, 3, 2, 1, 5, 2][j % 6]
    opt["sampling"] = [1.0, 2.0, 0.5, 13.33][j % 4]
    opt["origin_target"] = [[0, 0, 0], [12, -7, 30], [-100, 4, 9]][j % 3]
    opt["origin_template"] = [[0, 0, 0], [-4, 8, 2], [25, 25, -6]][(j + 1) % 3]
    opt["output"] = ["cwd", "subdir", "abs"][j % 3]
    opt["angular"] = 180 if j % 7 == 3 else (200 if j % 7 == 6 else 60)
    opt["order"] = None if j % 6 == 5 else (3 if j % 6 == 2 else 1)
    if fam == "masked" or (fam == "intcom" and opt["score"] == "MCC"):
        # orders above 1 resample the mask without prefilter (a smoothing): a tight binary mask then reaches into the clutter, and
        # the doubly-masked score saturates for non-binary masks; both are outside what this family plants
        opt["order"] = 1
    if opt["score"] in NORMALISED and not opt["peak_calling"]:
        opt["score_threshold"] = [0, 0.25, 0][j % 3]
    if opt["score"] in NORMALISED:
        opt["target_scale"], opt["template_scale"] = [(1.0, 1.0), (1e-3, 50.0), (200.0, 1e-2), (1.0, 1e3)][(j // 2) % 4]
    if opt["score"] in MEANFREE and fam != "masked":
        opt["target_offset"] = [0.0, 2.0, -1.0][j % 3]
    opt["invert"] = bool(j % 5 == 2 and opt["score"] in MEANFREE)
    opt["target_mask"] = bool(j % 4 == 3 and opt["score"] != "MCC" and not opt["peak_calling"])
    opt["stale_output"] = bool(j % 4 == 2)
    opt["number_of_peaks"] = [10, None, 1, 3][j % 4]
    opt["min_distance"] = [3, 1, None, 2][(j // 2) % 4]
    if opt["peak_caller"] == "PeakCallerScipy" and opt["min_distance"] is None:
        opt["min_distance"] = 3       # (its default of 5 excludes a 5-voxel border: more than the interior placements keep)
    opt["boundary"] = [2, 1, 3][j % 3]
    k = 1 if rx is None else 2
    opt["pp"] = [PP_VARIANTS[(j + i * 4) % len(PP_VARIANTS)] for i in range(k)]
    if opt["peak_caller"] == "PeakCallerScipy":
        # skimage's peak_local_max takes its threshold exclusively (a contract of the external finder): no tie there
        opt["pp"] = ["below" if v == "tie" else v for v in opt["pp"]]
    return opt


def _finalise(case):
    """variants that need geometry: drop those whose precondition does not hold for this placement; write their files"""
    ref = case["ref"] if case["ref"] is not None else np.array(case["P0"]) + np.array(case["box"]) // 2
    keep = []
    for v in case["variants"]:
        if v == "boundary":
            # the largest distance that still admits the planted point (a tie with the bound) when the point is a voxel centre and
            # at most 6 voxels from a face; otherwise the configured distance, which must then leave the point well inside
            near = int(min(min(r, n - 1 - r) for r, n in zip(np.floor(ref), case["ns"])))
            if case["tol"] == 0 and 1 <= near <= 6:
                case["boundary"] = near
            else:
                case["boundary"] = int(case["opt"].get("boundary", 2))
                if not _ref_distance_ok(case, ref, case["boundary"] + int(np.ceil(case["tol"]))):
                    continue
        if v == "mask_edges" and (case["opt"]["centering"] or not _ref_distance_ok(case, ref, int(np.ceil(max(case["ms"]) / 2)))):
            continue
        if v in ("boundary", "mask_edges", "ppmask", "oversample", "one") and case["opt"]["peak_calling"]:
            continue        # these act on a score map (a peak list is passed through as it is)
        if v == "ppmask":
            pm = np.zeros(case["ns"])
            lo = [max(0, int(np.floor(r)) - 4) for r in ref]
            hi = [min(n, int(np.ceil(r)) + 5) for r, n in zip(ref, case["ns"])]
            pm[tuple(slice(a, b) for a, b in zip(lo, hi))] = 1.0
            case["ppmask"] = pm
            _write_mrc(os.path.join(case["dir"], "ppmask.mrc"), pm, case["sampling"], case["origin_t"])
        keep.append(v)
    case["variants"] = keep
    case["inp"]["pp"] = keep
    return case


def run(ctx):
    d = ctx.driver
    rng = ctx.rng("main")
    tmp = env.scratch()
    _pickle_cases(ctx, d, rng, tmp)
    nbase = ctx.budget(8, 40)
    nwide = ctx.budget(20, 88)
    cases = []
    for it in range(nbase):
        # it=0: no centring, even box, --pad_edges, score map;  it=1: -p, memory-limited split, 2 cores, odd box, no centring
        opt = _base_options(it)
        if it % 4 == 0:
            opt["pp"] = [PP_VARIANTS[(it // 4) % len(PP_VARIANTS)]]
        cases.append(_finalise(_build_case(it, opt, ctx.rng(f"cli{it}"), ctx.rng(f"clix{it}"), tmp)))
    for j in range(nwide):
        rx = ctx.rng(f"wide{j}")
        cases.append(_finalise(_build_case(1000 + j, _wide_options(j, rx if ctx.thorough else None), rx, rx, tmp)))
    # the subprocess parts run on a few workers; the clauses are evaluated here, in order
    from concurrent.futures import ThreadPoolExecutor
    workers = int(os.environ.get("PV_C18_WORKERS", "5"))
    with ThreadPoolExecutor(max_workers=workers) as pool:
        futs = [pool.submit(_execute, c) for c in cases]
        for c, f in zip(cases, futs):
            f.result()
            _evaluate(ctx, d, c)
            for k in ("target", "template", "target_mask", "rot_obj", "rot_img", "ppmask"):
                c.pop(k, None)
