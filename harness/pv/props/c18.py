"""C18 — command-line pipeline recovers a planted particle; results reload intact.

Runs the two scripts of /repo as subprocesses on generated MRC files (planted rotated template), compares the
orientation list with the planted reference position / rotation, the result pickle with an in-process search of the
same data, and the pickle container with the Lean model (Model/C18.lean).

Case families of the subprocess stream (`family` in the recorded input):
  dense     the template fills its (cubic, 5 or 6 voxel) box; interior / border-adjacent / overhanging placements
  noncubic  the template fills a box with three different extents (mixed parities); planted under one of the rotations
            that map the box onto itself
  intcom    automatic centring with a particle whose centre of mass is a voxel centre (point-symmetric dyadic values,
            non-cubic extents, off-centre in a possibly non-cubic file box): every resampling step of the centring path
            is an integral shift, so the reference point is exact
  masked    a template mask file (--template_mask) that is tight around an off-centre particle, the target is clutter
            everywhere except under the (rotated) mask: only a correctly aligned mask gives the planted copy score 1
Every family is crossed with the call-time dimensions of the two tools (see `_options`).

In-process streams (run before the subprocess streams; Model/C18Cli.lean): the scripts are imported from the repo under test and
their own functions are called on generated argument namespaces / result files - postprocess.main (window, score range, limit on
the number of peaks, rotation look-up, peak-list pass-through), postprocess.parse_args, load_match_template_output,
match_template.parse_rotation_logic / compute_schedule / load_and_validate_mask / parse_args with the wrapped library calls
replaced by recording stubs, match_template.main with the search and the schedule oracle stubbed."""
import hashlib
import os
import subprocess
import sys

import numpy as np

from .. import env
from .. import scoring as S

ID = "C18"
RULE = ("subprocess runs of scripts/match_template.py and scripts/postprocess.py: scores x {score map, peak calling} x "
        "{unsplit, memory-limited splitting} x {pad_fourier, pad_edges} x {centring on/off} x peak callers in post-processing x "
        "{dense, non-cubic, integral-centre-of-mass, mask-file} templates x {sampling rate, origins, intensity scale / offset, "
        "inverted contrast, target mask, -a 60 / 180, interpolation order, score threshold, job counts 1..7, memory maps, "
        "output location} x post-processing options {number of peaks, min distance, minimum / maximum score incl. ties, "
        "boundary distance, mask, re-read orientations, oversampling}; planted positions interior and next to the border, "
        "planted rotation from the 24-member set; pickle container on generated result tuples with ndarray / tuple / memmap "
        "members (dtypes, read-only maps, output directories, rewritten paths); in-process calls of the scripts' own functions: "
        "postprocess.main on generated score-map / peak-list results x {boundary distance 0..4, --mask_edges, limits 1..size+5, minimum / "
        "maximum scores incl. ties, --target_mask, all-negative maps, five peak callers} vs the Lean window / range / limit model, "
        "postprocess.parse_args, background subtraction on dyadic maps, parse_rotation_logic, compute_schedule, load_and_validate_mask "
        "(shapes up to 10^6, sampling-rate rounding ties, broadcasting), match_template.parse_args, match_template.main with the search "
        "stubbed (flags -> scan_subsets arguments, analyzer, target mask, written layout). distinct = distinct option tuples")
ASSUMPTIONS = ["in-process postprocess stream: the exact model is that of PeakCallerSort with --min_distance 0 on score maps with distinct non-zero "
               "integer values; a limit on the number of peaks is never placed inside a block of equal (zeroed) values (numpy's partition does "
               "not specify which of them it keeps); the other peak callers are checked for inclusion in the surviving set only; boundary distances "
               "are non-negative (a negative one is rejected by the peak caller's constructor)",
               "PeakCallerScipy and the unnormalised scores CC / LCC are exercised with interior placements only (C05's border "
               "exception for the external local-maximum finder; CC / LCC are not bounded by the planted value at mirrored borders)",
               "with automatic centring the template is resampled about its centre of mass (interpolation): the best "
               "orientation must be within 1 voxel (per axis) of the planted centre of mass; when the centre of mass is a "
               "voxel centre (family intcom / masked) every shift is integral and the best orientation must be that voxel exactly; "
               "without centring it must be the planted box centre (shape//2) exactly",
               "a rotation is 'the planted rotation' if it maps the template onto the planted copy",
               "memory maps handed to the container are whole-file, C-ordered, offset 0 (what array_to_memmap and the analyzers "
               "create); Fortran-ordered maps, maps with a byte offset and sliced views of a map are outside the result tuples the "
               "property speaks about (the container does not preserve them)",
               "intensity scales / offsets are applied to the normalised, mean-free scores only (FLC, FLCSphericalMask, MCC; "
               "scale also CORR, CAM); a template mask file is used with the scores that rotate their mask (FLC, MCC)",
               "a --minimum_score equal to the best score keeps the best orientation for every peak caller but PeakCallerScipy (the external "
               "finder's threshold is exclusive)",
               "--peak_oversampling f refines inside a window of ceil(1.5 f) / f voxels centred on the integer peak: the refined best "
               "position must stay within 0.75 voxel of the reference point"]
TRUSTED = ["C18: CPython pickle, numpy.memmap, mrcfile; the composition rests on the C01-C05/C11 theorems plus "
           "Pm.C18.planted_window_at_reference / pipeline_best_is_planted",
           "C18 in-process streams: argparse; the stubs standing in for scan_subsets / compute_parallelization_schedule / Density.from_file / the "
           "rotation samplers record their arguments and return canned values (the library functions themselves are covered by C02 / C05 / C10 / C15); "
           "euler_from_rotationmatrix is used to predict the reported angles"]

SCORES = ["FLC", "FLCSphericalMask", "CORR", "CAM", "MCC", "CC", "LCC"]
CALLERS = ["PeakCallerMaximumFilter", "PeakCallerSort", "PeakCallerFast", "PeakCallerRecursiveMasking", "PeakCallerScipy"]
NORMALISED = ("FLC", "FLCSphericalMask", "CORR", "CAM", "MCC")
MEANFREE = ("FLC", "FLCSphericalMask", "MCC")
TSV_HEADER = ["z", "y", "x", "euler_z", "euler_y", "euler_x", "score", "detail"]


def _digest(a):
    return hashlib.sha1(np.ascontiguousarray(a).tobytes()).hexdigest()[:12]


# ------------------------------------------------------------------------------------------------------------------
# the result container (write_pickle / load_pickle) against the Lean model
# ------------------------------------------------------------------------------------------------------------------
MM_DTYPES = [np.float32, np.float32, np.float64, np.int32, np.int64, np.float16, np.uint8]
ND_DTYPES = [np.float32, np.float32, np.float64, np.int64, np.int32, np.float16, np.bool_]


def _first_repr(x):
    return x if isinstance(x, str) else "<" + type(x).__name__ + ">" + repr(x)


def _pickle_cases(ctx, d, rng, tmp):
    from tme.matching_utils import write_pickle, load_pickle, array_to_memmap
    n = ctx.budget(40, 300)
    outdirs = [tmp, os.path.join(tmp, "res_a"), os.path.join(tmp, "res a", "deep")]
    for p in outdirs:
        os.makedirs(p, exist_ok=True)
    desc_eff, prev_desc = [], []
    prev_out = None
    for it in range(n):
        k = int(rng.integers(1, 6))
        items, desc, keep = [], [], []
        for j in range(k):
            r = rng.random()
            if r < 0.35:
                dt = ND_DTYPES[int(rng.integers(0, len(ND_DTYPES)))]
                shape = tuple(int(x) for x in rng.integers(1, 5, size=int(rng.integers(1, 4))))
                a = (rng.normal(size=shape) * 20).astype(dt)
                lay = int(rng.integers(0, 4))
                if lay == 1:
                    a = np.asfortranarray(a)
                elif lay == 2:
                    a = a[::-1]
                elif lay == 3 and a.ndim > 1:
                    a = a.T
                items.append(a)
                desc.append({"kind": "obj", "payload": "nd:" + _digest(a) + ":" + np.dtype(dt).name})
                keep.append(np.array(a))
            elif r < 0.55:
                # ordinary tuples: the first element is inspected by load_pickle; names that differ from the marker only by
                # case / length / trailing blanks, and first elements that are not strings at all (never a tuple that itself starts
                # with the marker: handed over bare, its elements become records - the quirk the theorem's hypothesis excludes)
                first = [("meta",), ("np.memmapX",), ("origin",), ("x",), ("np.memma",), ("NP.MEMMAP",), ("np.memmap ",), ("",),
                         (7,), (2.5,), (None,), (["np.memmap"],)][int(rng.integers(0, 12))][0]
                t = (first, int(rng.integers(0, 100)))
                if rng.random() < 0.3:
                    t = t + (np.arange(3, dtype=np.float32), "np.memmap")
                items.append(t)
                desc.append({"kind": "tup", "first": _first_repr(first), "rest": repr(t[1:])})
                keep.append(t)
            elif r < 0.7:
                obj = [{"a": int(rng.integers(0, 9))}, [int(rng.integers(0, 9)), "np.memmap"], None, 3.5, "np.memmap"][int(rng.integers(0, 5))]
                items.append(obj)
                desc.append({"kind": "obj", "payload": "py:" + repr(obj)})
                keep.append(obj)
            else:
                dt = MM_DTYPES[int(rng.integers(0, len(MM_DTYPES)))]
                shape = tuple(int(x) for x in rng.integers(1, 5, size=int(rng.integers(1, 4))))
                fn = os.path.join(tmp, f"mm_{it}_{j}.dat")
                content = (rng.normal(size=shape) * 20).astype(dt)
                how = int(rng.integers(0, 3))
                if how == 0:
                    mm = np.memmap(fn, mode="w+", shape=shape, dtype=dt)
                    mm[:] = content
                    mm.flush()
                else:
                    # the library's own way (analyzers with use_memmap): array_to_memmap, reopened read-only or read-write
                    array_to_memmap(content, fn)
                    mm = np.memmap(fn, mode="r" if how == 1 else "r+", shape=shape, dtype=dt)
                items.append(mm)
                desc.append({"kind": "memmap", "shape": list(shape), "dtype": np.dtype(dt).name, "file": fn, "content": it * 10 + j})
                keep.append(content)
        # output location: the scratch directory itself, a sub-directory, a nested one with a blank in its name; now and then the
        # path written last time is written again (with other content): only the new records may come back
        if prev_out is not None and rng.random() < 0.25:
            out, rewritten = prev_out, True
        else:
            out, rewritten = os.path.join(outdirs[int(rng.integers(0, len(outdirs)))], f"res_{it}.pickle"), False
        prev_out = out
        data = items if rng.random() < 0.7 or k > 1 else items[0]
        if isinstance(data, list) and rng.random() < 0.3:
            data = tuple(data)          # write_pickle takes lists and tuples alike
        if isinstance(data, tuple) and len(data) == 0:
            data = items
        try:
            write_pickle(data, out)
            back = load_pickle(out)
        except Exception as e:
            ctx.spec("result container reloads", {"items": desc, "rewritten": rewritten}, False, repr(e), key="pickle:raised")
            continue
        if type(data) in (list, tuple):
            # (a bare tuple item is a sequence to write_pickle: its elements become the records)
            seq = list(data)
            if data is not items and not (isinstance(data, tuple) and len(data) == len(items) and all(x is y for x, y in zip(data, items))):
                desc_eff = [{"kind": "obj", "payload": "py:" + repr(x)} if not isinstance(x, tuple) else
                            {"kind": "tup", "first": _first_repr(x[0]), "rest": repr(x[1:])} for x in seq]
                keep_eff = list(seq)
            else:
                desc_eff, keep_eff = desc, keep
        else:
            seq, desc_eff, keep_eff = [data], desc, keep
        back_seq = back if isinstance(back, list) and len(seq) != 1 else [back]
        if rewritten:
            m = d.call("c18.rewrite", before=prev_desc, items=desc_eff)      # Disk model: the path holds only the new records
        else:
            m = d.call("c18.pickle", items=desc_eff)
        prev_desc = desc_eff
        impl_kinds = []
        for b in back_seq:
            if isinstance(b, np.memmap):
                impl_kinds.append("memmap")
            elif isinstance(b, tuple):
                impl_kinds.append("tup")
            else:
                impl_kinds.append("obj")
        inp = {"items": desc_eff, "rewritten": rewritten, "outdir": os.path.relpath(os.path.dirname(out), tmp)}
        ctx.agree("load_pickle(write_pickle(items)): kinds of the reloaded records", inp,
                  impl_kinds, [x["kind"] for x in m["loaded"]])
        ok = len(back_seq) == len(seq)
        why = None if ok else f"{len(back_seq)} records for {len(seq)} items"
        if ok:
            for b, orig, dsc in zip(back_seq, keep_eff, desc_eff):
                if dsc["kind"] == "memmap":
                    good = isinstance(b, np.memmap) and b.shape == orig.shape and b.dtype == orig.dtype and np.array_equal(np.array(b), orig) \
                        and os.path.dirname(os.path.abspath(b.filename)) == os.path.dirname(os.path.abspath(out)) and not os.path.exists(dsc["file"])
                elif isinstance(orig, np.ndarray):
                    good = isinstance(b, np.ndarray) and b.dtype == orig.dtype and b.shape == orig.shape and np.array_equal(b, orig)
                elif isinstance(orig, tuple):
                    good = isinstance(b, tuple) and len(b) == len(orig) and all(
                        (np.array_equal(x, y) if isinstance(y, np.ndarray) else (type(x) is type(y) and x == y)) for x, y in zip(b, orig))
                else:
                    good = type(b) is type(orig) and b == orig
                if not good and why is None:
                    why = {"item": dsc, "reloaded": repr(b)[:200]}
                ok &= bool(good)
        ctx.spec("result container reloads to the same arrays / tuples / metadata, memory maps relocated", inp, bool(ok), why,
                 key="pickle:roundtrip" + (":rewritten-path" if rewritten and not ok else ""))
        ctx.distinct(("pickle", tuple(x["kind"] for x in desc_eff), rewritten))
        ctx.count("pickle:" + ("with-memmap" if any(x["kind"] == "memmap" for x in desc_eff) else "plain"))
        if rewritten:
            ctx.count("pickle:rewritten-path")
    ctx.sample({"pickle_items": desc_eff})


# ------------------------------------------------------------------------------------------------------------------
# the decision logic of the two scripts, called in-process (their own functions, imported from the repo under test)
# against the executable Lean model (Model/C18Cli.lean)
# ------------------------------------------------------------------------------------------------------------------
_SCRIPTS = {}


def _script(name):
    """scripts/<name>.py of the repo under test as a module (its `main` is not run on import)"""
    if name not in _SCRIPTS:
        import importlib.util
        path = os.path.join(env.REPO, "scripts", name + ".py")
        spec = importlib.util.spec_from_file_location("pv_c18_script_" + name, path)
        mod = importlib.util.module_from_spec(spec)
        spec.loader.exec_module(mod)
        _SCRIPTS[name] = mod
    return _SCRIPTS[name]


def _in_process(fn, argv):
    """run `fn` with sys.argv = argv, output swallowed, environment restored; returns (kind, value)"""
    import contextlib
    import io
    old_argv, old_env = sys.argv, dict(os.environ)
    sys.argv = list(argv)
    try:
        with contextlib.redirect_stdout(io.StringIO()), contextlib.redirect_stderr(io.StringIO()):
            return "ok", fn()
    except SystemExit as e:
        return "exit", e.code
    except Exception as e:  # noqa
        return "raised", f"{type(e).__name__}: {e}"
    finally:
        sys.argv = old_argv
        os.environ.clear()
        os.environ.update(old_env)


_EULER = {}


def _tsv_rows(path, ndim):
    """orientation file -> [[pos], score] sorted by descending score, then position"""
    if not os.path.exists(path):
        return None
    header, tab, n = _read_tsv(path)
    axes = ["z", "y", "x"][:ndim]
    rows = []
    for i in range(n):
        pos = [float(tab[a][i]) for a in axes]
        sc = float(tab["score"][i])
        rows.append([[int(round(x)) for x in pos], int(round(sc)), all(x == round(x) for x in pos) and sc == round(sc)])
        _EULER[(path, tuple(rows[-1][0]))] = [float(tab[a][i]) for a in ("euler_z", "euler_y", "euler_x")]
    return rows


def _canon(rows):
    return sorted(([list(p), int(sc)] for p, sc in rows), key=lambda r: (-r[1], r[0]))


def _postprocess_cases(ctx, d, rng, tmp):
    """postprocess.main on generated result files (score maps and peak lists), PeakCallerSort with --min_distance 0: the reported
    orientations are exactly what the window / score-range / limit decisions leave"""
    import argparse
    from tme import Density
    from tme.matching_utils import write_pickle
    pp = _script("postprocess")
    n = ctx.budget(120, 800)
    wd = os.path.join(tmp, "ppcli")
    os.makedirs(wd, exist_ok=True)
    templates = {}

    def template_for(tshape):
        key = tuple(tshape)
        if key not in templates:
            fn = os.path.join(wd, "tpl_" + "_".join(map(str, key)) + ".mrc")
            Density(np.ones(key, dtype=np.float32), sampling_rate=1.0, origin=(0,) * len(key)).to_file(fn)
            templates[key] = fn
        return templates[key]

    reqs, cases = [], []
    for it in range(n):
        D = 3 if rng.random() < 0.7 else 2
        shape = [int(x) for x in rng.integers(3, 8 if D == 3 else 12, size=D)]
        size = int(np.prod(shape))
        tshape = [int(x) for x in rng.integers(2, 7, size=D)]
        cli = argparse.Namespace(template=template_for(tshape), target="target.mrc", no_centering=True, template_mask=None, target_mask=None)
        lay = d.call("c18.layout", peak_calling=bool(rng.random() < 0.2), ndim=D)
        meta = (np.zeros(D), np.zeros(D), np.ones(D), cli)
        # score range: absent, inside the distribution (ties with an actual score included), outside
        def bound(vals):
            r = rng.random()
            if r < 0.45:
                return None
            if r < 0.8:
                return int(vals[int(rng.integers(0, len(vals)))])
            return int(rng.integers(-size, size + 1))
        prefix = os.path.join(wd, f"o{it}")
        # the exact model is that of PeakCallerSort with --min_distance 0 (every voxel is a candidate); the other callers choose their
        # own candidates (C05) but share the window / range filters: for them only the inclusion in the surviving set is checked
        caller = "PeakCallerSort"
        if lay["score_map"] and rng.random() < 0.25:
            caller = CALLERS[int(rng.integers(0, len(CALLERS)))]
        argv = ["postprocess.py", "--output_prefix", prefix, "--peak_caller", caller, "--min_distance", "0" if caller == "PeakCallerSort" else str(int(rng.integers(1, 3)))]
        if lay["score_map"]:
            # distinct non-zero integer scores; now and then all negative (a zeroed border then outranks every inside voxel)
            mode = ["mixed", "mixed", "positive", "negative"][int(rng.integers(0, 4))]
            vals = rng.permutation(size) + 1
            if mode == "mixed":
                vals = np.where(vals > size // 3, vals - size // 3, vals - size // 3 - 1)
            elif mode == "negative":
                vals = -vals
            scores = vals.reshape(shape).astype(np.float32)
            # rotation look-up: the rotations member indexes the rotation table; in 3-D one index has no entry (reported as zero angles)
            if D == 3:
                rot_idx = rng.integers(0, 6, size=shape).astype(np.float32)
                table = {float(i): np.asarray(S.grid_rotations(3)[int(j)][2], dtype=np.float32) for i, j in enumerate(rng.permutation(24)[:5])}
            else:
                rot_idx = np.zeros(shape, dtype=np.float32)
                table = {0.0: np.eye(D, dtype=np.float32)}
            members = {"scores": scores, "offset": np.zeros(D, dtype=int), "rotations": rot_idx,
                       "rotation_mapping": table, "meta": meta}
            dd = [0, 0, 1, 1, 2, 3, 4][int(rng.integers(0, 7))]
            mask_edges = bool(rng.random() < 0.3)
            # two regimes: a finite limit on the number of peaks (no --minimum_score, which lifts it), or a minimum score
            if rng.random() < 0.55:
                lo, hi = None, bound(vals)
                nop = [None, 1, 2, 3, 5, 10, size // 2, size, size + 5][int(rng.integers(0, 9))]
            else:
                lo, hi = bound(vals), bound(vals)
                nop = [None, 3][int(rng.integers(0, 2))]
            mask = None
            if rng.random() < 0.25:
                mask = (rng.random(shape) < 0.7).astype(np.float32)
                mfn = os.path.join(wd, f"m{it}.mrc")
                Density(mask, sampling_rate=1.0, origin=(0,) * D).to_file(mfn)
                argv += ["--target_mask", mfn]
            # the limit must not cut through a block of equal (zeroed) values: which of them numpy's partition keeps is not specified
            eff = d.call("c18.postprocess", shape=shape, scores=[int(x) for x in vals], mask=None, lo=lo, hi=hi, mask_edges=mask_edges,
                         d=dd, tshape=tshape, has_nfp=False, number_of_peaks=nop)
            masked = scores * (mask if mask is not None else 1.0)
            if eff["d"] > 0:
                win = np.zeros(shape, dtype=bool)
                win[tuple(slice(eff["d"], max(eff["d"], s - eff["d"])) for s in shape)] = True
                masked = np.where(win, masked, 0.0)
            flat = np.sort(masked.reshape(-1))[::-1]
            k = eff["k"]
            if k < size and flat[k - 1] == flat[k]:
                nop = int((flat >= flat[k - 1]).sum())
                ctx.count("postprocess-cli:limit moved off a tie")
            if dd:
                argv += ["--min_boundary_distance", str(dd)]
            if mask_edges:
                argv += ["--mask_edges"]
            if nop is not None:
                argv += ["--number_of_peaks", str(nop)]
            req = ("c18.postprocess", dict(shape=shape, scores=[int(x) for x in vals],
                                           mask=None if mask is None else [int(x) for x in mask.reshape(-1)], lo=lo, hi=hi,
                                           mask_edges=mask_edges, d=dd, tshape=tshape, has_nfp=False, number_of_peaks=nop))
            inp = {"kind": "score map", "shape": shape, "template": tshape, "scores": mode, "d": dd, "mask_edges": mask_edges, "lo": lo, "hi": hi,
                   "number_of_peaks": nop, "target_mask": mask is not None, "argv": argv[3:]}
            ctx.count(f"postprocess-cli:score map:{mode}")
            ctx.count("postprocess-cli:boundary " + ("mask_edges" if mask_edges and not dd else "0" if not dd else "d>0"))
        else:
            m = int(rng.integers(1, 9))
            tr = np.stack([rng.integers(0, s, size=m) for s in shape], axis=1)
            vals = rng.integers(-20, 21, size=m)
            members = {"translations": tr, "peak_rotations": np.stack([np.eye(D)] * m).astype(np.float32),
                       "peak_scores": vals.astype(np.float32), "details": np.zeros(m), "meta": meta}
            lo, hi = bound(vals), bound(vals)
            dd = int(rng.integers(0, 3))     # ignored for a peak list
            if dd:
                argv += ["--min_boundary_distance", str(dd)]
            req = ("c18.ppPeaks", dict(cands=[[[int(x) for x in t], int(v)] for t, v in zip(tr, vals)], lo=lo, hi=hi))
            inp = {"kind": "peak list", "shape": shape, "n": m, "lo": lo, "hi": hi, "d": dd, "argv": argv[3:]}
            ctx.count("postprocess-cli:peak list")
        if lo is not None:
            argv += ["--minimum_score", str(lo)]
        if hi is not None:
            argv += ["--maximum_score", str(hi)]
        ctx.count("postprocess-cli:range " + ("none" if lo is None and hi is None else "min" if hi is None else "max" if lo is None else "both"))
        # the tuple is assembled from the shared layout definition: position i holds the member the writer puts there
        out = os.path.join(wd, f"r{it}.pickle")
        write_pickle([members[name] for name in lay["writer"]], out)
        argv += ["--input_file", out]
        kind, val = _in_process(pp.main, argv)
        rows = _tsv_rows(prefix + ".tsv", D)
        reqs.append(req)
        if lay["score_map"] and rows is not None and caller == "PeakCallerSort":
            from tme.matching_utils import euler_from_rotationmatrix
            bad = []
            for pos, _, _ in rows:
                m = table.get(float(rot_idx[tuple(pos)]))
                want = np.zeros(3) if m is None else np.asarray(euler_from_rotationmatrix(m), dtype=float)
                got = np.asarray(_EULER.get((prefix + ".tsv", tuple(pos)), [np.nan] * 3))
                if not np.allclose(got, want, atol=1e-4):
                    bad.append({"pos": pos, "index": float(rot_idx[tuple(pos)]), "got": got.tolist(), "want": want.tolist()})
            ctx.spec("the rotation reported for a voxel is the rotation-table entry of the rotations member at that voxel (zero angles without an entry)",
                     inp, not bad, bad[:3], key="postprocess-cli:rotation-lookup")
        _EULER.clear()
        inp["peak_caller"] = caller
        ctx.count("postprocess-cli:caller " + caller)
        cases.append((inp, lay, kind, val, rows, D))
    answers = d.batch(reqs)
    for (inp, lay, kind, val, rows, D), ans in zip(cases, answers):
        if inp["peak_caller"] != "PeakCallerSort":
            if kind == "raised":
                ctx.count("postprocess-cli:other caller raised (C05's domain)")
                continue
            impl = [] if rows is None else [[p, sc] for p, sc, _ in rows]
            ctx.spec("every reported orientation lies within the boundary window and score range (any peak caller)", inp,
                     all([p, sc] in ans["survivors"] for p, sc in impl), {"reported": impl[:5]}, key="postprocess-cli:outside-window-or-range")
            ctx.distinct(("ppcli-other", inp["peak_caller"], inp["d"], inp["lo"] is None, inp["hi"] is None))
            continue
        if kind == "raised":
            ctx.spec("postprocess.main handles a well-formed result file", inp, False, val, key="postprocess-cli:raised")
            continue
        model = ans["reported"] if lay["score_map"] else ans
        impl = [] if rows is None else [[p, sc] for p, sc, _ in rows]
        # "Found no peaks": exit(-1) and no file; otherwise exit(0) after the orientation file is written (integral positions and scores)
        ctx.agree("postprocess.main (in-process): reported orientations vs the window / range / limit model", inp,
                  {"rows": _canon(impl), "exit": [kind, val], "file": rows is not None, "integral": all(e for _, _, e in rows or [])},
                  {"rows": _canon(model), "exit": ["exit", 0 if (model or not lay["score_map"]) else -1],
                   "file": bool(model) or not lay["score_map"], "integral": True})
        if lay["score_map"]:
            sv = ans["survivors"]
            best_ok = (not impl) or (not sv) or max(sc for _, sc in impl) <= max(sc for _, sc in sv)
            sub_ok = all([p, sc] in sv for p, sc in impl)
            ctx.spec("every reported orientation lies within the boundary window and score range; none beats the best survivor", inp,
                     bool(best_ok and sub_ok), {"reported": impl[:5]}, key="postprocess-cli:outside-window-or-range")
            if ans["k"] >= int(np.prod(inp["shape"])):
                ctx.spec("without an effective limit every voxel in window and range is reported", inp, _canon(impl) == _canon(sv),
                         {"reported": len(impl), "survivors": len(sv)}, key="postprocess-cli:survivor-missing")
            if sv and not model:
                ctx.count("postprocess-cli:limit consumed before the window (nothing reported, something survives)")
        ctx.distinct(("ppcli", inp["kind"], inp.get("scores"), inp["d"], inp.get("mask_edges"), inp["lo"] is None, inp["hi"] is None,
                      inp.get("number_of_peaks"), inp.get("target_mask")))
    ctx.sample({"postprocess_cli": cases[0][0]})


def _postprocess_args_cases(ctx, d, rng, tmp):
    """postprocess.parse_args: number of peaks, background files, RELION box"""
    pp = _script("postprocess")
    n = ctx.budget(60, 400)
    reqs, cases = [], []
    for it in range(n):
        nin = int(rng.integers(1, 4))
        argv = ["postprocess.py", "--output_prefix", "o", "--input_file"] + [f"in{i}.pickle" for i in range(nin)]
        r = rng.random()
        nbg = None if r < 0.3 else 1 if r < 0.5 else nin if r < 0.75 else int(rng.integers(1, 5))
        bg = None if nbg is None else [f"bg{i}.pickle" for i in range(nbg)]
        if bg is not None:
            argv += ["--background_file"] + bg
        has_min = bool(rng.random() < 0.35)
        has_nfp = bool(rng.random() < 0.2)
        nop = None if rng.random() < 0.4 else int(rng.integers(1, 5000))
        if has_min:
            argv += ["--minimum_score", str(float(rng.integers(-3, 4)) / 4)]
        if has_nfp:
            argv += ["--n_false_positives", str(int(rng.integers(1, 50)))]
        if nop is not None:
            argv += ["--number_of_peaks", str(nop)]
        box = int(rng.integers(1, 200))
        relion = bool(rng.random() < 0.5)
        argv += ["--subtomogram_box_size", str(box)]
        if relion:
            argv += ["--output_format", "relion"]
        kind, val = _in_process(pp.parse_args, argv)
        if kind == "ok":
            impl = {"number_of_peaks": int(val.number_of_peaks), "background": list(val.background_file),
                    "box": int(val.subtomogram_box_size)}
        else:
            impl = {"error": val.split(":")[0] if isinstance(val, str) else val}
        reqs.append(("c18.ppArgs", dict(has_min=has_min, has_nfp=has_nfp, number_of_peaks=nop, background=bg, n_inputs=nin, box=box)))
        cases.append(({"argv": argv[1:]}, impl, relion, box))
        ctx.count("postprocess-args:background " + ("absent" if bg is None else "once" if nbg == 1 else "per input" if nbg == nin else "mismatch"))
        ctx.count("postprocess-args:limit " + ("lifted" if has_min or has_nfp else "default" if nop is None else "given"))
    for (inp, impl, relion, box), ans in zip(cases, d.batch(reqs)):
        if isinstance(ans["background"], str):
            model = {"error": ans["background"]}
        else:
            model = {"number_of_peaks": ans["number_of_peaks"], "background": ans["background"], "box": ans["relion_box"] if relion else box}
        ctx.agree("postprocess.parse_args (in-process): number of peaks, background files, box size vs the model", inp, impl, model)
        ctx.distinct(("ppargs", tuple(sorted(model.keys())), relion))


class _BeProxy:
    """stands in for `tme.backends.backend` inside match_template: a canned list of importable backends, backend changes recorded
    (not carried out), everything else answered by the real object"""

    def __init__(self, real, available, calls):
        self._real, self._available, self._calls = real, list(available), calls

    def available_backends(self):
        return list(self._available)

    def change_backend(self, backend_name=None, **kw):
        self._calls.append((backend_name, kw.get("device"), "default_dtype" in kw))

    def __getattr__(self, name):
        return getattr(self._real, name)


class _FakeMask:
    def __init__(self, shape, rate):
        self.shape = tuple(int(x) for x in shape)
        self.sampling_rate = np.array(rate, dtype=float)
        self.origin = np.zeros(len(self.shape))


def _match_template_cases(ctx, d, rng, tmp):
    """match_template.py: parse_rotation_logic, compute_schedule, load_and_validate_mask, parse_args - the script's own functions
    with the library calls they wrap replaced by recording stubs"""
    import argparse
    import types
    mt = _script("match_template")
    n = ctx.budget(60, 400)

    # ---- parse_rotation_logic
    def milli(lo, hi):
        return int(rng.integers(lo, hi))
    reqs, cases = [], []
    for it in range(n):
        r = rng.random()
        if r < 0.6:
            ang = [milli(1000, 179999), 179999, 180000, 180001, milli(180000, 400000), 60000, 200000, 179500][int(rng.integers(0, 8))]
        else:
            ang = None
        opt = lambda: None if rng.random() < 0.4 else milli(500, 90000)   # noqa: E731
        args = dict(angular=ang, no_optimized=bool(rng.random() < 0.4), cone_angle=None if ang is not None else milli(1000, 90000),
                    cone_sampling=opt(), axis_angle=[360000, milli(1000, 360000)][int(rng.integers(0, 2))], axis_sampling=opt(),
                    axis_symmetry=int(rng.integers(1, 7)) * 1000)
        f = lambda v: None if v is None else v / 1000.0   # noqa: E731
        ns = argparse.Namespace(angular_sampling=f(ang), no_use_optimized_set=args["no_optimized"], cone_angle=f(args["cone_angle"]),
                                cone_sampling=f(args["cone_sampling"]), axis_angle=f(args["axis_angle"]), axis_sampling=f(args["axis_sampling"]),
                                axis_symmetry=f(args["axis_symmetry"]))
        ndim = int(rng.integers(2, 4))
        seen = []
        sentinel = np.full((7, ndim, ndim), 3.0)

        def grid(angular_sampling, dim, use_optimized_set):
            seen.append({"branch": "grid", "angular": int(round(angular_sampling * 1000)), "optimized": bool(use_optimized_set), "dim": dim})
            return sentinel

        def cone(cone_angle, cone_sampling, axis_angle, axis_sampling, n_symmetry):
            m = lambda v: None if v is None else int(round(v * 1000))   # noqa: E731
            seen.append({"branch": "cone", "cone_angle": m(cone_angle), "cone_sampling": m(cone_sampling), "axis_angle": m(axis_angle),
                         "axis_sampling": m(axis_sampling), "n_symmetry": m(n_symmetry)})
            return sentinel
        old = mt.get_rotation_matrices, mt.get_rotations_around_vector
        mt.get_rotation_matrices, mt.get_rotations_around_vector = grid, cone
        try:
            rot = mt.parse_rotation_logic(ns, ndim)
            err = None
        except Exception as e:  # noqa
            rot, err = None, f"{type(e).__name__}: {e}"
        finally:
            mt.get_rotation_matrices, mt.get_rotations_around_vector = old
        if err is not None or len(seen) != 1:
            impl = {"error": err, "calls": len(seen)}
        else:
            call = dict(seen[0])
            if call["branch"] == "grid":
                ok_dim = call.pop("dim") == ndim
                if rot is not sentinel:
                    call["branch"] = "identity" if (np.shape(rot) == (1, ndim, ndim) and np.array_equal(rot[0], np.eye(ndim))) else "other"
                if not ok_dim:
                    call["branch"] += ":wrong-dim"
            elif rot is not sentinel:
                call["branch"] = "other"
            impl = {"plan": call, "axis_sampling_after": None if ns.axis_sampling is None else int(round(ns.axis_sampling * 1000))}
        reqs.append(("c18.rotPlan", args))
        cases.append((args, impl))
    for (args, impl), ans in zip(cases, d.batch(reqs)):
        ctx.agree("match_template.parse_rotation_logic (in-process): branch and arguments handed to the library vs the model", args, impl, ans)
        ctx.count("rotation-logic:" + ans["plan"]["branch"])
        ctx.distinct(("rot", ans["plan"]["branch"], args["no_optimized"], args["axis_sampling"] is None, args["cone_sampling"] is None))

    # ---- compute_schedule
    reqs, cases = [], []
    for it in range(n):
        D = int(rng.integers(2, 4))
        tmpl = [int(x) for x in rng.integers(2, 9, size=D)]
        tshape = tuple(int(x) for x in rng.integers(10, 40, size=D))
        pe, pf = bool(rng.random() < 0.35), bool(rng.random() < 0.5)

        def answer():
            r = rng.random()
            if r < 0.15:
                return None
            if r < 0.5:
                sp = [1] * D
            else:
                sp = [int(x) for x in rng.integers(1, 4, size=D)]
            return {"splits": sp, "schedule": [int(rng.integers(1, 5)), int(rng.integers(1, 5))]}
        table = [{"padding": [0] * D, "answer": answer()}, {"padding": tmpl, "answer": answer()}]
        calls = []

        def stub(shape1, shape2, shape1_padding, **kw):
            calls.append({"box": [int(x) for x in shape2], "padding": [int(x) for x in shape1_padding], "shape1": tuple(shape1),
                          "kw": sorted(kw)})
            for e in table:
                if e["padding"] == [int(x) for x in shape1_padding]:
                    a = e["answer"]
                    if a is None:
                        return None, None
                    return {i: s for i, s in enumerate(a["splits"])}, tuple(a["schedule"])
            return None, None
        ns = argparse.Namespace(pad_edges=pe, pad_fourier=pf, cores=4, memory=10 ** 9, use_gpu=False, score="FLC")
        md = types.SimpleNamespace(_output_template_shape=tuple(tmpl))
        old = mt.compute_parallelization_schedule
        mt.compute_parallelization_schedule = stub
        kind, val = "ok", None
        try:
            kind, val = _in_process(lambda: mt.compute_schedule(ns, types.SimpleNamespace(shape=tshape), md, _FakeMask), ["x"])
        finally:
            mt.compute_parallelization_schedule = old
        if kind == "ok":
            splits, sched = val
            result = {"splits": [int(splits[i]) for i in range(D)], "schedule": [int(x) for x in sched]}
        elif kind == "exit" and val == -1:
            result = None
        else:
            result = {"error": str(val)}
        impl = {"calls": [{"box": c["box"], "padding": c["padding"]} for c in calls], "result": result, "pad_edges_after": bool(ns.pad_edges)}
        side_ok = all(c["shape1"] == tshape and "max_cores" in c["kw"] and "max_ram" in c["kw"] and "matching_method" in c["kw"]
                      and "analyzer_method" in c["kw"] for c in calls)
        inp = {"tmpl": tmpl, "pad_edges": pe, "pad_fourier": pf, "answers": table}
        reqs.append(("c18.schedule", dict(answers=table, tmpl=tmpl, pad_edges=pe, pad_fourier=pf, pad_filter=False, no_centering=False)))
        cases.append((inp, impl, side_ok))
    for (inp, impl, side_ok), ans in zip(cases, d.batch(reqs)):
        model = {"calls": ans["calls"], "result": ans["result"], "pad_edges_after": ans["pad_edges_after"]}
        ctx.agree("match_template.compute_schedule (in-process, library call stubbed): calls, result, args.pad_edges vs the model", inp, impl, model)
        ctx.spec("compute_schedule hands the target shape, cores, memory, score and analyzer to the library on every call", inp, bool(side_ok),
                 key="schedule-cli:arguments")
        r = ans["result"]
        if r is not None and int(np.prod(r["splits"])) > 1:
            ctx.spec("a split target is searched with padded edges (args.pad_edges on, schedule computed for the padded target)", inp,
                     impl["pad_edges_after"] is True and impl["calls"][-1]["padding"] == inp["tmpl"], impl, key="schedule-cli:split-without-padding")
        ctx.count(f"schedule-cli:{len(ans['calls'])} call(s), " + ("exit" if r is None else "split" if int(np.prod(r['splits'])) > 1 else "unsplit"))
        ctx.distinct(("sched", inp["pad_edges"], inp["pad_fourier"], len(ans["calls"]), r is None))

    # ---- load_and_validate_mask
    reqs, cases = [], []
    for it in range(n):
        D = int(rng.integers(1, 4))
        # now and then extents around a power of ten: numpy.allclose is a relative test (exact below 100000, off by one passes above)
        big = rng.random() < 0.2
        scale = [10 ** 4, 10 ** 5, 10 ** 5, 10 ** 6][int(rng.integers(0, 4))]
        tshape = [int(x) for x in (rng.integers(scale - 10, scale + 12, size=D) if big else rng.integers(2, 300, size=D))]
        r = rng.random()
        mshape = list(tshape)
        if r < 0.4:
            pass
        elif r < 0.6:
            i = int(rng.integers(0, D))
            mshape[i] += int(rng.choice([-1, 1, 2]))
        elif r < 0.7:
            mshape = mshape[::-1]
        elif r < 0.8:
            mshape = [mshape[0]]
        elif r < 0.9:
            mshape = mshape + [mshape[-1]]
        else:
            mshape = [int(x) for x in rng.integers(2, 300, size=D)]
        if big and rng.random() < 0.5:
            mshape = [x + int(rng.choice([-1, 0, 1])) for x in tshape]

        def rate():
            k = int(rng.integers(0, 4))
            if k == 0:
                return int(rng.integers(4, 80)) * 125              # eighths: exact in binary, ties of the rounding included
            v = int(rng.integers(500, 20000))
            return v + 1 if v % 10 == 5 else v
        trate = [rate()] * D if rng.random() < 0.7 else [rate() for _ in range(D)]
        r2 = rng.random()
        if r2 < 0.45:
            mrate = list(trate)
        elif r2 < 0.8:
            mrate = [v + int(rng.integers(-6, 7)) for v in trate]
            mrate = [v + 1 if v % 10 == 5 and v % 125 != 0 else v for v in mrate]
        elif r2 < 0.9:
            mrate = [trate[0]]
        else:
            mrate = [rate() for _ in range(len(mshape))]
        if len(mrate) not in (1, len(mshape)):
            mrate = (mrate * len(mshape))[:len(mshape)]
        has_path = bool(rng.random() < 0.9)
        target = _FakeMask(tshape, [v / 1000.0 for v in trate])
        fake = _FakeMask(mshape, [v / 1000.0 for v in mrate])
        seen = []

        class FakeDensity:
            @classmethod
            def from_file(cls, path, **kw):
                seen.append((path, kw))
                return fake
        old = mt.Density
        mt.Density = FakeDensity
        try:
            out = mt.load_and_validate_mask(mask_target=target, mask_path="mask.mrc" if has_path else None, use_memmap=True)
            impl = "none" if out is None else "ok" if out is fake else "other"
            if out is fake and not (np.array_equal(fake.origin, target.origin) and seen == [("mask.mrc", {"use_memmap": True})]):
                impl = "ok:origin-or-arguments"
        except ValueError as e:
            msg = str(e)
            impl = "shape" if msg.startswith("Expected shape") else "sampling" if msg.startswith("Expected sampling_rate") else \
                "broadcast" if "broadcast" in msg else "ValueError: " + msg[:80]
        except Exception as e:  # noqa
            impl = f"{type(e).__name__}: {e}"[:100]
        finally:
            mt.Density = old
        inp = dict(has_path=has_path, mshape=mshape, tshape=tshape, mrate=mrate, trate=trate)
        reqs.append(("c18.maskCheck", inp))
        cases.append((inp, impl))
    for (inp, impl), ans in zip(cases, d.batch(reqs)):
        ctx.agree("match_template.load_and_validate_mask (in-process, file reader stubbed): decision vs the model", inp, impl, ans)
        ctx.count("mask-check:" + ans)
        ctx.distinct(("maskcheck", ans, len(inp["mshape"]) == len(inp["tshape"]), max(inp["tshape"]) >= 99990))

    # ---- parse_args: cross-option checks, interpolation order, padding / centring flags
    tilt_file = os.path.join(tmp, "tilts.txt")
    with open(tilt_file, "w") as fh:
        fh.write("angles\n0\n")
    reqs, cases = [], []
    for it in range(n):
        argv = ["match_template.py", "-m", "target.mrc", "-i", "template.mrc", "-o", os.path.join(tmp, "unused.pickle")]
        if rng.random() < 0.7:
            argv += ["-a", "60"]
        else:
            argv += ["--cone_angle", "30", "--cone_sampling", "10"]
        tilt = [None, None, "file", "number", "range", "word"][int(rng.integers(0, 6))]
        has_wedge, has_ctf = bool(rng.random() < 0.5), bool(rng.random() < 0.3)
        if tilt is not None:
            argv += ["--tilt_angles", {"file": tilt_file, "number": "40", "range": "40,50", "word": "no_such_file_c18"}[tilt]]
        if has_wedge:
            argv += ["--wedge_axes", "0,2"]
        if has_ctf:
            argv += ["--ctf_file", "ctf.star"]
        order = int(rng.integers(-2, 5))
        argv += ["--interpolation_order", str(order)]
        flags = {k: bool(rng.random() < 0.5) for k in ("pad_edges", "pad_fourier", "pad_filter", "no_centering")}
        argv += ["--" + k for k, v in flags.items() if v]
        kind, val = _in_process(mt.parse_args, argv)
        if kind == "ok":
            impl = {"check": "ok", "interpolation": val.interpolation_order,
                    "flags": {k: getattr(val, k, "missing") for k in flags},
                    "wedge_axes": None if val.wedge_axes is None else list(val.wedge_axes)}
        else:
            msg = str(val)
            impl = {"check": "need-wedge-axes" if "Need to specify --wedge_axes" in msg else
                    "tilt-neither-file-nor-range" if "is not a file nor a range" in msg else
                    "need-tilt-angles" if "Need to specify --tilt_angles" in msg else msg[:100]}
        reqs.append(("c18.mtArgs", dict(has_tilt=tilt is not None, tilt_is_file=tilt == "file", tilt_is_number=tilt in ("number", "range"),
                                        has_wedge_axes=has_wedge, has_ctf=has_ctf, interpolation_order=order)))
        cases.append(({"argv": argv[7:]}, impl, flags, has_wedge))
    for (inp, impl, flags, has_wedge), ans in zip(cases, d.batch(reqs)):
        model = {"check": ans["check"]}
        if ans["check"] == "ok":
            model.update({"interpolation": ans["interpolation"], "flags": flags, "wedge_axes": [0, 2] if has_wedge else None})
        ctx.agree("match_template.parse_args (in-process): cross-option checks, interpolation order, padding / centring flags vs the model",
                  inp, impl, model)
        ctx.count("match-args:" + ans["check"])
        ctx.distinct(("mtargs", ans["check"], tuple(sorted(flags.items()))))


# (importable backends, --backend, --use_gpu, --use_mixed_precision, -p)
_BACKEND_CORNERS = [(["jax"], None, False, False, True), (["jax", "mlx"], None, False, False, True), (["jax", "mlx"], None, False, False, False),
                    (["pytorch", "jax"], None, True, False, True), (["jax", "pytorch", "cupy"], None, True, False, True),
                    (["jax", "pytorch", "cupy"], None, True, False, False), (["cupy", "jax"], None, True, True, False),
                    (["numpyfftw", "cupy"], "cupy", False, False, False), (["numpyfftw", "pytorch"], "pytorch", False, False, False),
                    (["numpyfftw", "pytorch"], None, False, True, False), (["pytorch", "jax"], None, False, True, False),
                    (["numpyfftw", "jax"], "jax", False, False, True), (["mlx"], None, True, False, False), (["pytorch"], None, True, False, True)]


def _match_main_cases(ctx, d, rng, tmp):
    """match_template.main in-process on small generated files, with the search itself (`scan_subsets`) and the schedule oracle
    (`compute_parallelization_schedule`) replaced by recording stubs: what the glue decides (padding / centring flags, analyzer,
    schedule calls, target mask, interpolation order) and what it writes (the result tuple) vs the model and the shared layout"""
    from tme import Density
    from tme.matching_utils import load_pickle
    import tme.density
    mt = _script("match_template")
    n = ctx.budget(70, 400)
    wd = os.path.join(tmp, "mtmain")
    os.makedirs(wd, exist_ok=True)
    files = []
    for i, (ns_, ms_) in enumerate([((12, 10, 8), (6, 5, 4)), ((9, 11, 10), (5, 5, 5)), ((14, 9, 9), (4, 7, 6))]):
        tf, pf_, mf = (os.path.join(wd, f"{nm}{i}.mrc") for nm in ("target", "template", "tmask"))
        Density(rng.normal(size=ns_).astype(np.float32), sampling_rate=2.0, origin=(1, 2, 3)).to_file(tf)
        t = np.zeros(ms_, dtype=np.float32)
        t[1:, 1:-1, :-1] = rng.random((ms_[0] - 1, ms_[1] - 2, ms_[2] - 1)) + 1      # off-centre content: centring changes the box
        Density(t, sampling_rate=2.0, origin=(0, 0, 0)).to_file(pf_)
        mask = (rng.random(ns_) < 0.7).astype(np.float32)
        Density(mask, sampling_rate=2.0, origin=(1, 2, 3)).to_file(mf)
        files.append((tf, pf_, mf, ns_, ms_, mask))
    reqs, cases = [], []
    for it in range(n):
        tf, pf_, mf, ns_, ms_, mask = files[int(rng.integers(0, len(files)))]
        flags = {k: bool(rng.random() < 0.4) for k in ("pad_edges", "pad_fourier", "pad_filter", "no_centering")}
        pc = bool(rng.random() < 0.3)
        score = ["FLCSphericalMask", "FLC", "CORR", "CAM", "MCC", "CC"][int(rng.integers(0, 6))]
        tmask = bool(rng.random() < 0.4) or score == "MCC"
        order = int(rng.integers(-1, 4))
        out = os.path.join(wd, f"out{it}.pickle")
        argv = ["match_template.py", "-m", tf, "-i", pf_, "-o", out, "-s", score, "--interpolation_order", str(order)]
        argv += [["-a", "60"], ["-a", "180"], ["-a", "250"], ["--cone_angle", "20", "--cone_sampling", "10"]][int(rng.integers(0, 4))]
        argv += ["--" + k for k, v in flags.items() if v]
        if pc:
            argv += ["-p"]
        if tmask:
            argv += ["--target_mask", mf]
        # backend selection: a canned set of importable backends, --backend (now and then one that is not importable), GPU, mixed precision
        names = ["numpyfftw", "pytorch", "jax", "mlx", "cupy"]
        available = [x for x in names if rng.random() < (0.6 if x == "numpyfftw" else 0.4)] or ["numpyfftw"]
        use_gpu, mixed = bool(rng.random() < 0.3), bool(rng.random() < 0.25)
        req = None
        if rng.random() < 0.35:
            req = names[int(rng.integers(0, len(names)))] if rng.random() < 0.3 else available[int(rng.integers(0, len(available)))]
            argv += ["--backend", req]
        if use_gpu:
            argv += ["--use_gpu"]
        if mixed:
            argv += ["--use_mixed_precision"]
        be_calls = []
        # (the corners of the selection are rare under independent draws: the first cases of the stream are set by hand)
        if it < len(_BACKEND_CORNERS):
            while "--backend" in argv:
                del argv[argv.index("--backend"):argv.index("--backend") + 2]
            argv = [a for a in argv if a not in ("--use_gpu", "--use_mixed_precision", "-p")]
            available, req, use_gpu, mixed, pc = _BACKEND_CORNERS[it]
            argv += (["--backend", req] if req else []) + (["--use_gpu"] if use_gpu else []) + (["--use_mixed_precision"] if mixed else []) \
                + (["-p"] if pc else [])

        def answer():
            r = rng.random()
            if r < 0.1:
                return None
            sp = [1, 1, 1] if r < 0.5 else [int(x) for x in rng.integers(1, 4, size=3)]
            return {"splits": sp, "schedule": [int(rng.integers(1, 4)), int(rng.integers(1, 4))]}
        ans0, ans1 = answer(), answer()
        rec = {"calls": [], "scan": None, "centered": 0}

        def cps(**kw):
            rec["calls"].append({"box": [int(x) for x in kw["shape2"]], "padding": [int(x) for x in kw["shape1_padding"]]})
            a = ans0 if not any(kw["shape1_padding"]) else ans1
            if a is None:
                return None, None
            return {i: s_ for i, s_ in enumerate(a["splits"])}, tuple(a["schedule"])

        def scan(**kw):
            md = kw["matching_data"]
            rec["scan"] = {"pad_target_edges": kw.get("pad_target_edges"), "pad_fourier": kw.get("pad_fourier"),
                           "pad_template_filter": kw.get("pad_template_filter"), "interpolation_order": kw.get("interpolation_order"),
                           "callback": kw["callback_class"].__name__, "min_distance": kw["callback_class_args"].get("min_distance"),
                           "job_schedule": [int(x) for x in kw["job_schedule"]],
                           "target_splits": [int(kw["target_splits"][i]) for i in range(3)]}
            rec["tmpl"] = [int(x) for x in md._output_template_shape]
            rec["tshape"] = [int(x) for x in np.shape(md.template)]
            if kw["callback_class"].__name__ == "MaxScoreOverRotations":
                shape = tuple(md._output_target_shape)
                return (np.full(shape, 2.0, dtype=np.float32), np.zeros(3, dtype=int), np.zeros(shape, dtype=np.float32),
                        {np.eye(3, dtype=np.float32).tobytes(): 0})
            return (np.array([[1, 2, 3]]), np.eye(3)[None], np.array([0.5]), np.array([0.0]))
        real_centered = tme.density.Density.centered

        def centered(self, *a, **kw):
            rec["centered"] += 1
            return real_centered(self, *a, **kw)
        old = mt.scan_subsets, mt.compute_parallelization_schedule, mt.be
        mt.scan_subsets, mt.compute_parallelization_schedule, mt.be = scan, cps, _BeProxy(old[2], available, be_calls)
        tme.density.Density.centered = centered
        try:
            kind, val = _in_process(mt.main, argv)
        finally:
            mt.scan_subsets, mt.compute_parallelization_schedule, mt.be = old
            tme.density.Density.centered = real_centered
        breq = ("c18.backend", dict(available=available, backend=req, use_gpu=use_gpu, mixed=mixed, peak_calling=pc, interpolation_order=order))
        if kind == "exit" and val == 2:
            # argparse: --backend is not among the importable ones
            ctx.agree("match_template (in-process): a --backend that is not importable is rejected", {"available": available, "backend": req},
                      "rejected", d.call(*[breq[0]], **breq[1])["choice"])
            ctx.count("match-main:backend rejected")
            continue
        inp = {"argv": [os.path.basename(a) if a.endswith((".mrc", ".pickle")) else a for a in argv[1:]], "answer_unpadded": ans0, "answer_padded": ans1}
        if kind == "raised" or (kind == "exit" and val != -1):
            ctx.spec("match_template.main (in-process, search stubbed) runs", inp, False, str(val)[:300], key="match-main:raised")
            continue
        impl = {"calls": rec["calls"], "scan": rec["scan"], "centred": rec["centered"] > 0, "exit": val if kind == "exit" else None}
        if not be_calls:
            impl["backend"] = "unchanged"
        else:
            dev = [c[1] for c in be_calls if c[1] is not None]
            impl["backend"] = [be_calls[0][0], dev[0] if dev else None]
            if len({c[0] for c in be_calls}) != 1:
                impl["backend"] = ["several"] + sorted({str(c[0]) for c in be_calls})
        impl["mixed precision set"] = any(c[2] for c in be_calls)
        layout_impl = None
        if rec["scan"] is not None:
            data = load_pickle(out)
            try:
                layout_impl = {"ndims": [getattr(x, "ndim", None) if isinstance(x, np.ndarray) else None for x in data],
                               "meta": bool(isinstance(data[-1], tuple) and len(data[-1]) == 4 and np.allclose(data[-1][0], (1, 2, 3))
                                            and np.allclose(data[-1][2], 2.0) and getattr(data[-1][3], "score", None) == score)}
            except Exception as e:  # noqa
                layout_impl = {"error": f"{type(e).__name__}: {e}"[:200]}
            if pc or not isinstance(data[0], np.ndarray):
                impl["mask_applied"] = False
                data = None
            if data is not None:
                sm = np.asarray(data[0])        # the stub's score map is 2 everywhere
                impl["mask_applied"] = True if np.array_equal(sm, 2.0 * mask) else False if np.array_equal(sm, np.full(ns_, 2.0)) else "other"
        # the padding the stub is keyed on: zeros / the template box MatchingData reports (known once the glue has run)
        tmpl = rec.get("tmpl") or (rec["calls"][0]["padding"] if rec["calls"] and any(rec["calls"][0]["padding"]) else
                                   rec["calls"][-1]["padding"] if rec["calls"] and any(rec["calls"][-1]["padding"]) else list(ms_))
        if flags["pad_fourier"] and rec["calls"]:
            tmpl = rec["calls"][0]["box"]
        reqs.append(("c18.schedule", dict(answers=[{"padding": [0, 0, 0], "answer": ans0}, {"padding": tmpl, "answer": ans1}], tmpl=tmpl,
                                          use_tshape=1, tshape=rec.get("tshape") or tmpl, peak_calling=int(pc), has_target_mask=int(tmask),
                                          is_mcc=int(score == "MCC"), **flags)))
        reqs.append(breq)
        reqs.append(("c18.layout", dict(peak_calling=pc, ndim=3)))
        inp["available backends"] = available
        cases.append((inp, impl, layout_impl, flags, pc, mixed))
        ctx.count("match-main:" + ("peak calling" if pc else "score map") + (", target mask" if tmask else ""))
    answers = d.batch(reqs)
    for i, (inp, impl, layout_impl, flags, pc, mixed) in enumerate(cases):
        ans, ia, lay = answers[3 * i], answers[3 * i + 1], answers[3 * i + 2]
        ran = ans["result"] is not None
        model = {"calls": ans["calls"], "exit": None if ran else -1, "centred": ans["scan"]["centre"], "scan": None,
                 "backend": ia["choice"], "mixed precision set": bool(mixed and isinstance(ia["choice"], list))}
        ctx.count("match-main:backend " + (ia["choice"] if isinstance(ia["choice"], str) else ia["choice"][0]))
        if ran:
            model["scan"] = {"pad_target_edges": ans["scan"]["pad_target_edges"], "pad_fourier": ans["scan"]["pad_fourier"],
                             "pad_template_filter": ans["scan"]["pad_template_filter"], "interpolation_order": ia["interpolation"],
                             "callback": ans["callback"], "min_distance": ans["scan"]["min_distance"],
                             "job_schedule": ans["result"]["schedule"], "target_splits": ans["result"]["splits"]}
            model["mask_applied"] = ans["mask_applied"]
        ctx.agree("match_template.main (in-process, search and schedule oracle stubbed): schedule calls, scan_subsets arguments, analyzer, "
                  "centring, target mask vs the model", inp, impl, model)
        if ran:
            ctx.agree("match_template.main writes the result tuple in the shared layout (ndim of every member, metadata record last)", inp,
                      layout_impl, {"ndims": lay["ndims"], "meta": True})
            if int(np.prod(ans["result"]["splits"])) > 1:
                ctx.spec("a search that runs split pads the target edges", inp, impl["scan"] is not None and impl["scan"]["pad_target_edges"] is True,
                         impl["scan"], key="match-main:split-without-padding")
        ctx.count(f"match-main:{len(ans['calls'])} schedule call(s), " + ("exit" if not ran else "split" if int(np.prod(ans['result']['splits'])) > 1 else "unsplit"))
        ctx.distinct(("mtmain", tuple(sorted(flags.items())), pc, ran, len(ans["calls"]), str(ia["choice"])))


def _background_cases(ctx, d, rng, tmp):
    """postprocess.load_match_template_output: background subtraction on dyadic score maps (exact in binary) vs the fraction model"""
    from tme.matching_utils import write_pickle
    pp = _script("postprocess")
    n = ctx.budget(25, 150)
    wd = os.path.join(tmp, "ppbg")
    os.makedirs(wd, exist_ok=True)
    reqs, cases = [], []
    for it in range(n):
        shape = tuple(int(x) for x in rng.integers(2, 5, size=int(rng.integers(1, 4))))
        den = [4, 8, 16][int(rng.integers(0, 3))]
        fg = rng.integers(-den, 2 * den + 1, size=shape)
        regime = ["below one", "below one", "any", "zero"][int(rng.integers(0, 4))]
        bg = rng.integers(-den, den, size=shape) if regime == "below one" else rng.integers(-den, 2 * den + 1, size=shape) if regime == "any" \
            else np.zeros(shape, dtype=int)
        if regime == "any":
            bg.reshape(-1)[0] = den                      # a background score of exactly 1: division by zero
        if rng.random() < 0.3:
            bg.reshape(-1)[-1] = fg.reshape(-1)[-1]      # a voxel that scores like its background
        fgp, bgp = os.path.join(wd, f"fg{it}.pickle"), os.path.join(wd, f"bg{it}.pickle")
        rest = [np.zeros(len(shape), dtype=int), np.zeros(shape, dtype=np.float32), {}, ("meta",)]
        write_pickle([(fg / den).astype(np.float32)] + rest, fgp)
        write_pickle([(bg / den).astype(np.float32)] + rest, bgp)
        with np.errstate(all="ignore"):
            try:
                out = np.asarray(pp.load_match_template_output(fgp, bgp)[0], dtype=np.float64)
                plain = np.asarray(pp.load_match_template_output(fgp, None)[0], dtype=np.float64)
            except Exception as e:  # noqa
                ctx.spec("load_match_template_output handles two score maps of one shape", {"shape": shape}, False, repr(e), key="background:raised")
                continue
        reqs.append(("c18.bgNorm", dict(den=den, fg=[int(x) for x in fg.reshape(-1)], bg=[int(x) for x in bg.reshape(-1)])))
        cases.append(({"shape": list(shape), "den": den, "regime": regime, "fg": [int(x) for x in fg.reshape(-1)], "bg": [int(x) for x in bg.reshape(-1)]},
                      out.reshape(-1), bool(np.array_equal(plain, fg / den))))
        ctx.count("background:" + regime)
    for (inp, out, plain_ok), ans in zip(cases, d.batch(reqs)):
        def same(x, m):
            if m == "inf":
                return bool(np.isinf(x) and x > 0)
            v = m[0] / m[1]
            return bool(np.isfinite(x) and abs(x - v) <= 1e-6 * max(1.0, abs(v)))
        bad = [i for i, (x, m) in enumerate(zip(out, ans)) if not same(x, m)]
        ctx.agree("postprocess.load_match_template_output (in-process): (fg - bg) / (1 - bg) clipped at 0, voxel by voxel, vs the fraction model",
                  inp, {"differing voxels": bad, "values": [float(out[i]) for i in bad[:5]]}, {"differing voxels": [], "values": []})
        ctx.spec("background-normalised scores are never negative; without a background file the scores are returned as stored", inp,
                 bool(np.all(np.nan_to_num(out, nan=-1.0) >= 0) and plain_ok), key="background:negative-or-changed")
        ctx.distinct(("bg", inp["regime"], len(inp["shape"]), inp["den"]))


def _merge_cases(ctx, d, rng, tmp):
    """postprocess.main with several --input_file: the loop of merge_outputs (elementwise maximum, entity labels).  The score
    normalisation the loop calls (tme.matching_exhaustive.normalize_under_mask) does not exist in the library: it is supplied as a
    no-op stand-in for the duration of the call, so that the script's own loop runs; without it the tool stops with an ImportError
    (recorded as a note)"""
    import argparse
    import tme.matching_exhaustive as me
    from tme import Density
    from tme.matching_utils import write_pickle
    pp = _script("postprocess")
    n = ctx.budget(20, 120)
    wd = os.path.join(tmp, "ppmerge")
    os.makedirs(wd, exist_ok=True)
    tfn = os.path.join(wd, "template.mrc")
    Density(np.ones((2, 2), dtype=np.float32), sampling_rate=1.0, origin=(0, 0)).to_file(tfn)
    cli = argparse.Namespace(template=tfn, target="target.mrc", no_centering=True, template_mask=None, target_mask=None)
    meta = (np.zeros(2), np.zeros(2), np.ones(2), cli)
    reqs, cases = [], []
    had = hasattr(me, "normalize_under_mask")
    for it in range(n):
        side = int(rng.integers(5, 9))
        shape = (side, side)
        K = int(rng.integers(2, 4))
        dd = int(rng.integers(1, 3))
        maps = [rng.integers(1, 7, size=shape) for _ in range(K)]            # small positive range: ties between the inputs are common
        files = []
        for i, m in enumerate(maps):
            fn = os.path.join(wd, f"in{it}_{i}.pickle")
            write_pickle([m.astype(np.float32), np.zeros(2, dtype=int), np.zeros(shape, dtype=np.float32), {0.0: np.eye(2, dtype=np.float32)}, meta], fn)
            files.append(fn)
        prefix = os.path.join(wd, f"o{it}")
        argv = ["postprocess.py", "--output_prefix", prefix, "--peak_caller", "PeakCallerSort", "--min_distance", "0", "--number_of_peaks", "100000",
                "--min_boundary_distance", str(dd), "--input_file"] + files
        if not had:
            me.normalize_under_mask = lambda **kw: None
        try:
            kind, val = _in_process(pp.main, argv)
        finally:
            if not had and hasattr(me, "normalize_under_mask"):
                del me.normalize_under_mask
        inp = {"shape": list(shape), "inputs": K, "d": dd}
        if kind != "exit" or val != 0 or not os.path.exists(prefix + ".tsv"):
            ctx.spec("postprocess.main merges several score-map results (normalisation stand-in supplied)", inp, False, f"{kind} {val}"[:300],
                     key="merge-cli:raised")
            continue
        header, tab, nrow = _read_tsv(prefix + ".tsv")
        got = {(int(float(tab["z"][i])), int(float(tab["y"][i]))): [int(round(float(tab["score"][i]))), int(round(float(tab["detail"][i])))]
               for i in range(nrow)}
        reqs.append(("c18.merge", dict(inputs=[[int(x) for x in m.reshape(-1)] for m in maps])))
        cases.append((inp, got, shape, dd, nrow))
        ctx.count(f"merge-cli:{K} inputs")
    for (inp, got, shape, dd, nrow), ans in zip(cases, d.batch(reqs)):
        want = {}
        for flat, (sc, ent) in enumerate(ans):
            z, y = divmod(flat, shape[1])
            if dd <= z < shape[0] - dd and dd <= y < shape[1] - dd:
                want[(z, y)] = [sc, ent]
        ctx.agree("postprocess.main with several inputs (in-process, normalisation stand-in): merged score and entity label of every voxel in the "
                  "window vs the model of the loop", inp,
                  {"rows": nrow, "voxels": sorted([list(k), v] for k, v in got.items())},
                  {"rows": len(want), "voxels": sorted([list(k), v] for k, v in want.items())})
        ctx.distinct(("merge", inp["inputs"], inp["d"], inp["shape"][0]))


def _cli_logic_cases(ctx, d, rng, tmp):
    _postprocess_cases(ctx, d, rng, tmp)
    # several --input_file: merge_outputs (not modelled - the outcome for a score-map and a peak-list result goes to the evidence as a note)
    import argparse
    from tme.matching_utils import write_pickle
    from tme import Density
    tfn = os.path.join(tmp, "ppcli", "merge_template.mrc")
    Density(np.ones((2, 2), dtype=np.float32), sampling_rate=1.0, origin=(0, 0)).to_file(tfn)
    cli = argparse.Namespace(template=tfn, target="target.mrc", no_centering=True, template_mask=None, target_mask=None)
    meta = (np.zeros(2), np.zeros(2), np.ones(2), cli)
    pair = {"score map": [np.arange(12, dtype=np.float32).reshape(3, 4), np.zeros(2, dtype=int), np.zeros((3, 4), dtype=np.float32),
                          {0.0: np.eye(2, dtype=np.float32)}, meta],
            "peak list": [np.array([[1, 1]]), np.eye(2)[None].astype(np.float32), np.array([1.0], dtype=np.float32), np.zeros(1), meta]}
    for name, data in pair.items():
        fn = os.path.join(tmp, "ppcli", "merge_" + name.replace(" ", "_") + ".pickle")
        write_pickle(data, fn)
        kind, val = _in_process(_script("postprocess").main, ["postprocess.py", "--output_prefix", os.path.join(tmp, "ppcli", "merged"),
                                                              "--input_file", fn, fn])
        ctx.note(f"postprocess.main with two --input_file ({name} results; merge_outputs is outside the modelled logic): {kind} {str(val)[:120]}")
    _postprocess_args_cases(ctx, d, rng, tmp)
    _background_cases(ctx, d, rng, tmp)
    _merge_cases(ctx, d, rng, tmp)
    _match_template_cases(ctx, d, rng, tmp)
    _match_main_cases(ctx, d, rng, tmp)


# ------------------------------------------------------------------------------------------------------------------
# the two command-line tools
# ------------------------------------------------------------------------------------------------------------------
def _write_mrc(path, arr, sampling=1.0, origin=None):
    from tme import Density
    origin = np.zeros(arr.ndim) if origin is None else np.asarray(origin, dtype=float)
    Density(arr.astype(np.float32), origin=origin, sampling_rate=np.ones(arr.ndim) * sampling).to_file(path)


def _run(cmd, cwd):
    try:
        p = subprocess.run(cmd, cwd=cwd, env=env.child_env(), capture_output=True, text=True, timeout=900)
    except subprocess.TimeoutExpired:
        return 124, "timeout"
    return p.returncode, (p.stdout + p.stderr)[-1500:]


_ROT = {}


def _rotset(angular):
    """the rotation matrices the tool samples for `-a angular` (its own order)"""
    if angular not in _ROT:
        from tme.matching_utils import get_rotation_matrices
        if angular >= 180:
            _ROT[angular] = np.eye(3).reshape(1, 3, 3)
        else:
            _ROT[angular] = np.asarray(get_rotation_matrices(angular_sampling=angular, dim=3), dtype=np.float64)
    return _ROT[angular]


def _perm_flip(R):
    Rinv = R.T
    perm = [int(np.argmax(np.abs(Rinv[i]))) for i in range(3)]
    flip = [bool(Rinv[i, perm[i]] < 0) for i in range(3)]
    return perm, flip


def _com_particle(rng):
    """a particle in a cubic box of 9 voxels whose centre of mass is the central voxel, exactly (values are multiples of 1/16, so
    every moment is exact in float32 and float64): a point-symmetric body with odd extents 3 / 5, plus a tail voxel four voxels out
    along an axis on which the body is 3 wide, balanced by four times its weight on the body's opposite face.  The bounding box is
    therefore not centred on the centre of mass (the centring shift of the tool is a non-zero integral vector), the extents differ,
    and the particle has no symmetry (neither rotational nor mirror)"""
    ext = [int(x) for x in rng.permutation([[3, 5, 3], [3, 3, 5], [5, 3, 5], [3, 5, 5]][int(rng.integers(0, 4))])]
    q = rng.integers(3, 17, size=ext).astype(np.float64)
    q[0, :, :] += 8
    q[:, 0, :] += 4
    q[:, :, 0] += 12
    q[0, 0, :] += 6
    body = (q + q[::-1, ::-1, ::-1]) / 16.0
    K, c = 9, 4
    canon = np.zeros((K, K, K))
    canon[tuple(slice(c - e // 2, c + e // 2 + 1) for e in ext)] = body
    axis = int(rng.choice([i for i, e in enumerate(ext) if e == 3]))
    sign = int(rng.choice([-1, 1]))
    w = int(rng.integers(4, 13)) / 16.0
    tail, face = [c, c, c], [c, c, c]
    tail[axis] += 4 * sign
    face[axis] -= sign
    canon[tuple(tail)] += w
    canon[tuple(face)] += 4 * w
    nz = np.argwhere(canon > 0)
    lo, hi = nz.min(0), nz.max(0) + 1
    if rng.random() < 0.6:
        # negative density (as in filtered / background-subtracted maps) in empty voxels of the bounding box next to the tail:
        # it is no mass - the centre of mass of the positive density, the tool's reference point, stays where it is, while a
        # signed mean would move by more than a voxel
        empty = [tuple(int(v) for v in e) for e in np.argwhere(canon == 0)
                 if all(l <= v < h for v, l, h in zip(e, lo, hi)) and (e[axis] - c) * sign >= 2]
        for e in [empty[int(j)] for j in rng.permutation(len(empty))[:6]]:
            canon[e] = -int(rng.integers(64, 129)) / 16.0
    return canon, [int(x) for x in lo], [int(x) for x in hi]


def _read_tsv(path):
    """the orientation file as written (parsed here, not by the library): header, columns by name"""
    with open(path, encoding="utf-8") as f:
        rows = [ln.rstrip("\n").split("\t") for ln in f.read().split("\n") if ln.strip() != ""]
    header = rows[0]
    body = rows[1:]
    col = {h: i for i, h in enumerate(header)}
    tab = {h: [r[col[h]] for r in body] for h in header}
    return header, tab, len(body)


def _build_case(it, opt, rng, rx, tmp):
    """generate the files and command lines of one case (main thread); rng draws of the historical families keep their order,
    every newer dimension draws from `rx`"""
    from tme.memory import estimate_ram_usage
    from tme import Density
    score, peak_calling, split, centering, pad_fourier, pad_edges, peak_caller, border, use_memmap = (
        opt[k] for k in ("score", "peak_calling", "split", "centering", "pad_fourier", "pad_edges", "peak_caller", "border", "use_memmap"))
    fam = opt.get("family", "dense")
    angular = int(opt.get("angular", 60))
    Rset = _rotset(angular)
    jobs = int(opt.get("jobs", 2))
    tmask_file, rot_obj, expected_score = None, None, None
    margin = 0
    exact_centre = False
    if fam == "dense":
        m = 5 if centering else (6 if it % 2 == 0 else 5)       # even boxes only arise without centring
        ms = [m] * 3
        ns = [int(x) for x in rng.integers(3 * m + 4, 3 * m + 8, size=3)]
        if border == "upper":
            # a template whose density sits in the middle of a larger, otherwise empty box (the usual cryo-EM situation): the
            # box may overhang the target's upper border while the density itself is still inside the target
            m, margin = 9, 3
            ms = [m] * 3
            ns = [int(x) for x in rng.choice([23, 29, 31, 37], size=3)]      # next_fast_len(n) > n on every axis
        # asymmetric positive template; with centring the enclosing box is the template box itself (all voxels > 0)
        template = rng.random(ms) * 0.8 + 0.2
        template[0 + margin, :, :] += 1.5
        template[:, 1 + margin, :] += 0.7
        template[:, :, 2 + margin] += 1.1
        if margin:
            core = np.zeros(ms, bool)
            core[(slice(margin, m - margin),) * 3] = True
            template = np.where(core, template, 0.0)
        # the rotation set the tool will use (in the tool's order: inner jobs get contiguous chunks)
        if peak_calling and split:
            ridx = int(rng.integers(0, max(1, len(Rset) // 2)))
        elif len(Rset) % jobs and len(Rset) > jobs:
            ridx = len(Rset) - 1 - int(rng.integers(0, len(Rset) % jobs))     # among the rotations only the last job's remainder covers
        else:
            ridx = int(rng.integers(0, len(Rset)))
        R = Rset[ridx]
        perm, flip = _perm_flip(R)
        gR = S.rotate_grid(template, perm, flip)
        P0 = []
        for n in ns:
            if centering:
                # the centred template lives in an enlarged box (all rotations fit): keep that box inside the target
                P0.append(int(rng.integers(4, n - m - 3)))
            elif peak_calling and split:
                P0.append(int(rng.integers(n // 2 + 1, n - m)))       # in a tile with a non-zero offset
            elif peak_caller == "PeakCallerScipy" or score in ("CC", "LCC"):
                # the external local-maximum finder only promises maxima farther than min_distance (3) from the border (C05);
                # unnormalised scores (CC, LCC) are not bounded by the planted value once mirrored / zero-extended data
                # enters the window, so these two are planted in the interior
                P0.append(int(rng.integers(4, n - m - 3)))
            else:
                P0.append(n - m + margin if border == "upper" else int(rng.choice([0, n - m])) if border else int(rng.integers(1, n - m)))
        target = rng.normal(0, 0.05 if margin else 0.15, size=ns)
        # (the box may overhang the upper border: only the part inside the target is added; the overhanging part of gR is empty)
        target[tuple(slice(p, min(p + m, n)) for p, n in zip(P0, ns))] += gR[tuple(slice(0, min(m, n - p)) for p, n in zip(P0, ns))]
        rot_obj, rot_img = template, gR
        if centering:
            com = np.array([np.sum(gR * g) / gR.sum() for g in np.indices(ms)])
            ref, tol = np.array(P0) + com, 1.0
        else:
            ref, tol = None, 0.0        # P0 + ms // 2, from the Lean model
        box = ms
    elif fam == "noncubic":
        # three different extents of mixed parity; the rotations that map such a box onto itself: identity and the half turns
        ms = [int(x) for x in rx.permutation([[5, 6, 7], [4, 5, 7], [6, 5, 8], [5, 7, 9]][int(rx.integers(0, 4))])]
        ns = [int(3 * mm + rx.integers(2, 7)) for mm in ms]
        template = rx.random(ms) * 0.8 + 0.2
        template[0, :, :] += 1.5
        template[:, 1, :] += 0.7
        template[:, :, 2] += 1.1
        keepers = [i for i, Rm in enumerate(Rset) if np.allclose(np.abs(Rm), np.eye(3), atol=1e-6)]
        ridx = int(keepers[int(rx.integers(0, len(keepers)))])
        R = Rset[ridx]
        perm, flip = _perm_flip(R)
        gR = S.rotate_grid(template, perm, flip)
        interior = peak_caller == "PeakCallerScipy" or score in ("CC", "LCC") or (peak_calling and split)
        P0 = []
        for n, mm in zip(ns, ms):
            if interior:
                P0.append(int(rx.integers(4, n - mm - 3)))
            else:
                P0.append(int(rx.choice([0, n - mm])) if border else int(rx.integers(1, n - mm)))
        target = rx.normal(0, 0.15, size=ns)
        target[tuple(slice(p, p + mm) for p, mm in zip(P0, ms))] += gR
        rot_obj, rot_img = template, gR
        ref, tol = None, 0.0
        box = ms
    else:
        # intcom / masked: a particle whose centre of mass is a voxel centre, off the centre of its bounding box
        canon, blo, bhi = _com_particle(rx)
        K = canon.shape[0]
        ext = [h - l for l, h in zip(blo, bhi)]
        p = canon[tuple(slice(l, h) for l, h in zip(blo, bhi))]
        cmask = np.zeros((K, K, K))
        cmask[tuple(slice(l, h) for l, h in zip(blo, bhi))] = 1.0
        if centering:
            # file box: possibly non-cubic, the particle anywhere in it
            ms = [int(e + rx.integers(1, 5)) for e in ext]
            off = [int(rx.integers(0, mm - e + 1)) for mm, e in zip(ms, ext)]
        else:
            # without centring the tool rotates the file box about its geometric centre: cubic box, particle off-centre
            mm = max(ext) + int(rx.integers(1, 4))
            ms = [mm] * 3
            off = [int(rx.integers(0, mm - e + 1)) for e in ext]
        template = np.zeros(ms)
        sl = tuple(slice(o, o + e) for o, e in zip(off, ext))
        template[sl] = p
        tmask = np.zeros(ms)
        tmask[sl] = 1.0
        if len(Rset) % jobs and len(Rset) > jobs and rx.random() < 0.5:
            ridx = len(Rset) - 1 - int(rx.integers(0, len(Rset) % jobs))
        else:
            ridx = int(rx.integers(0, len(Rset)))
        R = Rset[ridx]
        perm, flip = _perm_flip(R)
        if centering:
            obj, objmask = canon, cmask       # the tool rotates the centred template about the centre of mass
        else:
            obj, objmask = template, tmask
        gR = S.rotate_grid(obj, perm, flip)
        gM = S.rotate_grid(objmask, perm, flip)
        B = obj.shape[0]
        box = [B] * 3
        if centering:
            cshape = [int(x) for x in Density(template.astype(np.float32)).centered(0)[0].shape]
            ns = [int(max(3 * K, c + 8) + rx.integers(4, 9)) for c in cshape]
            lo = [max(3, (c - K) // 2 + 2) for c in cshape]
        else:
            ns = [int(3 * B + rx.integers(2, 7)) for _ in range(3)]
            # --pad_edges mirrors the target at its faces: keep the particle so far inside that the box centre belonging to a
            # mirror image of it lies outside the target (the particle has no mirror symmetry, its body alone nearly has)
            lo = [(B - min(ext)) // 2 + 1] * 3
        P0 = [int(rx.integers(l, n - B - l + 1)) for l, n in zip(lo, ns)]
        win = tuple(slice(q, q + B) for q in P0)
        if fam == "masked":
            # clutter everywhere; the planted copy exists only under the (rotated) mask: a mask that is not moved together with
            # the template covers clutter instead of the particle
            target = rx.normal(0, 0.6, size=ns)
            w = target[win]
            w[gM > 0] = gR[gM > 0] + rx.normal(0, 0.01, size=int((gM > 0).sum()))
            tmask_file = tmask
            # what a mask-aware normalised score is at the planted pose: the correlation of window and template under the mask
            expected_score = float(np.corrcoef(w[gM > 0], gR[gM > 0])[0, 1])
        else:
            target = rx.normal(0, 0.05, size=ns)
            target[win] += gR
        rot_obj, rot_img = obj, gR
        exact_centre = True
        if centering:
            ref, tol = np.array(P0, dtype=float) + (K - 1) / 2.0, 0.0
        else:
            ref, tol = None, 0.0
    ns = [int(x) for x in ns]
    # ---- call-time dimensions that leave the expected answer unchanged -------------------------------------------------
    st, sT, offs = float(opt.get("target_scale", 1.0)), float(opt.get("template_scale", 1.0)), float(opt.get("target_offset", 0.0))
    target_f = (target + offs) * st
    template_f = template * sT
    if opt.get("invert"):
        target_f = -target_f          # the file holds the inverted contrast; --invert_target_contrast undoes it
    sampling = float(opt.get("sampling", 1.0))
    origin_t = [float(x) * sampling for x in opt.get("origin_target", [0, 0, 0])]
    origin_i = [float(x) * sampling for x in opt.get("origin_template", [0, 0, 0])]
    case_dir = os.path.join(tmp, f"cli_{it}")
    os.makedirs(case_dir, exist_ok=True)
    _write_mrc(os.path.join(case_dir, "target.mrc"), target_f, sampling, origin_t)
    _write_mrc(os.path.join(case_dir, "template.mrc"), template_f, sampling, origin_i)
    outname = {"cwd": "out.pickle", "subdir": os.path.join("res dir", "out.pickle"),
               "abs": os.path.join(case_dir, "elsewhere", "result.bin")}[opt.get("output", "cwd")]
    if os.path.dirname(outname):
        os.makedirs(os.path.join(case_dir, os.path.dirname(outname)), exist_ok=True)
    if opt.get("stale_output"):
        # the output path already holds an older, longer result (nine records): none of it may survive the run
        import pickle
        with open(os.path.join(case_dir, outname), "wb") as f:
            for i in range(9):
                pickle.dump(("stale record", i, np.zeros((4, 4, 4), dtype=np.float32)), f)
    cmd = [env.PY, os.path.join(env.REPO, "scripts", "match_template.py"), "-m", "target.mrc", "-i", "template.mrc",
           "-o", outname, "-s", score, "-a", str(angular), "-n", str(jobs)]
    if opt.get("order", 1) is not None:
        cmd += ["--interpolation_order", str(opt.get("order", 1))]
    target_mask = None
    if score == "MCC":      # the doubly-masked score needs a target mask
        target_mask = np.ones(ns)
    if opt.get("target_mask"):
        # a target mask with a hole far from the particle (in the corner opposite to it)
        target_mask = np.ones(ns)
        centre_ref = np.array(P0) + np.array(box) / 2.0
        hole = tuple(slice(0, n // 4) if c > n / 2 else slice(n - n // 4, n) for c, n in zip(centre_ref, ns))
        target_mask[hole] = 0
    if target_mask is not None:
        _write_mrc(os.path.join(case_dir, "tmask.mrc"), target_mask, sampling, origin_t)
        cmd += ["--target_mask", "tmask.mrc"]
    if tmask_file is not None:
        # (the origin stored in a mask file is not used by the tool: it takes the template's)
        _write_mrc(os.path.join(case_dir, "imask.mrc"), tmask_file, sampling, [7.0 * sampling, 0.0, -3.0 * sampling])
        cmd += ["--template_mask", "imask.mrc"]
    if not centering:
        cmd.append("--no_centering")
    if pad_fourier:
        cmd.append("--pad_fourier")
    if pad_edges:
        cmd.append("--pad_edges")
    if peak_calling:
        cmd += ["-p"]
    if use_memmap:
        cmd.append("--use_memmap")
    if opt.get("invert"):
        cmd.append("--invert_target_contrast")
    if opt.get("score_threshold"):
        cmd += ["--score_threshold", str(opt["score_threshold"])]
    if split:
        if fam in ("dense",):
            shape2 = [2 * ms[0]] * 3 if centering else ms
        elif centering:
            shape2 = [int(x) for x in Density(template.astype(np.float32)).centered(0)[0].shape]
        else:
            shape2 = ms
        whole = estimate_ram_usage(shape1=ns, shape2=shape2, matching_method=score, ncores=1,
                                   analyzer_method="PeakCallerMaximumFilter" if peak_calling else "MaxScoreOverRotations")
        cmd += ["-r", str(int(whole * 0.8))]
    inp = dict(opt)
    inp.update({"it": it, "ns": ns, "ms": [int(x) for x in ms], "P0": [int(x) for x in P0], "perm": perm, "flip": flip, "rotation_index": ridx,
                "command": " ".join(cmd[2:])})
    # post-processing: primary call + variants on the same result file
    pp0 = [env.PY, os.path.join(env.REPO, "scripts", "postprocess.py"), "--input_file", outname, "--output_format", "orientations",
           "--peak_caller", peak_caller]
    primary = pp0 + ["--output_prefix", "ori"]
    if opt.get("number_of_peaks", 10) is not None:
        primary += ["--number_of_peaks", str(opt.get("number_of_peaks", 10))]
    if opt.get("min_distance", 3) is not None:
        primary += ["--min_distance", str(opt.get("min_distance", 3))]
    return {"it": it, "opt": opt, "inp": inp, "dir": case_dir, "cmd": cmd, "out": os.path.join(case_dir, outname), "pp0": pp0, "primary": primary,
            "target": target_f, "template": template_f, "target_mask": target_mask, "ns": ns, "ms": [int(x) for x in ms], "P0": [int(x) for x in P0],
            "box": [int(x) for x in box], "R": R, "Rset": Rset, "ref": ref, "tol": tol, "rot_obj": rot_obj, "rot_img": rot_img, "margin": margin,
            "exact_centre": exact_centre, "expected_score": expected_score, "sampling": sampling, "origin_t": origin_t, "origin_i": origin_i, "fam": fam,
            "variants": list(opt.get("pp", [])), "results": {}}


def _ref_distance_ok(case, ref, dist):
    return all(dist + 1 <= r <= n - dist - 2 for r, n in zip(ref, case["ns"]))


def _result_digest(path):
    """content of every array of a result file (memory maps read through)"""
    from tme.matching_utils import load_pickle
    try:
        data = load_pickle(path)
        data = data if isinstance(data, list) else [data]
        out = []
        for x in data:
            if isinstance(x, np.ndarray):
                out.append(f"{type(x).__name__}:{x.dtype}:{x.shape}:{_digest(np.array(x))}")
            elif isinstance(x, dict):
                out.append("dict:" + _digest(np.array([np.asarray(v, dtype=np.float64).ravel() for _, v in sorted(x.items())])))
        return out
    except Exception as e:
        return ["error:" + repr(e)]


def _execute(case):
    """the subprocess part of a case (pool thread): match_template.py, postprocess.py, post-processing variants"""
    res = case["results"]
    rc, log = _run(case["cmd"], case["dir"])
    res["match"] = (rc, log, os.path.exists(case["out"]))
    if rc != 0 or not res["match"][2]:
        return case
    res["digest_before"] = _result_digest(case["out"])
    rc, log = _run(case["primary"], case["dir"])
    tsv = os.path.join(case["dir"], "ori.tsv")
    res["primary"] = (rc, log, os.path.exists(tsv))
    if rc != 0 or not res["primary"][2]:
        return case
    try:
        header, tab, nrow = _read_tsv(tsv)
        case["tsv"] = (header, tab, nrow)
        import shutil
        shutil.copyfile(tsv, os.path.join(case["dir"], "ori_primary.tsv"))      # (a variant writes ori.tsv again)
        best = max(float(np.float32(x)) for x in tab["score"]) if nrow else None
    except Exception as e:      # evaluated in the main thread
        case["tsv_error"] = repr(e)
        return case
    if best is None:
        return case
    pp0 = case["pp0"]
    nd = ["--number_of_peaks", "10", "--min_distance", "3"]
    for v in case["variants"]:
        extra, prefix = None, "v_" + v
        if v == "one":
            extra, prefix = ["--number_of_peaks", "1", "--min_distance", "3"], "ori"      # (writes ori.tsv a second time)
        elif v == "tie":
            extra = ["--minimum_score", repr(best), "--min_distance", "3"]
        elif v == "below":
            extra = ["--minimum_score", repr(best * 0.5), "--min_distance", "3"]
        elif v == "maxtie":
            extra = nd + ["--maximum_score", repr(best)]
        elif v == "boundary":
            extra = nd + ["--min_boundary_distance", str(case["boundary"])]
        elif v == "mask_edges":
            extra = nd + ["--mask_edges"]
        elif v == "reread":
            extra = ["--orientations", "ori.tsv"]
        elif v == "ppmask":
            extra = nd + ["--target_mask", "ppmask.mrc"]
        elif v == "oversample":
            extra = nd + ["--peak_oversampling", "2"]
        if extra is None:
            continue
        rc, log = _run(pp0 + ["--output_prefix", prefix] + extra, case["dir"])
        path = os.path.join(case["dir"], prefix + ".tsv")
        got = None
        if rc == 0 and os.path.exists(path):
            try:
                got = _read_tsv(path)
            except Exception as e:
                log = repr(e)
        res["v:" + v] = (rc, log, got)
    res["digest_after"] = _result_digest(case["out"])
    return case


def _same_rotation(case, Rrep, rots):
    R = case["R"]
    if np.allclose(Rrep, R, atol=1e-4):
        return True
    obj, img = case["rot_obj"], case["rot_img"]
    for (pp_, ff_, RR) in rots:
        if np.allclose(RR, Rrep, atol=1e-4):
            if not S.rot_ok_for_shape(pp_, obj.shape):
                return False
            return bool(np.allclose(S.rotate_grid(obj, pp_, ff_), img))
    return False


def _rows(tab, nrow):
    pos = np.array([[float(tab[c][i]) for c in ("z", "y", "x")] for i in range(nrow)], dtype=float).reshape(nrow, 3)
    ang = np.array([[float(tab[c][i]) for c in ("euler_z", "euler_y", "euler_x")] for i in range(nrow)], dtype=float).reshape(nrow, 3)
    sc = np.array([float(np.float32(x)) for x in tab["score"]], dtype=float)
    return pos, ang, sc


def _evaluate(ctx, d, case):
    from tme.matching_utils import load_pickle, euler_to_rotationmatrix
    from tme import Density
    opt, inp, res = case["opt"], case["inp"], case["results"]
    score, peak_calling, split, centering, pad_fourier, pad_edges, peak_caller = (
        opt[k] for k in ("score", "peak_calling", "split", "centering", "pad_fourier", "pad_edges", "peak_caller"))
    it, ns, ms, P0, box, R = case["it"], case["ns"], case["ms"], case["P0"], case["box"], case["R"]
    fam = case["fam"]
    rc, log, there = res["match"]
    if rc != 0 or not there:
        key = "cli:match_template-failed:" + score
        if opt.get("use_memmap") and opt.get("target_mask") and score != "MCC" and not peak_calling and "read-only" in log:
            key = "cli:match_template-failed:memmap+target-mask:read-only"
        ctx.spec("match_template.py runs", inp, False, log, key=key)
        return
    try:
        # (the check process is not in the directory the tool ran in: a result file must not depend on the reader's directory)
        data = load_pickle(case["out"])
    except Exception as e:  # noqa
        ctx.spec("the result file written by the matching tool reloads", inp, False, f"{type(e).__name__}: {e}"[:300],
                 key="cli:result-reload" + (":memmap" if opt.get("use_memmap") else ""))
        return
    meta = data[-1] if isinstance(data, list) else None
    ctx.spec("result file holds the analyzer's four records followed by the metadata record, nothing else", inp,
             isinstance(data, list) and len(data) == 5, {"records": len(data) if isinstance(data, list) else type(data).__name__},
             key="cli:record-count" + (":stale-output" if opt.get("stale_output") else ""))
    if isinstance(data, list) and len(data) == 5:
        lay = d.call("c18.layout", peak_calling=bool(peak_calling), ndim=len(ns))
        nd = [int(x.ndim) if isinstance(x, np.ndarray) else None for x in data]
        if not (peak_calling and isinstance(data[0], np.ndarray) and data[0].size == 0):
            ctx.agree("result tuple written by match_template.py (subprocess): ndim of every member vs the layout shared with the reader",
                      inp, {"ndims": nd, "score_map": not peak_calling}, {"ndims": lay["ndims"], "score_map": lay["score_map"]})
    meta_ok = isinstance(meta, tuple) and len(meta) == 4
    why = None
    if meta_ok:
        cli_args = meta[-1]
        want_t = np.asarray(Density.from_file(os.path.join(case["dir"], "target.mrc"), use_memmap=True).origin, dtype=float)
        chk = {"template path": os.path.basename(str(cli_args.template)) == "template.mrc",
               "target path": os.path.basename(str(cli_args.target)) == "target.mrc",
               "score": cli_args.score == score,
               "centring flag": bool(cli_args.no_centering) == (not centering),
               "peak flag": bool(cli_args.peak_calling) == bool(peak_calling),
               "target origin": np.allclose(np.asarray(meta[0], dtype=float), want_t, atol=1e-4) and np.allclose(want_t, case["origin_t"], atol=1e-3),
               "sampling rate": np.allclose(np.asarray(meta[2], dtype=float), case["sampling"], atol=1e-4),
               "template origin": centering or np.allclose(np.asarray(meta[1], dtype=float), case["origin_i"], atol=1e-3)}
        why = [k for k, v in chk.items() if not v]
        meta_ok = not why
    ctx.spec("result file carries the metadata record (origins, sampling rate, arguments)", inp, bool(meta_ok), why, key="cli:metadata")
    if opt.get("use_memmap") and not peak_calling:
        outdir = os.path.dirname(os.path.abspath(case["out"]))
        mm_ok = all(isinstance(data[i], np.memmap) and os.path.dirname(os.path.abspath(data[i].filename)) == outdir for i in (0, 2))
        ctx.spec("with --use_memmap the score and rotation maps reload as memory maps stored next to the result file", inp, bool(mm_ok),
                 {"types": [type(data[0]).__name__, type(data[2]).__name__]}, key="cli:memmap-relocated")
    if not peak_calling:
        smap = np.asarray(data[0])
        rmap = np.asarray(data[2])
        ctx.spec("score map in the result file has the target's shape (its indices are target voxel coordinates)", inp,
                 list(smap.shape) == ns and list(rmap.shape) == ns, {"score map": list(smap.shape), "target": ns},
                 key="cli:score-map-shape")
        if list(smap.shape) == ns and list(rmap.shape) == ns:
            am = [int(x) for x in np.unravel_index(int(np.argmax(smap)), smap.shape)]
            if not centering:
                want = [p + b // 2 for p, b in zip(P0, box)]
                ctx.spec("maximum of the score map in the result file sits at the planted box centre", inp, am == want,
                         {"argmax": am, "planted": want}, key="cli:score-map-argmax")
            elif case["exact_centre"]:
                want = [int(x) for x in case["ref"]]
                ctx.spec("maximum of the score map in the result file sits at the planted centre of mass (a voxel centre)", inp, am == want,
                         {"argmax": am, "planted": want}, key="cli:score-map-argmax:centred")
            # offsets and rotation table: zero offset; one entry per sampled rotation; the entry at the maximum is the planted one
            table = data[3]
            tab_ok = isinstance(table, dict) and np.array_equal(np.asarray(data[1]), np.zeros(3, dtype=int))
            why = None if tab_ok else "offset / table type"
            if tab_ok:
                mats = [np.asarray(v, dtype=float) for v in table.values()]
                tab_ok = sorted(int(k) for k in table.keys()) == list(range(len(case["Rset"]))) and all(mm_.shape == (3, 3) for mm_ in mats)
                why = None if tab_ok else {"keys": sorted(int(k) for k in table.keys())[:30]}
                if tab_ok:
                    hit = [int(np.argmin([np.abs(mm_ - Rk).max() for Rk in case["Rset"]])) for mm_ in mats]
                    err = max(float(np.abs(mm_ - case["Rset"][h]).max()) for mm_, h in zip(mats, hit))
                    tab_ok = sorted(hit) == list(range(len(case["Rset"]))) and err <= 1e-5
                    why = None if tab_ok else {"matched": hit, "err": err}
            ctx.spec("rotation table of the result file lists every sampled rotation once; offset is zero", inp, bool(tab_ok), why,
                     key="cli:rotation-table")
            if tab_ok:
                Rmax = np.asarray(table[int(rmap[tuple(am)])], dtype=float)
                ctx.spec("rotation stored at the maximum of the score map is the planted rotation", inp,
                         _same_rotation(case, Rmax, S.grid_rotations(3)), {"stored": np.round(Rmax, 3).tolist()}, key="cli:rotation-map")
    # reference point in target voxel coordinates
    if case["ref"] is not None:
        ref, tol = np.asarray(case["ref"], dtype=float), case["tol"]
    else:
        ref, tol = np.array(d.call("c18.refPos", ms=box, P0=P0), dtype=float), 0.0
    rc, log, there = res.get("primary", (1, "not run", False))
    if rc != 0 or not there:
        ctx.spec("postprocess.py runs", inp, False, log, key="cli:postprocess-failed:" + peak_caller)
        return
    if "tsv_error" in case:
        ctx.spec("orientation file is a tab-separated table", inp, False, case["tsv_error"], key="cli:tsv-format")
        return
    header, tab, nrow = case["tsv"]
    if not ctx.spec("orientation file has the columns z y x euler_z euler_y euler_x score detail", inp, header == TSV_HEADER,
                    {"header": header}, key="cli:tsv-header"):
        return
    if nrow == 0:
        ctx.spec("orientation list is not empty", inp, False, key="cli:no-orientations")
        return
    rots = S.grid_rotations(3)
    cls = ("centred" if centering else "nocentre") + (":peaks" if peak_calling else ":map")

    def best_of(tab_, nrow_):
        pos_, ang_, sc_ = _rows(tab_, nrow_)
        b_ = int(np.argmax(sc_))
        return pos_, ang_, sc_, b_

    pos, ang, sc, b = best_of(tab, nrow)
    ok_pos = bool(np.all(np.abs(pos[b] - ref) <= tol + 1e-6))
    ctx.spec("best orientation sits at the planted reference point (box centre / centre of mass) in target voxels", inp, ok_pos,
             {"best": pos[b].tolist(), "reference": ref.tolist(), "score": float(sc[b])}, key="cli:position:" + cls)
    Rrep = euler_to_rotationmatrix(np.asarray(ang[b], dtype=float))
    ctx.spec("best orientation carries the planted rotation", inp, _same_rotation(case, Rrep, rots), {"reported": np.round(Rrep, 3).tolist()},
             key="cli:rotation")
    # the library's reader sees the same rows as the file holds
    try:
        from tme.orientations import Orientations
        ori = Orientations.from_file(os.path.join(case["dir"], "ori_primary.tsv"), file_format="text")
        same_rows = ori.translations.shape == pos.shape and np.array_equal(ori.translations, pos.astype(np.float32)) and \
            np.array_equal(ori.rotations, ang.astype(np.float32)) and np.array_equal(ori.scores, sc.astype(np.float32))
    except Exception as e:
        same_rows = False
        log = repr(e)
    ctx.agree("Orientations.from_file(ori.tsv) == the rows of the file (columns by name)", inp, bool(same_rows), True)
    if score in NORMALISED:
        if fam in ("dense", "noncubic"):
            floor = 0.6 if centering else 0.9
        else:
            # exact copy under the mask / exact integral shift: the planted value is 1 up to float32 noise and the small additive
            # background (sd 0.05 against a particle of amplitude >= 0.4 in at most a quarter of the box for `intcom`)
            # masked: the score at the planted pose is the correlation under the binary mask (computed from the generated data in
            # double precision), up to the float32 noise allowance used for score maps (2e-3)
            floor = case["expected_score"] - 2e-3 if fam == "masked" else 0.7
        ctx.spec("best orientation's score is close to 1 for a normalised score", inp, bool(float(sc[b]) >= floor),
                 {"score": float(sc[b]), "floor": floor}, key="cli:score-near-one:" + score)
        ctx.spec("a normalised score does not exceed 1 (beyond float32 noise)", inp, bool(float(sc.max()) <= 1.0 + 2e-3), {"max": float(sc.max())},
                 key="cli:score-above-one:" + score)
    nop = opt.get("number_of_peaks", 10)
    if not peak_calling:
        ctx.spec("no more orientations than --number_of_peaks", inp, nrow <= (1000 if nop is None else int(nop)), {"rows": nrow}, key="cli:number-of-peaks")
    # ---- post-processing variants on the same result file ---------------------------------------------------------------
    for v in case["variants"]:
        r = res.get("v:" + v)
        if r is None:
            continue
        vinp = dict(inp)
        vinp["postprocess_variant"] = v
        vrc, vlog, got = r
        if vrc != 0 or got is None:
            ctx.spec("postprocess.py runs", vinp, False, vlog, key=f"cli:postprocess-failed:{v}:" + peak_caller)
            continue
        vh, vt, vn = got
        if vh != TSV_HEADER:
            ctx.spec("orientation file has the columns z y x euler_z euler_y euler_x score detail", vinp, False, {"header": vh}, key="cli:tsv-header")
            continue
        if v == "reread":
            vp, va, vs = _rows(vt, vn)
            ctx.spec("an orientation file handed back through --orientations is written out unchanged", vinp,
                     vn == nrow and np.array_equal(vp, pos) and np.array_equal(va.astype(np.float32), ang.astype(np.float32)) and np.array_equal(vs, sc),
                     {"rows": [nrow, vn]}, key="cli:reread-orientations")
            continue
        if vn == 0:
            ctx.spec("orientation list is not empty", vinp, False, key="cli:no-orientations:" + v)
            continue
        vp, va, vs, vb = best_of(vt, vn)
        vtol = tol + (0.75 if v == "oversample" else 0.0)
        okv = bool(np.all(np.abs(vp[vb] - ref) <= vtol + 1e-6))
        ctx.spec("best orientation sits at the planted reference point (box centre / centre of mass) in target voxels", vinp, okv,
                 {"best": vp[vb].tolist(), "reference": ref.tolist(), "score": float(vs[vb])}, key=f"cli:position:{v}:" + cls)
        Rv = euler_to_rotationmatrix(np.asarray(va[vb], dtype=float))
        ctx.spec("best orientation carries the planted rotation", vinp, _same_rotation(case, Rv, rots), {"reported": np.round(Rv, 3).tolist()},
                 key="cli:rotation:" + v)
        best = float(sc[b])
        if v == "one":
            ctx.spec("--number_of_peaks 1 leaves exactly the best orientation", vinp, vn == 1, {"rows": vn}, key="cli:number-of-peaks:one")
        elif v == "tie":
            ctx.spec("--minimum_score equal to the best score keeps the best orientation and nothing below it", vinp,
                     bool(np.all(vs >= best)), {"scores": vs[:5].tolist(), "threshold": best}, key="cli:minimum-score:tie")
        elif v == "below":
            ctx.spec("--minimum_score keeps exactly the orientations at or above it", vinp, bool(np.all(vs >= np.float32(best * 0.5))),
                     {"min": float(vs.min()), "threshold": best * 0.5}, key="cli:minimum-score")
        elif v == "maxtie":
            ctx.spec("--maximum_score equal to the best score keeps the best orientation", vinp, bool(np.all(vs <= best)),
                     {"max": float(vs.max())}, key="cli:maximum-score:tie")
        elif v in ("boundary", "mask_edges"):
            dist = int(case["boundary"]) if v == "boundary" else int(np.ceil(max(ms) / 2))
            vinp["boundary_distance"] = dist
            kept = d.batch([("c18.keptAt", {"d": dist, "n": int(n_), "x": int(x_)}) for p_ in vp for x_, n_ in zip(p_, ns) if x_ >= 0])
            inside = bool(np.all(vp >= 0)) and all(k_["kept"] for k_ in kept)
            ctx.spec("with a boundary distance every reported orientation keeps that distance from the target's faces", vinp, inside,
                     {"distance": dist}, key="cli:boundary-distance")
            if v == "boundary":
                must = d.batch([("c18.keptAt", {"d": dist, "n": int(n_), "x": int(x_)}) for x_, n_ in zip(ref, ns)])
                ctx.obligation("C18 generator: the planted point keeps the requested boundary distance (Pm.C18.keptAt)", all(k_["kept"] for k_ in must),
                               {"ref": ref.tolist(), "distance": dist, "ns": ns})
        elif v == "ppmask":
            # (the mask multiplies the scores: an orientation reported outside it can only carry the score 0)
            pm = case["ppmask"]
            zero_outside = bool(all(pm[tuple(int(round(x)) for x in p_)] > 0 or s_ == 0.0 for p_, s_ in zip(vp, vs)))
            ctx.spec("with a post-processing mask an orientation outside the mask has score 0", vinp, zero_outside, key="cli:postprocess-mask")
    if "digest_after" in res:
        ctx.spec("post-processing leaves the arrays of the result file as they were written", inp, res["digest_before"] == res["digest_after"],
                 {"before": res["digest_before"], "after": res["digest_after"], "variants": case["variants"]},
                 key="cli:result-file-modified-by-postprocess" + (":memmap" if opt.get("use_memmap") else ""))
    # the score map written by the CLI == an in-process search on the same data (no centring: identical template)
    plain = not (opt.get("invert") or opt.get("target_mask") or opt.get("score_threshold") or opt.get("order", 1) != 1 or fam not in ("dense", "noncubic")
                 or int(opt.get("angular", 60)) != 60)
    if not peak_calling and not centering and it % 2 == 0 and plain:
        ref_res = S.run_subsets(score, case["target"], case["template"], rotations=case["Rset"], pad=pad_fourier, order=1, splits={},
                                pad_edges=bool(pad_edges or split), callback_args={"score_threshold": 0.0},
                                target_mask=np.ones(ns) if score == "MCC" else None)
        a, b_ = np.asarray(data[0], np.float64), np.asarray(ref_res[0], np.float64)
        close = a.shape == b_.shape and float(np.max(np.abs(a - b_))) <= (2e-3 if score not in ("CC", "LCC") else 1e-3 * max(1.0, float(np.abs(b_).max())))
        ctx.agree("score map in the result file == in-process scan_subsets on the same data", inp, bool(close), True)
    ctx.distinct(tuple(sorted((k, str(v)) for k, v in opt.items())))
    for k in ("score", "peak_calling", "split", "centering", "peak_caller"):
        ctx.count(f"cli:{k}={opt[k]}")
    ctx.count("cli:family=" + fam)
    for k in ("sampling", "invert", "target_mask", "angular", "order", "score_threshold", "target_scale", "target_offset", "output", "jobs", "stale_output",
              "number_of_peaks", "min_distance", "use_memmap"):
        if k in opt:
            ctx.count(f"cli:{k}={opt[k]}")
    for v in case["variants"]:
        ctx.count("cli:pp=" + v)
    if it < 2:
        ctx.sample(inp)


def _base_options(it):
    opt = {
        "score": SCORES[it % len(SCORES)],
        "peak_calling": bool(it % 3 == 1),
        "split": bool(it % 2 == 1),
        "centering": bool(it % 4 in (2, 3)),
        "pad_fourier": bool(it % 5 != 4),
        "pad_edges": bool(it % 3 == 0),
        "peak_caller": CALLERS[it % len(CALLERS)],
        "border": bool(it % 4 == 0),
        "use_memmap": bool(it % 7 == 3),
        # inner jobs: 2 divides the 24 rotations; 5 and 7 do not (the last job gets the remainder)
        # (with a memory limit the tool may legitimately find no schedule for an odd core count: keep 2 there)
        "jobs": 2 if it % 2 == 1 else [5, 2, 7, 2, 2][it % 5],
    }
    if it % 8 == 6:
        # the tool's plain defaults: score map, no --pad_fourier, no --pad_edges, no memory limit, no centring; the particle
        # touches the upper border of a target whose extents are not fast FFT lengths
        opt.update(peak_calling=False, split=False, centering=False, pad_fourier=False, pad_edges=False, border="upper",
                   use_memmap=False, jobs=2, score=["FLCSphericalMask", "CORR", "FLC", "CAM"][(it // 8) % 4],
                   peak_caller=["PeakCallerMaximumFilter", "PeakCallerSort"][(it // 8) % 2])
    return opt


PP_VARIANTS = ["one", "tie", "below", "maxtie", "boundary", "mask_edges", "reread", "ppmask", "oversample"]


def _wide_options(j, rx):
    """the j-th case of the widened stream: family x call-time dimensions (a covering design: every dimension cycles with its own
    period, the remaining freedom is drawn from rx)"""
    fam = ["intcom", "masked", "noncubic", "dense", "masked", "intcom", "dense", "noncubic"][j % 8]
    opt = {"family": fam}
    if fam == "masked":
        opt["score"] = ["FLC", "MCC"][(j // 8 + j) % 2]
        opt["centering"] = bool((j // 4) % 2 == 0)
    elif fam == "intcom":
        # (the mask the tool builds for a centred template is a cube that may sit half a voxel off the rotation centre: only the
        # scores that rotate the mask together with the template are independent of that)
        opt["score"] = ["FLC", "MCC"][(j // 8 + j // 5) % 2]
        opt["centering"] = True
    else:
        opt["score"] = SCORES[(j // 2) % len(SCORES)]
        opt["centering"] = bool(fam == "dense" and j % 3 == 0)
    opt["peak_calling"] = bool(j % 3 == 2)
    opt["split"] = bool(j % 4 == 1)
    opt["pad_fourier"] = bool(j % 5 not in (1, 4))
    opt["pad_edges"] = bool(j % 3 == 1)
    opt["peak_caller"] = CALLERS[(j + j // 5) % len(CALLERS)]
    opt["border"] = bool(fam in ("dense", "noncubic") and j % 4 >= 2 and not opt["centering"])
    opt["use_memmap"] = bool(j % 3 == 0 or j % 9 == 4)
    opt["jobs"] = 2 if opt["split"] else [1, 3, 2, 1, 5, 2][j % 6]
    opt["sampling"] = [1.0, 2.0, 0.5, 13.33][j % 4]
    opt["origin_target"] = [[0, 0, 0], [12, -7, 30], [-100, 4, 9]][j % 3]
    opt["origin_template"] = [[0, 0, 0], [-4, 8, 2], [25, 25, -6]][(j + 1) % 3]
    opt["output"] = ["cwd", "subdir", "abs"][j % 3]
    opt["angular"] = 180 if j % 7 == 3 else (200 if j % 7 == 6 else 60)
    opt["order"] = None if j % 6 == 5 else (3 if j % 6 == 2 else 1)
    if fam == "masked" or (fam == "intcom" and opt["score"] == "MCC"):
        # orders above 1 resample the mask without prefilter (a smoothing): a tight binary mask then reaches into the clutter, and
        # the doubly-masked score saturates for non-binary masks; both are outside what this family plants
        opt["order"] = 1
    if opt["score"] in NORMALISED and not opt["peak_calling"]:
        opt["score_threshold"] = [0, 0.25, 0][j % 3]
    if opt["score"] in NORMALISED:
        opt["target_scale"], opt["template_scale"] = [(1.0, 1.0), (1e-3, 50.0), (200.0, 1e-2), (1.0, 1e3)][(j // 2) % 4]
    if opt["score"] in MEANFREE and fam != "masked":
        opt["target_offset"] = [0.0, 2.0, -1.0][j % 3]
    opt["invert"] = bool(j % 5 == 2 and opt["score"] in MEANFREE)
    opt["target_mask"] = bool(j % 4 == 3 and opt["score"] != "MCC" and not opt["peak_calling"])
    opt["stale_output"] = bool(j % 4 == 2)
    opt["number_of_peaks"] = [10, None, 1, 3][j % 4]
    opt["min_distance"] = [3, 1, None, 2][(j // 2) % 4]
    if opt["peak_caller"] == "PeakCallerScipy" and opt["min_distance"] is None:
        opt["min_distance"] = 3       # (its default of 5 excludes a 5-voxel border: more than the interior placements keep)
    opt["boundary"] = [2, 1, 3][j % 3]
    k = 1 if rx is None else 2
    opt["pp"] = [PP_VARIANTS[(j + i * 4) % len(PP_VARIANTS)] for i in range(k)]
    if opt["peak_caller"] == "PeakCallerScipy":
        # skimage's peak_local_max takes its threshold exclusively (a contract of the external finder): no tie there
        opt["pp"] = ["below" if v == "tie" else v for v in opt["pp"]]
    return opt


def _finalise(case):
    """variants that need geometry: drop those whose precondition does not hold for this placement; write their files"""
    ref = case["ref"] if case["ref"] is not None else np.array(case["P0"]) + np.array(case["box"]) // 2
    keep = []
    for v in case["variants"]:
        if v == "boundary":
            # the largest distance that still admits the planted point (a tie with the bound) when the point is a voxel centre and
            # at most 6 voxels from a face; otherwise the configured distance, which must then leave the point well inside
            near = int(min(min(r, n - 1 - r) for r, n in zip(np.floor(ref), case["ns"])))
            if case["tol"] == 0 and 1 <= near <= 6:
                case["boundary"] = near
            else:
                case["boundary"] = int(case["opt"].get("boundary", 2))
                if not _ref_distance_ok(case, ref, case["boundary"] + int(np.ceil(case["tol"]))):
                    continue
        if v == "mask_edges" and (case["opt"]["centering"] or not _ref_distance_ok(case, ref, int(np.ceil(max(case["ms"]) / 2)))):
            continue
        if v in ("boundary", "mask_edges", "ppmask", "oversample", "one") and case["opt"]["peak_calling"]:
            continue        # these act on a score map (a peak list is passed through as it is)
        if v == "ppmask":
            pm = np.zeros(case["ns"])
            lo = [max(0, int(np.floor(r)) - 4) for r in ref]
            hi = [min(n, int(np.ceil(r)) + 5) for r, n in zip(ref, case["ns"])]
            pm[tuple(slice(a, b) for a, b in zip(lo, hi))] = 1.0
            case["ppmask"] = pm
            _write_mrc(os.path.join(case["dir"], "ppmask.mrc"), pm, case["sampling"], case["origin_t"])
        keep.append(v)
    case["variants"] = keep
    case["inp"]["pp"] = keep
    return case


def run(ctx):
    d = ctx.driver
    rng = ctx.rng("main")
    tmp = env.scratch()
    _pickle_cases(ctx, d, rng, tmp)
    # (own random stream: the draws of the historical streams keep their order)
    _cli_logic_cases(ctx, d, ctx.rng("cli-logic"), tmp)
    if os.environ.get("PV_C18_INPROCESS_ONLY") == "1":      # development aid: the subprocess streams are skipped
        ctx.note("PV_C18_INPROCESS_ONLY=1: subprocess streams skipped")
        return
    nbase = ctx.budget(8, 40)
    nwide = ctx.budget(20, 88)
    cases = []
    for it in range(nbase):
        # it=0: no centring, even box, --pad_edges, score map;  it=1: -p, memory-limited split, 2 cores, odd box, no centring
        opt = _base_options(it)
        if it % 4 == 0:
            opt["pp"] = [PP_VARIANTS[(it // 4) % len(PP_VARIANTS)]]
        cases.append(_finalise(_build_case(it, opt, ctx.rng(f"cli{it}"), ctx.rng(f"clix{it}"), tmp)))
    for j in range(nwide):
        rx = ctx.rng(f"wide{j}")
        cases.append(_finalise(_build_case(1000 + j, _wide_options(j, rx if ctx.thorough else None), rx, rx, tmp)))
    # the subprocess parts run on a few workers; the clauses are evaluated here, in order
    from concurrent.futures import ThreadPoolExecutor
    workers = int(os.environ.get("PV_C18_WORKERS", "5"))
    with ThreadPoolExecutor(max_workers=workers) as pool:
        futs = [pool.submit(_execute, c) for c in cases]
        for c, f in zip(cases, futs):
            f.result()
            _evaluate(ctx, d, c)
            for k in ("target", "template", "target_mask", "rot_obj", "rot_img", "ppmask"):
                c.pop(k, None)
