"""C18 — command-line pipeline recovers a planted particle; results reload intact.

Runs the two scripts of /repo as subprocesses on generated MRC files (planted rotated template), compares the
orientation list with the planted reference position / rotation, the result pickle with an in-process search of the
same data, and the pickle container with the Lean model (Model/C18.lean)."""
import hashlib
import os
import subprocess
import sys

import numpy as np

from .. import env
from .. import scoring as S

ID = "C18"
RULE = ("subprocess runs of scripts/match_template.py and scripts/postprocess.py: scores x {score map, peak calling} x "
        "{unsplit, memory-limited splitting} x {pad_fourier, pad_edges} x {centring on/off} x peak callers in post-processing, "
        "planted positions interior and next to the border, planted rotation from the 24-member set; pickle container on "
        "generated result tuples with ndarray / tuple / memmap members. distinct = distinct option tuples")
ASSUMPTIONS = ["PeakCallerScipy and the unnormalised scores CC / LCC are exercised with interior placements only (C05's border "
               "exception for the external local-maximum finder; CC / LCC are not bounded by the planted value at mirrored borders)",
               "with automatic centring the template is resampled about its centre of mass (interpolation): the best "
               "orientation must be within 1 voxel (per axis) of the planted centre of mass; without centring it must be the "
               "planted box centre (shape//2) exactly",
               "a rotation is 'the planted rotation' if it maps the template onto the planted copy"]
TRUSTED = ["C18: CPython pickle, numpy.memmap, mrcfile; the composition rests on the C01-C05/C11 theorems plus "
           "Pm.C18.planted_window_at_reference / pipeline_best_is_planted"]

SCORES = ["FLC", "FLCSphericalMask", "CORR", "CAM", "MCC", "CC", "LCC"]


def _digest(a):
    return hashlib.sha1(np.ascontiguousarray(a).tobytes()).hexdigest()[:12]


def _pickle_cases(ctx, d, rng, tmp):
    from tme.matching_utils import write_pickle, load_pickle
    n = ctx.budget(25, 200)
    for it in range(n):
        k = int(rng.integers(1, 6))
        items, desc, keep = [], [], []
        for j in range(k):
            r = rng.random()
            if r < 0.4:
                a = rng.normal(size=tuple(int(x) for x in rng.integers(1, 5, size=int(rng.integers(1, 4))))).astype(np.float32)
                items.append(a)
                desc.append({"kind": "obj", "payload": "nd:" + _digest(a)})
                keep.append(a)
            elif r < 0.6:
                first = str(rng.choice(["meta", "np.memmapX", "origin", "x"]))
                t = (first, int(rng.integers(0, 100)))
                items.append(t)
                desc.append({"kind": "tup", "first": first, "rest": repr(t[1:])})
                keep.append(t)
            elif r < 0.75:
                obj = {"a": int(rng.integers(0, 9))}
                items.append(obj)
                desc.append({"kind": "obj", "payload": "dict:" + repr(obj)})
                keep.append(obj)
            else:
                shape = tuple(int(x) for x in rng.integers(1, 5, size=int(rng.integers(1, 4))))
                fn = os.path.join(tmp, f"mm_{it}_{j}.dat")
                mm = np.memmap(fn, mode="w+", shape=shape, dtype=np.float32)
                mm[:] = rng.normal(size=shape)
                mm.flush()
                content = np.array(mm).copy()
                items.append(mm)
                desc.append({"kind": "memmap", "shape": list(shape), "dtype": "float32", "file": fn, "content": it * 10 + j})
                keep.append(content)
        out = os.path.join(tmp, f"res_{it}.pickle")
        data = items if rng.random() < 0.7 or k > 1 else items[0]
        bare = not isinstance(data, (list, tuple)) or isinstance(data, tuple) and k == 1 and not isinstance(items[0], tuple)
        try:
            write_pickle(data if not (k == 1 and isinstance(data, list) is False) else data, out)
            back = load_pickle(out)
        except Exception as e:
            ctx.spec("result container reloads", {"items": desc}, False, repr(e), key="pickle:raised")
            continue
        # what was actually written as a sequence
        seq = list(data) if isinstance(data, (list, tuple)) and not (isinstance(data, tuple) and k == 1 and data is items[0]) else [data]
        if isinstance(data, tuple) and data is items[0]:
            # a bare tuple item is a sequence to write_pickle: its elements become the records
            seq = list(data)
            desc_eff = [{"kind": "obj", "payload": "py:" + repr(x)} for x in seq]
            keep_eff = list(seq)
        else:
            desc_eff, keep_eff = desc, keep
        back_seq = back if isinstance(back, list) and len(seq) != 1 else [back]
        m = d.call("c18.pickle", items=desc_eff)
        impl_kinds = []
        for b in back_seq:
            if isinstance(b, np.memmap):
                impl_kinds.append("memmap")
            elif isinstance(b, tuple):
                impl_kinds.append("tup")
            else:
                impl_kinds.append("obj")
        ctx.agree("load_pickle(write_pickle(items)): kinds of the reloaded records", {"items": desc_eff},
                  impl_kinds, [x["kind"] for x in m["loaded"]])
        ok = len(back_seq) == len(seq)
        if ok:
            for b, orig, dsc in zip(back_seq, keep_eff, desc_eff):
                if dsc["kind"] == "memmap":
                    ok &= isinstance(b, np.memmap) and b.shape == orig.shape and b.dtype == orig.dtype and np.array_equal(np.array(b), orig) \
                        and os.path.dirname(b.filename) == os.path.dirname(out) and not os.path.exists(dsc["file"])
                elif isinstance(orig, np.ndarray):
                    ok &= isinstance(b, np.ndarray) and b.dtype == orig.dtype and np.array_equal(b, orig)
                else:
                    ok &= (b == orig)
        ctx.spec("result container reloads to the same arrays / tuples / metadata, memory maps relocated", {"items": desc_eff}, bool(ok),
                 key="pickle:roundtrip")
        ctx.distinct(("pickle", tuple(x["kind"] for x in desc_eff)))
        ctx.count("pickle:" + ("with-memmap" if any(x["kind"] == "memmap" for x in desc_eff) else "plain"))
    ctx.sample({"pickle_items": desc_eff})


def _write_mrc(path, arr):
    from tme import Density
    Density(arr.astype(np.float32), origin=np.zeros(arr.ndim), sampling_rate=np.ones(arr.ndim)).to_file(path)


def _run(cmd, cwd):
    p = subprocess.run(cmd, cwd=cwd, env=env.child_env(), capture_output=True, text=True, timeout=600)
    return p.returncode, (p.stdout + p.stderr)[-1500:]


def _cli_case(ctx, d, rng, tmp, it, opt):
    from tme.matching_utils import load_pickle, euler_to_rotationmatrix
    from tme.orientations import Orientations
    from tme.memory import estimate_ram_usage
    score, peak_calling, split, centering, pad_fourier, pad_edges, peak_caller, border, use_memmap = (
        opt[k] for k in ("score", "peak_calling", "split", "centering", "pad_fourier", "pad_edges", "peak_caller", "border", "use_memmap"))
    m = 5 if centering else (6 if it % 2 == 0 else 5)       # even boxes only arise without centring
    ms = [m] * 3
    ns = [int(x) for x in rng.integers(3 * m + 4, 3 * m + 8, size=3)]
    margin = 0
    if border == "upper":
        # a template whose density sits in the middle of a larger, otherwise empty box (the usual cryo-EM situation): the
        # box may overhang the target's upper border while the density itself is still inside the target
        m, margin = 9, 3
        ms = [m] * 3
        ns = [int(x) for x in rng.choice([23, 29, 31, 37], size=3)]      # next_fast_len(n) > n on every axis
    # asymmetric positive template; with centring the enclosing box is the template box itself (all voxels > 0)
    template = rng.random(ms) * 0.8 + 0.2
    template[0 + margin, :, :] += 1.5
    template[:, 1 + margin, :] += 0.7
    template[:, :, 2 + margin] += 1.1
    if margin:
        core = np.zeros(ms, bool)
        core[(slice(margin, m - margin),) * 3] = True
        template = np.where(core, template, 0.0)
    # the rotation set the tool will use (24 grid rotations, in the tool's order: inner jobs get contiguous chunks)
    from tme.matching_utils import get_rotation_matrices
    Rset = np.asarray(get_rotation_matrices(angular_sampling=60, dim=3), dtype=np.float64)
    jobs = int(opt.get("jobs", 2))
    if peak_calling and split:
        ridx = int(rng.integers(0, 12))
    elif len(Rset) % jobs:
        ridx = len(Rset) - 1 - int(rng.integers(0, len(Rset) % jobs))     # among the rotations only the last job's remainder covers
    else:
        ridx = int(rng.integers(0, len(Rset)))
    R = Rset[ridx]
    Rinv = R.T
    perm = [int(np.argmax(np.abs(Rinv[i]))) for i in range(3)]
    flip = [bool(Rinv[i, perm[i]] < 0) for i in range(3)]
    rots = S.grid_rotations(3)
    gR = S.rotate_grid(template, perm, flip)
    P0 = []
    for n in ns:
        if centering:
            # the centred template lives in an enlarged box (all rotations fit): keep that box inside the target
            P0.append(int(rng.integers(4, n - m - 3)))
        elif peak_calling and split:
            P0.append(int(rng.integers(n // 2 + 1, n - m)))       # in a tile with a non-zero offset
        elif peak_caller == "PeakCallerScipy" or score in ("CC", "LCC"):
            # the external local-maximum finder only promises maxima farther than min_distance (3) from the border (C05);
            # unnormalised scores (CC, LCC) are not bounded by the planted value once mirrored / zero-extended data
            # enters the window, so these two are planted in the interior
            P0.append(int(rng.integers(4, n - m - 3)))
        else:
            P0.append(n - m + margin if border == "upper" else int(rng.choice([0, n - m])) if border else int(rng.integers(1, n - m)))
    target = rng.normal(0, 0.05 if margin else 0.15, size=ns)
    # (the box may overhang the upper border: only the part inside the target is added; the overhanging part of gR is empty)
    target[tuple(slice(p, min(p + m, n)) for p, n in zip(P0, ns))] += gR[tuple(slice(0, min(m, n - p)) for p, n in zip(P0, ns))]
    case_dir = os.path.join(tmp, f"cli_{it}")
    os.makedirs(case_dir, exist_ok=True)
    _write_mrc(os.path.join(case_dir, "target.mrc"), target)
    _write_mrc(os.path.join(case_dir, "template.mrc"), template)
    cmd = [env.PY, os.path.join(env.REPO, "scripts", "match_template.py"), "-m", "target.mrc", "-i", "template.mrc",
           "-o", "out.pickle", "-s", score, "-a", "60", "-n", str(jobs), "--interpolation_order", "1"]
    if score == "MCC":      # the doubly-masked score needs a target mask
        _write_mrc(os.path.join(case_dir, "tmask.mrc"), np.ones(ns))
        cmd += ["--target_mask", "tmask.mrc"]
    if not centering:
        cmd.append("--no_centering")
    if pad_fourier:
        cmd.append("--pad_fourier")
    if pad_edges:
        cmd.append("--pad_edges")
    if peak_calling:
        cmd += ["-p"]
    if use_memmap:
        cmd.append("--use_memmap")
    if split:
        whole = estimate_ram_usage(shape1=ns, shape2=[2 * m] * 3 if centering else ms, matching_method=score, ncores=1,
                                   analyzer_method="PeakCallerMaximumFilter" if peak_calling else "MaxScoreOverRotations")
        cmd += ["-r", str(int(whole * 0.8))]
    inp = dict(opt)
    inp.update({"ns": ns, "ms": ms, "P0": P0, "perm": perm, "flip": flip, "rotation_index": ridx})
    rc, log = _run(cmd, case_dir)
    if rc != 0 or not os.path.exists(os.path.join(case_dir, "out.pickle")):
        ctx.spec("match_template.py runs", inp, False, log, key="cli:match_template-failed:" + score)
        return
    data = load_pickle(os.path.join(case_dir, "out.pickle"))
    cli_args = data[-1][-1]
    n_splits = None
    meta_ok = len(data[-1]) == 4 and os.path.basename(cli_args.template) == "template.mrc"
    ctx.spec("result file carries the metadata record (origins, sampling rate, arguments)", inp, bool(meta_ok), key="cli:metadata")
    if not peak_calling:
        smap = np.asarray(data[0])
        ctx.spec("score map in the result file has the target's shape (its indices are target voxel coordinates)", inp,
                 list(smap.shape) == ns and list(np.asarray(data[2]).shape) == ns, {"score map": list(smap.shape), "target": ns},
                 key="cli:score-map-shape")
        if list(smap.shape) == ns and not centering:
            am = [int(x) for x in np.unravel_index(int(np.argmax(smap)), smap.shape)]
            want = [p + m // 2 for p in P0]
            ctx.spec("maximum of the score map in the result file sits at the planted box centre", inp, am == want,
                     {"argmax": am, "planted": want}, key="cli:score-map-argmax")
    # reference point in target voxel coordinates
    if centering:
        com = np.array([np.sum(gR * g) / gR.sum() for g in np.indices(ms)])
        ref = np.array(P0) + com
        tol = 1.0
    else:
        ref = np.array(d.call("c18.refPos", ms=ms, P0=P0), dtype=float)
        tol = 0.0
    # post-processing
    pp = [env.PY, os.path.join(env.REPO, "scripts", "postprocess.py"), "--input_file", "out.pickle", "--output_prefix", "ori",
          "--output_format", "orientations", "--peak_caller", peak_caller, "--number_of_peaks", "10", "--min_distance", "3"]
    rc, log = _run(pp, case_dir)
    tsv = os.path.join(case_dir, "ori.tsv")
    if rc != 0 or not os.path.exists(tsv):
        ctx.spec("postprocess.py runs", inp, False, log, key="cli:postprocess-failed:" + peak_caller)
        return
    ori = Orientations.from_file(tsv, file_format="text")
    if len(ori.scores) == 0:
        ctx.spec("orientation list is not empty", inp, False, key="cli:no-orientations")
        return
    b = int(np.argmax(ori.scores))
    pos = np.asarray(ori.translations[b], dtype=float)
    ok_pos = bool(np.all(np.abs(pos - ref) <= tol + 1e-6))
    ctx.spec("best orientation sits at the planted reference point (box centre / centre of mass) in target voxels", inp, ok_pos,
             {"best": pos.tolist(), "reference": ref.tolist(), "score": float(ori.scores[b])},
             key="cli:position:" + ("centred" if centering else "nocentre") + (":peaks" if peak_calling else ":map"))
    Rrep = euler_to_rotationmatrix(np.asarray(ori.rotations[b], dtype=float))
    same = np.allclose(Rrep, R, atol=1e-4)
    if not same:
        for (pp_, ff_, RR) in rots:
            if np.allclose(RR, Rrep, atol=1e-4):
                same = bool(np.allclose(S.rotate_grid(template, pp_, ff_), gR))
    ctx.spec("best orientation carries the planted rotation", inp, bool(same), {"reported": np.round(Rrep, 3).tolist()},
             key="cli:rotation")
    if score not in ("CC", "LCC"):
        ctx.spec("best orientation's score is close to 1 for a normalised score", inp, bool(float(ori.scores[b]) >= (0.6 if centering else 0.9)),
                 {"score": float(ori.scores[b])}, key="cli:score-near-one:" + score)
    # the score map written by the CLI == an in-process search on the same data (no centring: identical template)
    if not peak_calling and not centering and it % 2 == 0:
        Rall = np.stack([r[2] for r in rots])
        from tme.matching_utils import get_rotation_matrices
        Rset = get_rotation_matrices(angular_sampling=60, dim=3)
        ref_res = S.run_subsets(score, target, template, rotations=Rset, pad=pad_fourier, order=1, splits={}, pad_edges=bool(pad_edges or split),
                                callback_args={"score_threshold": 0.0}, target_mask=np.ones(ns) if score == "MCC" else None)
        a, b_ = np.asarray(data[0], np.float64), np.asarray(ref_res[0], np.float64)
        close = a.shape == b_.shape and float(np.max(np.abs(a - b_))) <= (2e-3 if score not in ("CC", "LCC") else 1e-3 * max(1.0, float(np.abs(b_).max())))
        ctx.agree("score map in the result file == in-process scan_subsets on the same data", inp, bool(close), True)
    ctx.distinct(tuple(sorted((k, str(v)) for k, v in opt.items())))
    for k in ("score", "peak_calling", "split", "centering", "peak_caller"):
        ctx.count(f"cli:{k}={opt[k]}")
    if it < 2:
        ctx.sample(inp)


def run(ctx):
    d = ctx.driver
    rng = ctx.rng("main")
    tmp = env.scratch()
    _pickle_cases(ctx, d, rng, tmp)
    ncli = ctx.budget(8, 70)
    callers = ["PeakCallerMaximumFilter", "PeakCallerSort", "PeakCallerFast", "PeakCallerRecursiveMasking", "PeakCallerScipy"]
    opts = []
    for it in range(ncli):
        opts.append({
            "score": SCORES[it % len(SCORES)],
            "peak_calling": bool(it % 3 == 1),
            "split": bool(it % 2 == 1),
            "centering": bool(it % 4 in (2, 3)),
            "pad_fourier": bool(it % 5 != 4),
            "pad_edges": bool(it % 3 == 0),
            "peak_caller": callers[it % len(callers)],
            "border": bool(it % 4 == 0),
            "use_memmap": bool(it % 7 == 3),
            # inner jobs: 2 divides the 24 rotations; 5 and 7 do not (the last job gets the remainder)
            # (with a memory limit the tool may legitimately find no schedule for an odd core count: keep 2 there)
            "jobs": 2 if it % 2 == 1 else [5, 2, 7, 2, 2][it % 5],
        })
        if it % 8 == 6:
            # the tool's plain defaults: score map, no --pad_fourier, no --pad_edges, no memory limit, no centring; the particle
            # touches the upper border of a target whose extents are not fast FFT lengths
            opts[-1].update(peak_calling=False, split=False, centering=False, pad_fourier=False, pad_edges=False, border="upper",
                            use_memmap=False, jobs=2, score=["FLCSphericalMask", "CORR", "FLC", "CAM"][(it // 8) % 4],
                            peak_caller=["PeakCallerMaximumFilter", "PeakCallerSort"][(it // 8) % 2])
    # it=0: no centring, even box, --pad_edges, score map;  it=1: -p, memory-limited split, 2 cores, odd box, no centring
    # run the subprocess cases on a few workers
    from concurrent.futures import ThreadPoolExecutor
    rngs = [ctx.rng(f"cli{it}") for it in range(ncli)]

    def job(it):
        return it
    for it in range(ncli):
        _cli_case(ctx, d, rngs[it], tmp, it, opts[it])
